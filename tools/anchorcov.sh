#!/bin/bash
# usage: tools/anchorcov.sh <ID> [tier]
# Development aid (not a check): runs one check under coverage.py and prints, for every file named in the property's
# anchors, the lines of plasTeX that the check never executed -- used to find features of the anchored mechanisms that
# the alphabet of a check does not reach.  Scratch data under a temp directory, removed afterwards.
ID=$1; TIER=${2:-quick}
HERE="$(cd "$(dirname "$0")/.." && pwd)"
cd $HERE
export VP_REPO="${VP_REPO:-/repo}" PYTHONHASHSEED=0 VP_HOME=$HERE PLASTEX_VERIF=1
D=$(mktemp -d /tmp/vpcov-XXXXXX)
export PYTHONPYCACHEPREFIX=$D/pyc PYTHONPATH="$HERE:$VP_REPO"
cat > $D/rc <<EOR
[run]
parallel = true
concurrency = multiprocessing
sigterm = true
data_file = $D/cov
source = $VP_REPO/plasTeX
EOR
export COVERAGE_RCFILE=$D/rc
VP_NPROC=${VP_NPROC:-8} /venv/bin/python -m coverage run -m vp.run $ID --tier $TIER --no-evidence 2>&1 | tail -2 | cut -c1-200
/venv/bin/python -m coverage combine -q >/dev/null 2>&1
FILES=$(/venv/bin/python -c "
import json
for l in open('$HERE/properties.jsonl'):
    d=json.loads(l)
    if d['id']=='$ID': print(','.join('$VP_REPO/'+f for f in d['anchors']['files']))")
/venv/bin/python -m coverage report -m --include="$FILES" 2>&1 | cut -c1-1500
rm -rf $D
