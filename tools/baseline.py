#!/venv/bin/python
"""Run the repository's pinned test suite (guard OFF) on a tree and compare with BASELINE.json.
usage: tools/baseline.py [repo_dir]   -> exit 0 iff every stable_pass test passes."""
import json, os, subprocess, sys, tempfile, xml.etree.ElementTree as ET
repo = os.path.abspath(sys.argv[1] if len(sys.argv) > 1 else '/repo')
base = json.load(open('/root/.vp/BASELINE.json'))
want = set(base['stable_pass'])
fd, xml = tempfile.mkstemp(suffix='.xml'); os.close(fd)
env = dict(os.environ); env.pop('PLASTEX_VERIF', None); env['PYTHONDONTWRITEBYTECODE'] = '1'
env['PYTHONPATH'] = repo
p = subprocess.run(['/venv/bin/python', '-m', 'pytest', '-q', '-p', 'no:cacheprovider', '--timeout=900',
                    '--continue-on-collection-errors', '--junitxml=' + xml], cwd=repo, env=env,
                   capture_output=True, text=True)
passed = set()
for tc in ET.parse(xml).getroot().iter('testcase'):
    if not any(ch.tag in ('failure', 'error', 'skipped') for ch in tc):
        passed.add('%s::%s' % (tc.get('classname'), tc.get('name')))
os.remove(xml)
missing = sorted(want - passed)
print('baseline: %d/%d stable tests pass on %s' % (len(want & passed), len(want), repo))
for m in missing[:20]:
    print('  NOT PASSING:', m)
sys.exit(1 if missing else 0)
