import sys, json
from vp import core
from plasTeX.Logging import disableLogging; disableLogging()
import importlib
mod=importlib.import_module('vp.checks.'+sys.argv[1].lower())
rep=core.Report(); mod.run(sys.argv[2] if len(sys.argv)>2 else 'quick',0,rep)
print('evals',rep.evaluations,'nviol',rep.nviolations)
for f,(n,ex) in sorted(rep.known.items()): print('KNOWN',f,n,json.dumps(ex)[:300])
rep.violations.sort(key=lambda v: len(json.dumps(v['case'])))
for v in rep.violations[:12]: print('VIOL',json.dumps(v)[:260])
print(rep.counters); print(rep.errors)
