#!/venv/bin/python
"""Regenerate the generated parts of DESIGN.md (between <!-- BEGIN:x --> / <!-- END:x --> markers):
   findings  -- tables of repaired and open findings from known_findings.json
   seeds     -- catch matrix of the seeded changes from seeded/*/meta.json
usage: tools/designtables.py"""
import json, glob, os, re, subprocess
HERE = os.path.dirname(os.path.dirname(os.path.abspath(__file__)))


def esc(s):
    return s.replace('|', '/').replace('\n', ' ')


def findings():
    d = json.load(open(os.path.join(HERE, 'known_findings.json')))
    fixed = [e for e in d['findings'] if e['status'] == 'fixed']
    opn = [e for e in d['findings'] if e['status'] == 'open']
    out = ['Repaired in `/repo` (%d entries; each a `fix:` commit, pinned suite still 360/360; a fixed entry suppresses nothing):' % len(fixed), '',
           '| id | `/repo` commit | what failed |', '|---|---|---|']
    for e in fixed:
        out.append('| %s | %s | %s |' % (e['id'], e.get('commit', ''), esc(e['summary'])[:330]))
    out += ['', 'Open (%d entries; recorded, not repaired -- each is one named deviation rule or mask of one oracle, so any *other* wrong '
            'answer on the same input is still reported as a violation):' % len(opn), '', '| id | what fails, and why it is not repaired |', '|---|---|']
    for e in opn:
        out.append('| %s | %s |' % (e['id'], esc(e['summary'])[:700]))
    return '\n'.join(out)


def seeds():
    rows = []
    stats = {'n': 0, 'first': 0, 'after': 0, 'missed': 0}
    for d in sorted(glob.glob(os.path.join(HERE, 'seeded', '*'))):
        mp = os.path.join(d, 'meta.json')
        if not os.path.exists(mp):
            continue
        m = json.load(open(mp))
        name = os.path.basename(d)
        patch = open(os.path.join(d, 'patch.diff')).read()
        files = sorted(set(re.findall(r'^\+\+\+ b/(\S+)', patch, re.M)))
        first = m['check_results']['quick_check_exit_code_when_first_run'] or {}
        after = m['check_results']['quick_check_exit_code_after_strengthening']

        def fmt(x):
            if isinstance(x, dict):
                return ', '.join('%s %s' % (k, {0: 'missed', 1: 'caught', 2: 'exit 2'}.get(v, v)) for k, v in x.items())
            return str(x)
        stats['n'] += 1
        caught_first = bool(first) and all(v == 1 for v in first.values())
        caught_after = isinstance(after, dict) and all(v == 1 for v in after.values())
        if caught_first:
            stats['first'] += 1
        elif caught_after:
            stats['after'] += 1
        else:
            stats['missed'] += 1
        what = re.sub(r'^#+ *', '', m['what_it_breaks_and_needs'])
        what = re.sub(r'^patch\d+ *(\(bonus\))? *-+ *', '', what)
        what = re.split(r'\*\*|## |Mechanism changed|Mechanism:', what)[0][:140]
        aft = fmt(after) if not caught_first else '-'
        if m.get('status') == 'superseded':
            aft += ' (superseded by a later repo fix, see meta.json)'
        if m.get('status') == 'outside_statement':
            aft += ' (not a violation of the property as stated, see meta.json)'
        rows.append('| %s | %s | %s | %s | %s |' % (name, ', '.join(os.path.basename(f) for f in files), esc(what), fmt(first), aft))
    head = ['%d seeded changes are kept under `seeded/`; %d were caught by the quick tier of their own check as it stood when the '
            'change came in, %d after the check was strengthened (alphabet or oracle widened -- never special-cased to the patch), '
            '%d are not caught.' % (stats['n'], stats['first'], stats['after'], stats['missed']), '',
            '| seed | file(s) changed | change (author\'s title) | own check at first run | after strengthening |', '|---|---|---|---|---|']
    return '\n'.join(head + rows)


def main():
    p = os.path.join(HERE, 'DESIGN.md')
    s = open(p).read()
    for key, fn in (('findings', findings), ('seeds', seeds)):
        b, e = '<!-- BEGIN:%s -->' % key, '<!-- END:%s -->' % key
        if b not in s:
            print('marker', b, 'missing')
            continue
        i, j = s.index(b) + len(b), s.index(e)
        s = s[:i] + '\n' + fn() + '\n' + s[j:]
    open(p, 'w').write(s)


if __name__ == '__main__':
    main()
