#!/venv/bin/python
"""Maintain known_findings.json (development-time only; checks never write it).
usage: kf.py open  <id> <summary>
       kf.py fixed <id> <commit> <summary>
       kf.py drop  <id>"""
import json, sys, os
P = os.path.join(os.path.dirname(os.path.dirname(os.path.abspath(__file__))), 'known_findings.json')
try:
    d = json.load(open(P))
except Exception:
    d = {}
d.setdefault('_comment', "Read-only at run time. An entry with status 'open' names one deviation rule of one oracle, i.e. the exact observable difference it explains; a case is reported as KNOWN-FINDING only if its complete observation equals the oracle's prediction with that rule switched on (or, for differential oracles, only the named mask differs). Entries with status 'fixed' suppress nothing.")
d.setdefault('findings', []); d.setdefault('log', [])
cmd, fid = sys.argv[1], sys.argv[2]
d['findings'] = [e for e in d['findings'] if e['id'] != fid]
prop = fid.split('.')[0]
if cmd == 'open':
    d['findings'].append({'id': fid, 'property': prop, 'status': 'open', 'summary': sys.argv[3]})
elif cmd == 'fixed':
    d['findings'].append({'id': fid, 'property': prop, 'status': 'fixed', 'commit': sys.argv[3], 'summary': sys.argv[4]})
    line = 'fixed: property=%s %s %s' % (prop, sys.argv[3], sys.argv[4])
    if line not in d['log']:
        d['log'].append(line)
d['findings'].sort(key=lambda e: e['id'])
json.dump(d, open(P, 'w'), indent=1, ensure_ascii=False)
