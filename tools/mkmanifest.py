#!/venv/bin/python
"""Regenerate MANIFEST.json from vp/registry.py (single source of truth)."""
import json, os, sys
HERE = os.path.dirname(os.path.dirname(os.path.abspath(__file__)))
sys.path.insert(0, HERE)
from vp import registry
checks = []
for c in registry.CHECKS:
    pid = c['id']
    checks.append({
        'property_id': pid,
        'quick_cmd': './check %s --tier quick' % pid,
        'thorough_cmd': './check %s --tier thorough' % pid,
        'evidence_file': 'evidence/%s.json' % pid,
        'replay_cmd_template': './check %s --replay {path}' % pid,
        'engine': c['engine'],
        'level_claimed': {'category': c['level'], 'text': c['text'], 'design_ref': c['design_ref']},
        'level_note': c['note'],
        'technique': c['technique'],
    })
m = {
    'version': 1,
    'setup_cmd': 'true',
    'hooks': {'guard': 'PLASTEX_VERIF', 'enable': 'no hooks are needed: every observation is made through public objects; ./check exports PLASTEX_VERIF=1 for uniformity',
              'baseline_off_cmd': 'cd /repo && /venv/bin/python -m pytest -ra -q -p no:cacheprovider --timeout=900 --continue-on-collection-errors',
              'source_commits': [], 'add_only': True},
    'engines': registry.ENGINES,
    'checks': checks,
    'notes': registry.NOTES,
    'not_applicable': registry.NOT_APPLICABLE,
}
json.dump(m, open(os.path.join(HERE, 'MANIFEST.json'), 'w'), indent=1)
print('MANIFEST.json: %d checks, %d not_applicable' % (len(checks), len(m['not_applicable'])))
