#!/venv/bin/python
"""Package confirmed seeded changes into /verif/seeded/<name>/ (patch.diff regenerated against the current /repo HEAD,
demo.py, notes.md, meta.json).  usage: packseed.py <name> [<name> ...]   (name like c03-2; sources in /tmp/mut-cNN/_mut,
results in /tmp/seedres (before strengthening) and /tmp/seedres2 (after))"""
import json, os, re, shutil, subprocess, sys
HERE = os.path.dirname(os.path.dirname(os.path.abspath(__file__)))
head = subprocess.run(['git', '-C', '/repo', 'rev-parse', '--short', 'HEAD'], capture_output=True, text=True).stdout.strip()


def parse_res(path):
    if not os.path.exists(path):
        return None
    t = open(path, errors='replace').read()
    m = re.search(r'demo_clean_rc=(\d+) demo_patched_rc=(\d+) \| (.*)', t)
    checks = re.findall(r'^\s+(C\d+) rc=(\d+)', t, re.M)
    first = re.search(r'^\s+(case|observed): (.*)$', t, re.M)
    return {'demo_clean_rc': int(m.group(1)), 'demo_patched_rc': int(m.group(2)), 'baseline': m.group(3).strip(),
            'checks': {c: int(rc) for c, rc in checks}, 'witness': first.group(2)[:300] if first else None} if m else None


for name in sys.argv[1:]:
    parts = name.split('-')
    pid, i = parts[0], parts[-1]
    wave2 = len(parts) == 3
    wave = int(parts[1][1:]) if wave2 else 1
    wt = '/tmp/mut-%s' % pid if wave <= 2 else '/tmp/mut%d-%s' % (wave, pid)
    src = os.path.join(wt, '_mut%d' % wave if wave2 else '_mut')
    dst = os.path.join(HERE, 'seeded', name)
    os.makedirs(dst, exist_ok=True)
    # regenerate the patch against the current HEAD
    subprocess.run(['git', '-C', wt, 'checkout', '-q', '--', 'plasTeX'])
    subprocess.run(['git', '-C', wt, 'checkout', '-q', '--detach', head])
    p = os.path.join(src, 'patch%s.diff' % i)
    r = subprocess.run(['git', '-C', wt, 'apply', p], capture_output=True, text=True)
    if r.returncode:
        r = subprocess.run('cd %s && patch -p1 -s --fuzz=3 < %s' % (wt, p), shell=True, capture_output=True, text=True)
    if r.returncode:
        print(name, 'patch does not apply to', head, r.stderr[:200])
        subprocess.run(['git', '-C', wt, 'checkout', '-q', '--', 'plasTeX'])
        continue
    diff = subprocess.run(['git', '-C', wt, 'diff', '--', 'plasTeX'], capture_output=True, text=True).stdout
    subprocess.run(['git', '-C', wt, 'checkout', '-q', '--', 'plasTeX'])
    for f in os.listdir(wt):
        if f.endswith('.orig') or f.endswith('.rej'):
            os.remove(os.path.join(wt, f))
    open(os.path.join(dst, 'patch.diff'), 'w').write(diff)
    shutil.copy(os.path.join(src, 'demo%s.py' % i), os.path.join(dst, 'demo.py'))
    notes = open(os.path.join(src, 'notes%s.md' % i), errors='replace').read()
    open(os.path.join(dst, 'notes.md'), 'w').write(notes)
    before = parse_res('/tmp/seedres/%s.txt' % name)
    after = parse_res('/tmp/seedres2/%s.txt' % name)
    if wave2:
        # wave 2: /tmp/seedres0 = checks as committed before the wave-2 descriptions were read (8acc78c),
        # /tmp/seedres = live checks at the time the seed came in, /tmp/seedres2 = after further strengthening
        live = before
        old = parse_res('/tmp/seedres0/%s.txt' % name)
        if old is not None:
            before = old
            if after is None and live is not None and live['checks'] != old['checks']:
                after = live
        if live and (after or before) and 'not re-run' in (after or before).get('baseline', ''):
            (after or before)['baseline'] = live['baseline']
        if live and before and 'not re-run' in before.get('baseline', ''):
            before['baseline'] = live['baseline']
    prop = pid.upper()
    meta = {
        'property': prop,
        'origin': 'independent sub-agent given only the property text and a scratch worktree' + (
            ' (wave %d: told which mechanisms the earlier waves had touched and asked for different ones)' % wave if wave2 else ''),
        'patch_against_repo_head': head,
        'what_it_breaks_and_needs': ' '.join(notes.split())[:900],
        'confirmed': {
            'baseline_suite_with_patch': (after or before or {}).get('baseline'),
            'demo_exit_code_clean_tree': (after or before or {}).get('demo_clean_rc'),
            'demo_exit_code_with_patch': (after or before or {}).get('demo_patched_rc'),
            'how': 'tools/seedtest.sh <worktree> patch demo name %s: git apply in a scratch worktree outside /repo and /verif, '
                   'tools/baseline.py (360 pinned tests), demo.py with/without the patch, then VP_REPO=<worktree> ./check %s '
                   '--tier quick' % (prop, prop),
        },
        'check_results': {
            'quick_check_exit_code_when_first_run': (before or {}).get('checks'),
            'quick_check_exit_code_after_strengthening': (after or {}).get('checks') if after else (
                'not needed (caught at first run)' if before and all(v == 1 for v in before['checks'].values())
                else 'MISSED at first run; check not yet strengthened'),
            'witness_reported_by_check': (after or before or {}).get('witness'),
        },
    }
    json.dump(meta, open(os.path.join(dst, 'meta.json'), 'w'), indent=1)
    print(name, 'packed;', meta['check_results']['quick_check_exit_code_when_first_run'], '->',
          meta['check_results']['quick_check_exit_code_after_strengthening'])
