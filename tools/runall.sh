#!/bin/bash
# Run every registered check (quick by default) and print one line per check.
cd "$(dirname "$0")/.." || exit 2
TIER=${1:-quick}
rc_all=0
for id in $(/venv/bin/python -c "import json;print(' '.join(c['property_id'] for c in json.load(open('MANIFEST.json'))['checks']))"); do
  s=$(date +%s)
  out=$(./check $id --tier $TIER 2>&1); rc=$?
  e=$(( $(date +%s) - s ))
  echo "$id rc=$rc ${e}s $(echo "$out" | grep -c '^KNOWN-FINDING') known | $(echo "$out" | grep -E "^$id (quick|thorough):" | cut -c1-160)"
  if [ $rc -ne 0 ]; then rc_all=1; echo "$out" | grep -E "VIOLATION|HARNESS" | head -5; fi
done
exit $rc_all
