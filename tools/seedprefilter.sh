#!/bin/bash
# usage: tools/seedprefilter.sh     (cheap part of the seed regression)
# For every kept seed: does its patch still apply to /repo HEAD, and does its demonstration still fail with the patch
# and pass without it?  Prints the seeds that need attention (re-make the patch for the current code, or mark superseded).
HERE="$(cd "$(dirname "$0")/.." && pwd)"
WT=$(mktemp -d /tmp/seedpre-XXXXXX); rmdir $WT
git -C /repo worktree add -q --detach $WT HEAD || exit 2
trap 'git -C /repo worktree remove --force $WT >/dev/null 2>&1; rm -rf $WT' EXIT
for s in $(ls $HERE/seeded); do
  d=$HERE/seeded/$s
  st=$(/venv/bin/python -c "import json;print(json.load(open('$d/meta.json')).get('status',''))")
  [ "$st" = superseded ] && { echo "$s superseded"; continue; }
  git -C $WT checkout -q -- . ; git -C $WT clean -fdq -- plasTeX
  if ! git -C $WT apply $d/patch.diff 2>/dev/null; then echo "$s PATCH-DOES-NOT-APPLY"; continue; fi
  (cd /tmp && PYTHONPATH=$WT timeout 300 /venv/bin/python $d/demo.py >/dev/null 2>&1); d1=$?
  [ $d1 -eq 0 ] && echo "$s DEMO-PASSES-WITH-PATCH" || echo "$s ok"
done
