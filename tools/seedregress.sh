#!/bin/bash
# usage: tools/seedregress.sh [seed-name ...]      (default: every directory under seeded/)
# Re-applies each kept seeded change to a scratch worktree of /repo (outside /repo and /verif, removed afterwards) and
# runs the seed's own check on it: expected exit 1 with a VIOLATION line.  Prints one line per seed and a summary;
# exit 0 iff every seed is caught.
HERE="$(cd "$(dirname "$0")/.." && pwd)"
WT=$(mktemp -d /tmp/seedreg-XXXXXX); rmdir $WT
git -C /repo worktree add -q --detach $WT HEAD || exit 2
trap 'git -C /repo worktree remove --force $WT >/dev/null 2>&1; rm -rf $WT' EXIT
[ $# -eq 0 ] && set -- $(ls $HERE/seeded)
miss=0; n=0
for s in "$@"; do
  d=$HERE/seeded/$s; [ -f $d/patch.diff ] || continue
  id=$(/venv/bin/python -c "import json,sys;m=json.load(open('$d/meta.json'));print(m['property'] if m.get('status') not in ('superseded','outside_statement') else 'SKIP')")
  if [ "$id" = SKIP ]; then echo "$s superseded by a later repo fix, or not a violation of its property as stated (see meta.json): skipped"; continue; fi
  git -C $WT checkout -q -- . ; git -C $WT clean -fdq -- plasTeX
  if ! git -C $WT apply $d/patch.diff 2>/dev/null; then echo "$s $id patch does not apply to $(git -C /repo rev-parse --short HEAD)"; miss=$((miss+1)); continue; fi
  out=$(cd $HERE && VP_STOP_EARLY=1 VP_REPO=$WT ./check $id --no-evidence 2>&1); rc=$?
  n=$((n+1))
  if [ $rc -eq 1 ] && echo "$out" | grep -aq "^VIOLATION property=$id"; then echo "$s $id caught"; else echo "$s $id NOT CAUGHT (rc=$rc)"; miss=$((miss+1)); fi
done
echo "seeds run: $n, not caught: $miss"
[ $miss -eq 0 ]
