#!/venv/bin/python
"""Print the markdown table of seeded changes (DESIGN.md section 10) from seeded/*/meta.json."""
import json, glob, os, re
HERE = os.path.dirname(os.path.dirname(os.path.abspath(__file__)))
rows = []
for d in sorted(glob.glob(os.path.join(HERE, 'seeded', '*'))):
    m = json.load(open(os.path.join(d, 'meta.json')))
    name = os.path.basename(d)
    patch = open(os.path.join(d, 'patch.diff')).read()
    files = sorted(set(re.findall(r'^\+\+\+ b/(\S+)', patch, re.M)))
    first = m['check_results']['quick_check_exit_code_when_first_run'] or {}
    after = m['check_results']['quick_check_exit_code_after_strengthening']
    def fmt(x):
        if isinstance(x, dict):
            return ', '.join('%s:%s' % (k, {0: 'missed', 1: 'VIOLATION', 2: 'exit 2'}.get(v, v)) for k, v in x.items())
        return str(x)
    what = m['what_it_breaks_and_needs']
    what = re.sub(r'^#+ *', '', what)[:150].replace('|', '/')
    rows.append('| %s | %s | %s | %s | %s |' % (name, ', '.join(os.path.basename(f) for f in files), what, fmt(first), fmt(after)))
print('| seed | file(s) | change (from the author\'s notes) | own check, first run | after strengthening |')
print('|---|---|---|---|---|')
print('\n'.join(rows))
