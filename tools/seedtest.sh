#!/bin/bash
# usage: tools/seedtest.sh <worktree> <patch file> <demo.py> <seed-name> <ID> [more IDs...]
# Confirms a seeded change (suite still passes, demo fails with / passes without it) and runs the given checks on it.
# Result is written to /tmp/seedres/<seed-name>.txt
WT=$1; PATCH=$2; DEMO=$3; NAME=$4; shift 4
HERE="$(cd "$(dirname "$0")/.." && pwd)"
OUT=/tmp/seedres; mkdir -p $OUT
git -C $WT checkout -q -- plasTeX 2>/dev/null
PYTHONPATH=$WT timeout 300 /venv/bin/python $DEMO >/dev/null 2>&1; d0=$?
if ! git -C $WT apply $PATCH 2>/dev/null; then
  (cd $WT && patch -p1 -s --fuzz=3 < $PATCH) || { echo "$NAME: patch does not apply" | tee $OUT/$NAME.txt; git -C $WT checkout -q -- plasTeX; exit 2; }
fi
b=$($HERE/tools/baseline.py $WT 2>&1 | tail -1)
PYTHONPATH=$WT timeout 300 /venv/bin/python $DEMO >/dev/null 2>&1; d1=$?
{
echo "$NAME: demo_clean_rc=$d0 demo_patched_rc=$d1 | $b"
for id in "$@"; do
  out=$(cd $HERE && VP_REPO=$WT ./check $id --no-evidence 2>&1); rc=$?
  echo "   $id rc=$rc $(echo "$out" | grep -a -m1 VIOLATION)"
  echo "$out" | grep -a -m4 -E "^  (case|expected|observed|detail)|HARNESS" | cut -c1-260 | sed 's/^/      /'
done
} > $OUT/$NAME.txt 2>&1
git -C $WT checkout -q -- plasTeX
cat $OUT/$NAME.txt
