#!/bin/bash
# usage: tools/seedtest.sh <worktree> <patch file> <demo.py> <seed-name> <ID> [more IDs...]
# Confirms a seeded change (suite still passes, demo fails with / passes without it) and runs the given checks on it.
WT=$1; PATCH=$2; DEMO=$3; NAME=$4; shift 4
HERE="$(cd "$(dirname "$0")/.." && pwd)"
git -C $WT checkout -q -- plasTeX 2>/dev/null
PYTHONPATH=$WT /venv/bin/python $DEMO >/dev/null 2>&1; d0=$?
git -C $WT apply $PATCH || { echo "$NAME: patch does not apply"; exit 2; }
$HERE/tools/baseline.py $WT > /tmp/seed-base.$$ 2>&1; b=$?
PYTHONPATH=$WT /venv/bin/python $DEMO >/tmp/seed-demo.$$ 2>&1; d1=$?
echo "$NAME: baseline_rc=$b demo_clean_rc=$d0 demo_patched_rc=$d1 $(tail -1 /tmp/seed-base.$$)"
res=""
for id in "$@"; do
  out=$(cd $HERE && VP_REPO=$WT ./check $id --no-evidence 2>&1); rc=$?
  res="$res $id:rc=$rc"
  echo "   $id rc=$rc $(echo "$out" | grep -m1 VIOLATION)"
  echo "$out" | grep -m3 -E "^  (case|expected|observed|detail)" | cut -c1-300 | sed 's/^/      /'
done
git -C $WT apply -R $PATCH
rm -f /tmp/seed-base.$$ /tmp/seed-demo.$$
echo "$NAME:$res" >> /tmp/seedtest.summary
