#!/bin/bash
# usage: tools/seedw2.sh <verif checkout> <outdir> <pid> [i ...]
# Runs the checks of <verif checkout> (own property only) on the seeded changes of wave $WAVE (default 2):
# /tmp/mut-<pid>/_mut2/patch<i>.diff for wave 2, /tmp/mut<W>-<pid>/_mut<W>/patch<i>.diff for later waves.
# One lock per scratch worktree, so that several streams (old checkout / live checkout) can run side by side.
HERE=$1; OUTD=$2; pid=$3; shift 3
ID=$(echo $pid | tr a-z A-Z)
W=${WAVE:-2}
if [ "$W" = 2 ]; then WT=/tmp/mut-$pid; else WT=/tmp/mut$W-$pid; fi
mkdir -p $OUTD
[ $# -eq 0 ] && set -- 1 2 3 4 5
for i in "$@"; do
  P=$WT/_mut$W/patch$i.diff; D=$WT/_mut$W/demo$i.py; N=$pid-w$W-$i
  [ -f $P ] || continue
  (
  flock 9
  git -C $WT checkout -q -- plasTeX; git -C $WT checkout -q --detach $(git -C /repo rev-parse HEAD)
  PYTHONPATH=$WT timeout 300 /venv/bin/python $D >/dev/null 2>&1; d0=$?
  if ! git -C $WT apply $P 2>/dev/null; then
    (cd $WT && patch -p1 -s --fuzz=3 < $P) || { echo "$N: patch does not apply" > $OUTD/$N.txt; git -C $WT checkout -q -- plasTeX; exit 0; }
  fi
  if [ -z "$SKIP_BASELINE" ]; then b=$(/verif/tools/baseline.py $WT 2>&1 | tail -1); else b="baseline: not re-run"; fi
  PYTHONPATH=$WT timeout 300 /venv/bin/python $D >/dev/null 2>&1; d1=$?
  {
  echo "$N: demo_clean_rc=$d0 demo_patched_rc=$d1 | $b | checks $(git -C $HERE rev-parse --short HEAD)$(git -C $HERE diff --quiet || echo +dirty)"
  out=$(cd $HERE && VP_REPO=$WT ./check $ID --no-evidence 2>&1); rc=$?
  echo "   $ID rc=$rc $(echo "$out" | grep -a -m1 VIOLATION)"
  echo "$out" | grep -a -m4 -E "^  (case|expected|observed|detail)|HARNESS" | cut -c1-260 | sed 's/^/      /'
  } > $OUTD/$N.txt 2>&1
  git -C $WT checkout -q -- plasTeX
  ) 9>/tmp/lock-mut$W-$pid
done
