#!/bin/bash
# Run the thorough tier of the given checks one after the other; one summary line each.
cd "$(dirname "$0")/.." || exit 2
for id in "$@"; do
  s=$(date +%s)
  out=$(./check $id --tier thorough --no-evidence 2>&1); rc=$?
  echo "$id thorough rc=$rc $(( $(date +%s) - s ))s | $(echo "$out" | grep -a -E "^$id thorough:" | cut -c1-200)"
  [ $rc -ne 0 ] && echo "$out" | grep -a -E "VIOLATION|HARNESS|^  (case|observed)" | head -6 | cut -c1-300
done
