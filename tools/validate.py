#!/opt/veriftools/pyvenv/bin/python
"""Validate MANIFEST.json and evidence/*.json against the schemas in /root/.vp."""
import json, sys, os, glob, jsonschema
HERE = os.path.dirname(os.path.dirname(os.path.abspath(__file__)))
ok = True
def check(path, schema):
    global ok
    try:
        jsonschema.validate(json.load(open(path)), json.load(open(schema)))
        print('valid  ', path)
    except Exception as e:
        ok = False
        print('INVALID', path, str(e)[:300])
check(os.path.join(HERE, 'MANIFEST.json'), '/root/.vp/MANIFEST.schema.json')
m = json.load(open(os.path.join(HERE, 'MANIFEST.json')))
props = [json.loads(l)['id'] for l in open(os.path.join(HERE, 'properties.jsonl'))]
claimed = [c['property_id'] for c in m['checks']]
na = [c['property_id'] for c in m.get('not_applicable', [])]
for p in props:
    if (p in claimed) == (p in na):
        ok = False; print('property', p, 'must be claimed xor not_applicable')
for c in m['checks']:
    ev = os.path.join(HERE, c['evidence_file'])
    if os.path.exists(ev):
        check(ev, '/root/.vp/EVIDENCE.schema.json')
        e = json.load(open(ev))
        if e['level'] != c['level_claimed']['category']:
            ok = False; print('level mismatch', ev)
    else:
        print('missing', ev)
sys.exit(0 if ok else 1)
