"""
C01 -- Tokenization follows TeX's lexical rules for every input and catcode table.
Engine E1: every string up to a length bound over a class-representative alphabet, for each of a
fixed list of category tables, compared token-for-token with the reference lexer.
"""
import itertools
from vp import core
from vp.refs import tex_lexer as R

ID = 'C01'
LEVEL = 'exploration'
RULE = ('all strings of length <= L over a class-representative alphabet (one or two characters per TeX '
        'category / per ^^-decoding target), for each category table installed through Context.catcode(); '
        'blocks = 2-character prefixes (disjoint); a case is non-trivial when the reference token stream is '
        'non-empty; distinct = distinct (table, string); outcomes = distinct observed token streams')
ASSUMPTIONS = [
    'oracle is a hand-written TeXbook ch.8 lexer (vp/refs/tex_lexer.py); no TeX binary available to cross-check it',
    'newline is the end-of-line character; no line pre-pass (trailing-blank stripping) is modelled; TeX3 ^^xy hex notation excluded',
    'adjacent \\par tokens are compared modulo collapsing (documented plasTeX choice)',
]

# TeX/LaTeX default categories as plasTeX documents them (own copy: a change of the library table must be seen)
DEFAULT = {'\\': 0, '{': 1, '}': 2, '$': 3, '&': 4, '\n': 5, '#': 6, '^': 7, '_': 8, '\x00': 9,
           ' ': 10, '\t': 10, '\r': 10, '\x0c': 10, '~': 13, '%': 14}
for _c in 'abcdefghijklmnopqrstuvwxyzABCDEFGHIJKLMNOPQRSTUVWXYZ':
    DEFAULT[_c] = 11
STATIC_LETTERS = frozenset('abcdefghijklmnopqrstuvwxyzABCDEFGHIJKLMNOPQRSTUVWXYZ')

SIGMA18 = ['a', ' ', '\\', '\n', '{', '}', '%', '^', '1', '$', '#', '~', '!', 'M', '@', '\x00', '\t', 'é']
SIGMA10 = ['a', ' ', '\\', '\n', '{', '%', '^', '!', 'M', '\x00']

# (name, assignments via Context.catcode or 'verbatim', alphabet)
TABLES = {
    'default': ([], SIGMA18 + ['&', '_', '\r', '\x0c', 'J']),
    'atletter': ([('@', 11)], ['a', '@', ' ', '\\', '\n', '%', '^', '1', '{', '~', '\x00']),
    'verbatim': ('verbatim', ['a', ' ', '\\', '\n', '{', '%', '^', '~', '\x00', '#']),
    'demoted': ([('a', 12), ('b', 12)], ['a', 'b', 'c', ' ', '\\', '\n', '%', '^', '1']),
    'permuted': ([('!', 0), ('<', 1), ('>', 2), ('\\', 12), ('|', 14), ('*', 13), ('?', 15), ('/', 9),
                  ('%', 12), ('{', 12), ('}', 12), ('~', 11), ('=', 7), ('^', 12), ('+', 6), (';', 3)],
                 ['a', '!', '<', '>', '\\', '|', '*', '?', '/', ' ', '\n', '%', '=', '~', '^', ';', '+']),
    'blank2': ([('.', 10), (';', 5), ('a', 10)], ['a', 'b', '.', ';', ' ', '\n', '\\', '%', '^', 'M']),
    # histories of re-assignments: '*' is walked through all sixteen classes and ends as a letter, '+' and '/' come
    # back to "other" from invalid / ignored, '!' becomes a second superscript character next to '^'
    'reassign': ([('*', k) for k in range(16)] + [('*', 11), ('+', 15), ('+', 12), ('/', 9), ('/', 12), ('?', 0), ('?', 12),
                                                   ('!', 7), ('|', 13), ('|', 14), ('|', 12)],
                 ['a', '*', '+', '/', '?', '!', '^', '|', ' ', '\\', '\n', 'A']),
}
PREFIXES = ['a', 'a ', '\\a', 'a\n', '%', '^', '\\', '^^']


def cat_map(name):
    assign = TABLES[name][0]
    if assign == 'verbatim':
        return {c: 11 for c in STATIC_LETTERS}
    m = dict(DEFAULT)
    for ch, code in assign:
        m[ch] = code
    return m


_CTX = {}


def context_for(name):
    """A real Context whose top frame carries the table, installed through the public API."""
    if name in _CTX:
        return _CTX[name]
    from plasTeX.Context import Context
    ctx = Context()
    ctx.push()
    assign = TABLES[name][0]
    if assign == 'verbatim':
        ctx.setVerbatimCatcodes()
    else:
        for ch, code in assign:
            ctx.catcode(ch, code)
    _CTX[name] = ctx
    return ctx


def _is_hex3(s):
    """TeX3 ^^xy with two lowercase hex digits: outside the alphabet (DESIGN C01)."""
    hexd = '0123456789abcdef'
    for i in range(len(s) - 3):
        if s[i] == s[i + 1] and s[i + 2] in hexd and s[i + 3] in hexd:
            return True
    return False


def observe(s, ctx, via_tex=False):
    """(token list | 'raises:X' | 'timeout', class_consistent)"""
    from plasTeX.Tokenizer import Tokenizer
    ok = True
    try:
        with core.time_limit(5.0):
            if via_tex:
                from plasTeX.TeX import TeX
                tex = TeX()
                tex.ownerDocument.context.warnOnUnrecognized = False
                tex.input(s)
                toks = list(tex.itertokens())
            else:
                toks = list(Tokenizer(s, ctx))
    except core.Timeout:
        return 'timeout', True
    except Exception as e:
        return 'raises:%s' % type(e).__name__, True
    out = []
    for t in toks:
        cc = t.catcode
        if type(t).catcode != cc:
            ok = False
        out.append((cc, str(t)))
    return out, ok


def expected(s, cmap, dev=0):
    r = R.lex(s, cmap, dev, STATIC_LETTERS)
    if isinstance(r, str):
        return r
    return [((0, 'active::' + c) if k == 13 else (k, c)) for (k, c) in r]


def judge(table, s, via_tex=False):
    """-> (verdict, fids, expected, observed, detail)"""
    cmap = cat_map(table)
    ctx = context_for(table)
    obs, consistent = observe(s, ctx, via_tex)
    obs_c = R.collapse_par(obs)
    exp = expected(s, cmap)
    if not consistent:
        return 'violation', [], exp, obs, 'a token carries a category different from the one its class denotes'
    if obs_c == R.collapse_par(exp):
        return 'ok', [], exp, obs, ''
    devs = sorted(R.DEV_NAMES)
    for k in range(1, len(devs) + 1):
        for sub in itertools.combinations(devs, k):
            d = 0
            for x in sub:
                d |= x
            if obs_c == R.collapse_par(expected(s, cmap, d)):
                return 'known', [R.DEV_NAMES[x] for x in sub], exp, obs, 'matches the oracle under deviations'
    return 'violation', [], exp, obs, 'token stream differs from the TeXbook lexer'


def replay(case):
    if case.get('table') == 'scope':
        v, exp, obs = judge_scope(tuple(case['seq']), case['s'])
        if isinstance(v, tuple):
            from vp.core import Findings
            f = Findings()
            if all(f.is_open(x) for x in v[1]):
                return {'verdict': 'known', 'fid': v[1][0], 'expected': exp, 'observed': obs, 'detail': ''}
            v = 'violation'
        return {'verdict': v, 'expected': exp, 'observed': obs, 'detail': 'category changes in nested groups'}
    if case.get('table') == 'recat':
        v, exp, obs = judge_recat(case['s'], case['k'], tuple(case['change']))
        if isinstance(v, tuple):
            from vp.core import Findings
            f = Findings()
            if all(f.is_open(x) for x in v[1]):
                return {'verdict': 'known', 'fid': v[1][0], 'expected': exp, 'observed': obs, 'detail': ''}
            v = 'violation'
        return {'verdict': 'ok' if v in ('ok', 'skip') else 'violation', 'expected': exp, 'observed': obs,
                'detail': 'category change between token requests'}
    v, fids, exp, obs, detail = judge(case['table'], case['s'], case.get('via_tex', False))
    if v == 'known':
        from vp.core import Findings
        f = Findings()
        notopen = [x for x in fids if not f.is_open(x)]
        if notopen:
            return {'verdict': 'violation', 'expected': exp, 'observed': obs,
                    'detail': 'only explained by deviations not listed as open: %s' % notopen}
        return {'verdict': 'known', 'fid': fids[0], 'fids': fids, 'expected': exp, 'observed': obs, 'detail': detail}
    return {'verdict': v, 'expected': exp, 'observed': obs, 'detail': detail}


def run_block(block):
    if block[0] == 'recat':
        return run_block_recat(block)
    if block[0] == 'scope':
        return run_block_scope(block)
    table, prefix, maxlen, sigma, via_tex, min_len, must = block
    rep = core.Report()
    cmap = cat_map(table)
    ctx = context_for(table)
    from plasTeX.Tokenizer import Tokenizer
    lex = R.lex
    collapse = R.collapse_par
    for L in range(0, maxlen - len(prefix) + 1):
        for tail in itertools.product(sigma, repeat=L):
            s = prefix + ''.join(tail)
            if len(s) < min_len or (must and not any(c in s for c in must)):
                continue            # enumerated by another block (keeps blocks disjoint)
            if '^' in s or '=' in s:
                if _is_hex3(s):
                    rep.count('excluded_tex3_hex')
                    continue
            # fast path
            exp = lex(s, cmap, 0, STATIC_LETTERS)
            good = False
            if not via_tex and not isinstance(exp, str):
                try:
                    toks = list(Tokenizer(s, ctx))
                    obs = []
                    good = True
                    for t in toks:
                        if type(t).catcode != t.catcode:
                            good = False
                        obs.append((t.catcode, str(t)))
                    if good:
                        e2 = [((0, 'active::' + c) if k == 13 else (k, c)) for (k, c) in exp]
                        good = (obs == e2) or collapse(obs) == collapse(e2)
                except Exception:
                    good = False
            if good:
                rep.case(key=(table, s), nontrivial=bool(exp), outcome=(table, tuple(obs)))
                if len(s) >= 3:
                    rep.sample({'table': table, 's': s, 'tokens': obs})
                continue
            v, fids, e, o, detail = judge(table, s, via_tex)
            rep.case(key=(table, s, via_tex), nontrivial=True, outcome=(table, repr(o)))
            case = {'table': table, 's': s}
            if via_tex:
                case['via_tex'] = True
            if v == 'ok':
                rep.count('via_tex_ok' if via_tex else 'slow_ok')
            elif v == 'known':
                for f in fids:
                    rep.known_finding(f, case, detail)
            else:
                rep.violation(case, e, o, detail)
    return rep.close_block()


# ---- category change between two token requests (push-back must be re-read under the table then in force) ---------
RECAT_SIGMA = ['a', ' ', '\\', '1', '%', '^', '~']
RECAT_CHANGES = [(' ', 12), (' ', 13), ('a', 12), ('1', 11), ('\\', 12), ('%', 12), ('~', 12), ('^', 12)]


def judge_recat(s, k, change):
    """tokenize s, take k tokens, change one category through Context.catcode, take the rest"""
    from plasTeX.Context import Context
    from plasTeX.Tokenizer import Tokenizer
    cm1 = dict(DEFAULT)
    r = R.lex(s, cm1, 0, STATIC_LETTERS, max_tokens=k)
    if isinstance(r, str):
        return 'skip', None, None
    t1, rest, st = r
    if len(t1) < k:
        return 'skip', None, None
    cm2 = dict(cm1)
    cm2[change[0]] = change[1]
    t2 = R.lex(rest, cm2, 0, STATIC_LETTERS, start_state=st)
    if isinstance(t2, str):
        return 'skip', None, None
    exp = [((0, 'active::' + c) if kk == 13 else (kk, c)) for (kk, c) in t1 + t2]
    ctx = Context()
    ctx.push()
    try:
        with core.time_limit(5.0):
            it = iter(Tokenizer(s, ctx))
            obs = []
            for _ in range(k):
                t = next(it)
                obs.append((t.catcode, str(t)))
            ctx.catcode(change[0], change[1])
            for t in it:
                obs.append((t.catcode, str(t)))
    except core.Timeout:
        obs = 'timeout'
    except StopIteration:
        obs = 'fewer tokens than the reference'
    except Exception as e:
        obs = 'raises:%s' % type(e).__name__
    if obs == exp:
        return 'ok', exp, obs
    # the documented deviations of the single-table oracle apply here as well
    devs = sorted(R.DEV_NAMES)
    for n_ in range(1, 3):
        for sub in itertools.combinations(devs, n_):
            d = 0
            for x in sub:
                d |= x
            r = R.lex(s, cm1, d, STATIC_LETTERS, max_tokens=k)
            if isinstance(r, str) or len(r[0]) < k:
                continue
            e2 = R.lex(r[1], cm2, d, STATIC_LETTERS, start_state=r[2])
            if isinstance(e2, str):
                continue
            if obs == [((0, 'active::' + c) if kk == 13 else (kk, c)) for (kk, c) in r[0] + e2]:
                return ('known', [R.DEV_NAMES[x] for x in sub]), exp, obs
    return 'violation', exp, obs


def run_block_recat(block):
    _, first, maxlen = block
    rep = core.Report()
    for L in range(0, maxlen):
        for tail in itertools.product(RECAT_SIGMA, repeat=L):
            s = first + ''.join(tail)
            if _is_hex3(s):
                continue
            for k in (1, 2):
                for change in RECAT_CHANGES:
                    v, exp, obs = judge_recat(s, k, change)
                    if v == 'skip':
                        continue
                    rep.case(key=('recat', s, k, change), nontrivial=True, outcome=('recat', repr(obs)))
                    rep.count('recat')
                    case = {'table': 'recat', 's': s, 'k': k, 'change': list(change)}
                    if v == 'ok':
                        continue
                    if isinstance(v, tuple):
                        for f in v[1]:
                            rep.known_finding(f, case, 'category of %r changed to %d after %d tokens' % (change[0], change[1], k))
                    else:
                        rep.violation(case, exp, obs, 'category of %r changed to %d after %d tokens' % (change[0], change[1], k))
    return rep.close_block()


# ---- category changes inside nested groups: after a group closes the table in force before it is back --------------
SCOPE_CHANGES = [('@', 11), ('%', 12), ('!', 0), ('a', 12), ('~', 11)]
SCOPE_PROBES = ['x@a!b %c\n~d', '!a@ %\\a~', 'a%b\nc@']


def scope_sequences(maxlen):
    """every well-nested sequence of push / pop / set_i of length <= maxlen (pop only when a group is open)"""
    ops = ['push', 'pop', 'verb'] + list(range(len(SCOPE_CHANGES)))
    out = []

    def rec(seq, depth):
        out.append(tuple(seq))
        if len(seq) == maxlen:
            return
        for o in ops:
            if o == 'pop' and depth == 0:
                continue
            rec(seq + [o], depth + (1 if o == 'push' else -1 if o == 'pop' else 0))
    rec([], 0)
    return out


def judge_scope(seq, probe):
    from plasTeX.Context import Context
    from plasTeX.Tokenizer import Tokenizer
    ctx = Context()
    ctx.push()
    stack = [dict(DEFAULT)]
    for o in seq:
        if o == 'push':
            ctx.push()
            stack.append(dict(stack[-1]))
        elif o == 'pop':
            ctx.pop()
            stack.pop()
        elif o == 'verb':
            ctx.setVerbatimCatcodes()
            stack[-1] = cat_map('verbatim')
        else:
            ch, code = SCOPE_CHANGES[o]
            ctx.catcode(ch, code)
            stack[-1][ch] = code
    obs, ok = observe(probe, ctx)
    for dev in [0] + sorted(R.DEV_NAMES) + [a | b for a, b in itertools.combinations(sorted(R.DEV_NAMES), 2)]:
        exp = expected(probe, stack[-1], dev)
        if obs == exp:
            return ('ok' if dev == 0 else ('known', [R.DEV_NAMES[x] for x in R.DEV_NAMES if x & dev])), expected(probe, stack[-1], 0), obs
    return 'violation', expected(probe, stack[-1], 0), obs


def run_block_scope(block):
    _, seqs = block
    rep = core.Report()
    for seq in seqs:
        for probe in SCOPE_PROBES:
            v, exp, obs = judge_scope(seq, probe)
            rep.case(key=('scope', seq, probe), nontrivial=any(isinstance(o, int) for o in seq), outcome=('scope', repr(obs)))
            rep.count('scoped_changes')
            case = {'table': 'scope', 'seq': list(seq), 's': probe}
            if v == 'ok':
                continue
            if isinstance(v, tuple):
                for f in v[1]:
                    rep.known_finding(f, case, 'category changes in nested groups %r' % (seq,))
            else:
                rep.violation(case, exp, obs, 'category changes in nested groups: %r (set_i = %r)' % (seq, SCOPE_CHANGES))
    return rep.close_block()


def run(tier, seed, rep):
    quick = tier == 'quick'
    blocks = []
    seqs = scope_sequences(5 if quick else 7)
    for ch in core.chunks(seqs, 400):
        blocks.append(('scope', ch))

    def add(table, sigma, maxlen, via_tex=False, prefixes=None, min_len=0, must=''):
        if prefixes is None:
            if maxlen >= 3:
                blocks.append((table, '', 1, sigma, via_tex, min_len, must))
                for a in sigma:
                    for b in sigma:
                        blocks.append((table, a + b, maxlen, sigma, via_tex, min_len, must))
            else:
                blocks.append((table, '', maxlen, sigma, via_tex, min_len, must))
        else:
            for p in prefixes:
                for a in sigma:
                    blocks.append((table, p + a, maxlen + len(p), sigma, via_tex, min_len, must))

    bounds = {}
    for name, (assign, sigma) in TABLES.items():
        if name == 'default':
            L = 5 if quick else 6
            sig = SIGMA18
            add(name, sigma, 3 if quick else 4, must='&_\r\x0cJ')  # incl. & _ CR FF and J (^^J = newline)
        else:
            L = 4 if quick else 6
            sig = sigma
        add(name, sig, L)
        bounds[name] = {'alphabet': len(sig), 'max_len': L}
        # non-initial states: prefixes + every string of length <= L-1
        add(name, sig if len(sig) <= 12 else SIGMA10, L - 1, prefixes=PREFIXES, min_len=L + 1)
    if not quick:
        add('default', SIGMA10, 7, min_len=7)
        bounds['default_merged10'] = {'alphabet': 10, 'max_len': 7}
    add('default', SIGMA18, 3 if quick else 4, via_tex=True)
    bounds['via_TeX_itertokens'] = {'alphabet': 18, 'max_len': 3 if quick else 4}
    for first in RECAT_SIGMA:
        blocks.append(('recat', first, 4 if quick else 5))
    bounds['recategorised_between_tokens'] = {'alphabet': len(RECAT_SIGMA), 'max_len': 4 if quick else 5,
                                              'changes': len(RECAT_CHANGES), 'after_tokens': [1, 2]}
    blocks = core.rotate(blocks, seed)
    core.merge_all(run_block, blocks, rep, chunksize=4)
    return {'exhaustive': True, 'bounds': bounds, 'blocks': len(blocks),
            'floors': {'evaluations': 100000}}
