"""
C02 -- Macro definitions expand exactly as TeX's substitution rules say.
Engine E1: programs of a generated macro language built as token lists, evaluated by an independent reference
expander (vp/refs/tex_macro.py, TeXbook ch. 20) and by plasTeX; visible text compared (whitespace removed).
"""
import itertools
from vp import core, state
from vp.refs import tex_macro as R

ID = 'C02'
LEVEL = 'exploration'
RULE = ('programs = [old definition] wrapper(new definition(s); uses) uses-after: definers {def,gdef,csname-def,newcommand '
        '(braced/unbraced name, with optional default),renewcommand} x 11 parameter texts (0-9 parameters, delimited, '
        '#{ ) x body templates (literal, all parameters, swap, dup, nested ## definition, brackets, call of earlier macro '
        'braced/unbraced/in braces) x every combination of actual-argument shapes (token, group, nested group, empty '
        'group, macro token, text with groups, other delimiter inside) x call via name or \\csname x wrappers (top, {}, '
        '{{}}, begingroup, macro argument) ; plus \\let snapshots before/after redefinition and two-level call chains. '
        'Non-trivial: the use binds at least one parameter; distinct = distinct printed program; outcomes = distinct texts')
ASSUMPTIONS = [
    'oracle: vp/refs/tex_macro.py, a token-list implementation of TeXbook ch.20 parameter matching and substitution',
    'normal form of DESIGN.md: no recursion, no delimiter hidden in braces, no spaces inside programs, \\newcommand only at group level 0',
    'visible text compared with whitespace removed',
]

T = R.toks
A, B, C, I, K, W = 'zzA', 'zzB', 'zzC', 'zzI', 'zzK', 'zzW'

PTS = {'p0': ('', 0), 'p1': ('#1', 1), 'p2': ('#1#2', 2), 'p3': ('#1#2#3', 3),
       'd1': ('#1.#2;', 2), 'd2': ('(#1)', 1), 'd3': ('.#1;', 1), 'd4': ('#1#2.', 2), 'd5': ('[#1]#2', 2),
       'p9': ('#1#2#3#4#5#6#7#8#9', 9), 'hb': ('#1#', 1)}
UNDELIM_ONLY = ('p0', 'p1', 'p2', 'p3', 'p9')


def param_kinds(pt):
    """per parameter: ('u',) undelimited or ('d', delimiter string) ; plus leading literal"""
    s = PTS[pt][0]
    kinds = []
    i = 0
    lead = ''
    while i < len(s) and s[i] != '#':
        lead += s[i]
        i += 1
    while i < len(s):
        assert s[i] == '#'
        if i + 1 >= len(s):
            kinds[-1] = ('hb',)     # '#{' : the previous parameter is delimited by the brace of the body
            break
        j = i + 2
        d = ''
        while j < len(s) and s[j] != '#':
            d += s[j]
            j += 1
        kinds.append(('d', d) if d else ('u',))
        i = j
    return lead, kinds


DEEP = False        # thorough tier: larger menus of argument shapes (set by run() before the workers are forked)
U_SHAPES = ['a', '{bc}', '{d{e}f}', '{}', '\\zzK ', '{\\zzK}']
U_EXTRA = ['{{}}', '{{x}y}', '{a\\zzK }', '{\\zzK\\zzK}']
D_EXTRA = ['{}', '{{a}}', 'a{}b', '{a}b', '\\zzK\\zzK ']
U_SHAPES_SMALL = ['a', '{bc}', '\\zzK ']


def d_shapes(delim, other):
    sh = ['ab', '', '{ab}', 'a{b}c', '{a}{b}', '\\zzK '] + (D_EXTRA if DEEP else [])
    if other and other != delim and other not in ('{',):
        sh.append('a' + other + 'b')
    return sh


def call_variants(pt, full=True):
    """All argument spellings (strings) for a macro with parameter text pt."""
    lead, kinds = param_kinds(pt)
    delims = [k[1] for k in kinds if k[0] == 'd']
    menus = []
    for idx, k in enumerate(kinds):
        if k[0] == 'u':
            if len(kinds) >= 9:
                menus.append(None)
            elif len(kinds) >= 3 and not full:
                menus.append(U_SHAPES_SMALL)
            else:
                menus.append(U_SHAPES + U_EXTRA if (DEEP and len(kinds) <= 2) else U_SHAPES)
        elif k[0] == 'd':
            other = [d for d in delims if d != k[1]]
            menus.append([x + k[1] for x in d_shapes(k[1], other[0] if other else None)])
        else:   # '#{' : argument runs up to the brace, which stays
            menus.append(['ab{q}', '{q}', 'a{q}', '\\zzK{q}'])
    if len(kinds) >= 9:
        return [lead + 'abcdefghi', lead + '{ab}c{}d{e{f}}ghi\\zzK{j}', lead + '\\zzK{}{{a}}bcdef{gh}']
    out = []
    for combo in itertools.product(*menus) if menus else [()]:
        out.append(lead + ''.join(combo))
    return out


def body_for(tmpl, n, tag):
    """Replacement text (string) for a macro with n parameters; tag distinguishes old/new definitions."""
    ps = ['#%d' % i for i in range(1, n + 1)]
    if tmpl == 'lit':
        return tag + 'x'
    if tmpl == 'all':
        return tag + '<' + '|'.join(ps) + '>'
    if tmpl == 'swap':
        return tag + '<' + '|'.join(reversed(ps)) + '>'
    if tmpl == 'dup':
        return tag + (ps[0] + ps[0] if ps else 'yy') + ''.join(ps[1:])
    if tmpl == 'nest':
        return tag + '\\def\\zzI##1{(##1)}\\zzI{%s}' % (ps[-1] if ps else 'k') + ''.join(ps[:-1])
    if tmpl == 'nestnc':      # the inner definition is a \newcommand
        return tag + '\\renewcommand\\zzI[1]{(##1)}\\zzI{%s}' % (ps[-1] if ps else 'k') + ''.join(ps[:-1])
    if tmpl == 'nest3':       # three levels: ## and ####
        return tag + '\\def\\zzI##1{\\def\\zzJ####1{<##1/####1%s>}}\\zzI{u}\\zzJ{v}' % (ps[0] if ps else '')
    if tmpl == 'brk':
        return tag + ''.join('[%s]' % p for p in ps) + '!'
    raise ValueError(tmpl)


BODY_TMPLS = ['all', 'swap', 'dup', 'nest', 'nestnc', 'nest3', 'brk', 'lit']


def define(definer, name, pt, body):
    ptext, n = PTS[pt]
    if definer == 'def':
        return '\\def\\%s%s{%s}' % (name, ptext, body)
    if definer == 'gdef':
        return '\\gdef\\%s%s{%s}' % (name, ptext, body)
    if definer == 'csdef':
        return '\\expandafter\\def\\csname %s\\endcsname%s{%s}' % (name, ptext, body)
    if definer == 'csgdef':     # a global definition of a name built with \csname (inside groups: the name is still undefined there)
        return '\\expandafter\\gdef\\csname %s\\endcsname%s{%s}' % (name, ptext, body)
    nspec = '[%d]' % n if n else ''
    if definer == 'newc':
        return '\\newcommand{\\%s}%s{%s}' % (name, nspec, body)
    if definer == 'newcnb':
        return '\\newcommand\\%s%s{%s}' % (name, nspec, body)
    if definer == 'newcopt':
        return '\\newcommand{\\%s}[%d][dv]{%s}' % (name, n, body)
    if definer == 'newcopt0':     # empty default
        return '\\newcommand{\\%s}[%d][]{%s}' % (name, n, body)
    if definer == 'renew':
        return '\\newcommand{\\%s}{zz}\\renewcommand{\\%s}%s{%s}' % (name, name, nspec, body)
    raise ValueError(definer)


def definers_for(pt, wrapper):
    ds = ['def', 'gdef', 'csdef', 'csgdef']
    if pt in UNDELIM_ONLY and wrapper == 'top':
        ds += ['newc', 'newcnb', 'renew']
        if PTS[pt][1] >= 1 and pt != 'p9':
            ds.append('newcopt')
            ds.append('newcopt0')
    return ds


def opt_call_variants(pt, full):
    """Calls for \\newcommand with optional first argument: [opt] present/absent + undelimited rest."""
    n = PTS[pt][1]
    rest = call_variants('p%d' % (n - 1), full) if n - 1 in (0, 1, 2) else ['{r}{s}{t}'[:5 * (n - 1)]]
    out = []
    for o in ('', '[o]', '[{pq}]', '[]'):
        for r in rest:
            out.append(o + r)
    return out


WRAPPERS = ['top', 'grp', 'grp2', 'bgrp', 'arg']


def wrap(wrapper, core_):
    if wrapper == 'top':
        return core_
    if wrapper == 'grp':
        return '{' + core_ + '}'
    if wrapper == 'grp2':
        return '{{' + core_ + '}}'
    if wrapper == 'bgrp':
        return '\\begingroup ' + core_ + '\\endgroup '
    if wrapper == 'arg':
        return '\\zzW{' + core_ + '}'
    raise ValueError(wrapper)


PRE = '\\def\\zzK{k}\\def\\zzW#1{(#1)}\\newcommand\\zzI{i}'


def spell(s):
    """The generator writes programs in a compact string form; here they become token lists (the AST)."""
    return R.toks(s)


def name_use(name, via):
    return ('\\%s ' % name) if via == 'direct' else ('\\csname %s\\endcsname ' % name)


# ---------------------------------------------------------------------------
# Program families.  Each yields (program string, nparams bound)
# ---------------------------------------------------------------------------
def family_single(pt, wrapper, full):
    """old def; wrapper(new def; use); use after"""
    ptext, n = PTS[pt]
    for definer in definers_for(pt, wrapper):
        calls = opt_call_variants(pt, full) if definer in ('newcopt', 'newcopt0') else call_variants(pt, full)
        for tmpl in BODY_TMPLS:
            if tmpl == 'lit' and n > 1:
                continue
            old = define('def', A, pt, body_for('all', n, 'o'))
            if definer in ('newc', 'newcnb', 'newcopt', 'newcopt0', 'renew'):
                old = ''            # \newcommand does not redefine an existing \def in LaTeX
            if definer == 'csgdef':
                old = ''            # the name built by \csname is not defined before (TeX makes it \relax locally)
            if definer in ('newcopt', 'newcopt0'):
                oldcalls = None
            new = define(definer, A, pt, body_for(tmpl, n, 'n'))
            for ci, call in enumerate(calls):
                for via in ('direct', 'csname'):
                    if via == 'csname' and ci % 3:
                        continue    # \csname calls on every third spelling
                    use = name_use(A, via) + call
                    after = ':' + use if (old or wrapper == 'top' or definer in ('gdef', 'csgdef')) else ''
                    if definer in ('newcopt', 'newcopt0') and wrapper != 'top':
                        continue
                    yield PRE + old + wrap(wrapper, new + use) + after, n


A_FIXED = {'p1': ('p1', 'all'), 'd1': ('d1', 'swap'), 'p2': ('p2', 'all')}


def family_chain(apt, bpt, wrapper, full):
    """def A; def B whose body calls A with B's parameters; use B; use A"""
    an = PTS[apt][1]
    bn = PTS[bpt][1]
    adef = define('def', A, apt, body_for(A_FIXED[apt][1], an, 'a'))
    ps = ['#%d' % i for i in range(1, bn + 1)]
    p1 = ps[0]
    p2 = ps[1] if bn > 1 else ps[0]
    if apt == 'p1':
        bodies = ['\\zzA{%s}' % p1, '\\zzA %s' % p1 if False else '\\zzA%s' % p1, '{\\zzA{%s}}%s' % (p2, p1),
                  '\\zzA{\\zzA{%s}}' % p1]
    elif apt == 'p2':
        bodies = ['\\zzA{%s}{%s}' % (p1, p2), '\\zzA%s%s' % (p2, p1), '{\\zzA{%s}{x}}' % p1]
    else:
        bodies = ['\\zzA%s.%s;' % (p1, p2), '\\zzA{%s}.{%s};' % (p2, p1), '{\\zzA.%s;}' % p1]
    for definer in definers_for(bpt, wrapper):
        if definer in ('renew', 'newcnb', 'newcopt', 'newcopt0'):
            continue
        for body in bodies:
            bdef = define(definer, B, bpt, 'b' + body)
            for call in call_variants(bpt, full):
                yield PRE + adef + wrap(wrapper, bdef + '\\zzB ' + call) + ':' + '\\zzA ' + call_variants(apt, False)[0], bn


def family_let(pt, wrapper, full):
    """old def A; \\let C A (before or after the redefinition); redefine A; use C; use A"""
    ptext, n = PTS[pt]
    # the alias name already has a definition of its own (same call syntax), so shadowing and leaking are observable
    old = define('def', A, pt, body_for('all', n, 'o')) + define('def', C, pt, body_for('dup', n, 'c'))
    for definer in ('def', 'gdef', 'csdef'):
        new = define(definer, A, pt, body_for('swap', n, 'n'))
        for letform in ('\\let\\zzC\\zzA', '\\let\\zzC=\\zzA', '\\expandafter\\let\\csname zzC\\endcsname\\zzA'):
            for when in ('before', 'after'):
                for call in call_variants(pt, False):
                    seq = (letform + new) if when == 'before' else (new + letform)
                    prog = PRE + old + wrap(wrapper, seq + '\\zzC ' + call + ';\\zzA ' + call)
                    prog += ':\\zzA ' + call + ';\\zzC ' + call
                    yield prog, n


def family_charlet(wrapper):
    for form in ('\\let\\zzC=a', '\\let\\zzC b'):
        yield PRE + wrap(wrapper, form + 'x\\zzC y\\zzC\\zzK ') + 'z', 1


def family_chain3(wrapper):
    """three-level chain D -> B -> A with mixed parameter texts (thorough)"""
    adef = '\\def\\zzA#1.#2;{a<#2|#1>}'
    for bbody in ('\\zzA#1.#2;', '\\zzA{#2}.{#1};'):
        bdef = '\\def\\zzB#1#2{b' + bbody + '}'
        for dbody in ('\\zzB{#1}{#1}', '\\zzB#1', '\\zzB{\\zzK}#1', '{\\zzB#1{y}}'):
            ddef = '\\gdef\\zzD(#1){d' + dbody + '}'
            for arg in ('ab', '{ab}', 'a{b}', '{a}{b}', '\\zzK c'):
                after = ':\\zzD(pq)' if wrapper in ('top', 'arg') else ':'     # \\zzB is local to the wrapper group
                yield PRE + adef + wrap(wrapper, bdef + ddef + '\\zzD(' + arg + ')') + after, 1


def family_expandafter(wrapper):
    """\\expandafter over parameterless and parameterised macros, then the macros are used again (their stored
    definitions must be untouched)"""
    for vdef in ('\\def\\zzV{xy}', '\\gdef\\zzV{xy}', '\\newcommand{\\zzV}{xy}' if wrapper == 'top' else '\\def\\zzV{x{y}}'):
        for use in ('\\expandafter\\zzW\\zzV ', '\\expandafter\\zzW\\zzV |\\zzV ', '\\expandafter\\zzW\\zzV |\\expandafter\\zzW\\zzV |\\zzV ',
                    '\\expandafter\\zzW\\expandafter{\\zzV }|\\zzV ', '\\expandafter\\zzA\\zzV .q;|\\zzV |\\zzA \\zzV .r;'):
            yield PRE + '\\def\\zzA#1.#2;{a<#2|#1>}' + wrap(wrapper, vdef + use) + ':', 1


def programs(block):
    fam = block[0]
    if fam == 'expandafter':
        return family_expandafter(block[1])
    if fam == 'single':
        return family_single(block[1], block[2], block[3])
    if fam == 'chain':
        return family_chain(block[1], block[2], block[3], block[4])
    if fam == 'let':
        return family_let(block[1], block[2], block[3])
    if fam == 'charlet':
        return family_charlet(block[1])
    if fam == 'chain3':
        return family_chain3(block[1])
    raise ValueError(fam)


# ---------------------------------------------------------------------------
def observe(src):
    from plasTeX.TeX import TeX
    state.reset()
    try:
        with core.time_limit(10.0):
            tex = TeX()
            tex.ownerDocument.context.warnOnUnrecognized = False
            tex.input(src)
            doc = tex.parse()
            return {'text': ''.join(doc.textContent.split()), 'depth': len(doc.context.contexts)}
    except core.Timeout:
        return {'error': 'timeout'}
    except Exception as e:
        return {'error': '%s: %s' % (type(e).__name__, str(e)[:80])}


# named deviations: (id, predicate on program string) -- applied only to explain a mismatch
def judge(prog):
    tokens = spell(prog)
    src = R.pr(tokens)
    try:
        exp = {'text': R.evaluate(tokens), 'depth': 1}
    except (R.OutsideNormalForm, R.IllFormed) as e:
        return 'outside', {'outside_normal_form': str(e)}, None, src
    except R.RefError as e:
        return 'generror', {'ref_error': str(e)}, None, src
    obs = observe(src)
    if obs == exp:
        return 'ok', exp, obs, src
    return 'violation', exp, obs, src


def replay(case):
    v, exp, obs, src = judge(case['program'])
    if v in ('generror', 'outside'):
        return {'verdict': 'ok', 'expected': exp, 'observed': obs, 'detail': 'outside the reference normal form'}
    fid = classify(case['program'], exp, obs)
    if v == 'violation' and fid:
        return {'verdict': 'known', 'fid': fid, 'expected': exp, 'observed': obs, 'detail': 'source: ' + src}
    return {'verdict': v, 'expected': exp, 'observed': obs, 'detail': 'source: ' + src}


def classify(prog, exp, obs):
    """Map a mismatch to a named deviation when (and only when) its trigger is present AND the observation is the
    one the deviation predicts.  Filled in during triage; see known_findings.json."""
    for fid, fn in DEVIATIONS:
        if fn(prog, exp, obs):
            return fid
    return None


def _dev_let_char(prog, exp, obs):
    # \let\zzC=<char> executed inside text that was tokenized before the \let ran (a macro argument):
    # plasTeX resolves character aliases only in the tokenizer, so later uses of \zzC print nothing.
    if '\\zzW{\\let\\zzC' not in prog:
        return False
    try:
        e = R.Expander(charalias_silent=True)
        return obs == {'text': e.run(spell(prog)), 'depth': 1}
    except R.RefError:
        return False


DEVIATIONS = [('C02.LET_CHAR_PRETOKENIZED', _dev_let_char)]


def run_block(block):
    block, shard, nshards = block[:-2], block[-2], block[-1]
    rep = core.Report()
    for idx, (prog, n) in enumerate(programs(block)):
        if idx % nshards != shard:
            continue
        v, exp, obs, src = judge(prog)
        if v == 'outside':
            rep.count('skipped_outside_normal_form')
            continue
        if v == 'generror':
            rep.count('generator_outside_normal_form')
            rep.error('generator produced a program the reference rejects: %s (%s)' % (prog, exp))
            continue
        rep.case(key=prog, nontrivial=(n > 0), outcome=(obs.get('text'), obs.get('error')))
        rep.count('family_' + block[0])
        if v == 'ok':
            if n >= 2:
                rep.sample({'program': src, 'text': obs['text']})
            continue
        fid = classify(prog, exp, obs)
        case = {'program': prog}
        if fid:
            rep.known_finding(fid, case, 'source: ' + src)
        else:
            rep.violation(case, exp, obs, 'source: ' + src)
    return rep.close_block()


def run(tier, seed, rep):
    global DEEP
    state.pristine()
    quick = tier == 'quick'
    DEEP = not quick
    blocks = []
    wr = ['top', 'grp', 'arg'] if quick else WRAPPERS
    for pt in PTS:
        for w in wr:
            blocks.append(('single', pt, w, not quick))
    for apt in A_FIXED:
        for bpt in ('p1', 'p2', 'd1', 'd2', 'd5', 'hb') if quick else [p for p in PTS if PTS[p][1] >= 1]:
            for w in (['top', 'grp'] if quick else WRAPPERS):
                blocks.append(('chain', apt, bpt, w, not quick))
    for pt in (('p1', 'p2', 'd1', 'd5') if quick else [p for p in PTS if p != 'p9']):
        for w in (['top', 'grp'] if quick else WRAPPERS):
            blocks.append(('let', pt, w, not quick))
    for w in WRAPPERS:
        blocks.append(('charlet', w))
        blocks.append(('expandafter', w))
        if not quick:
            blocks.append(('chain3', w))
    NS = 6
    blocks = [b + (i, NS if b[0] in ('single', 'chain', 'let') else 1) for b in blocks
              for i in range(NS if b[0] in ('single', 'chain', 'let') else 1)]
    blocks = core.rotate(blocks, seed)
    core.merge_all(run_block, blocks, rep)
    return {'exhaustive': True,
            'bounds': {'definitions': '<=2 (+old, +helpers)' if quick else '<=3', 'uses': '<=2' if quick else '<=3',
                       'parameter_texts': len(PTS), 'wrappers': wr, 'blocks': len(blocks)},
            'floors': {'evaluations': 5000}}
