"""
C03 -- Conditionals process exactly the branch TeX would select.
Engine E1: every conditional tree up to a depth bound over a menu of tests, every branch carrying a unique
marker word and a uniquely weighted side effect; oracle = evaluation of the tree (AST), not of the text.
"""
from vp import core, state

ID = 'C03'
LEVEL = 'exploration'
RULE = ('all conditional trees of depth <= d: node = test from a menu of 24 boolean tests (iftrue/iffalse/ifnum/ifdim/ifodd/'
        'ifx/ifdefined/newif switch; operands literal, count/dimen register, \\value, macro-produced) or \\ifcase with 1-3 '
        '\\or arms and every selector in -1..k+1 (literal or register), each with/without \\else, a child conditional in at '
        'most one branch position (taken or untaken); at d = 3 (thorough) the root and both lower levels range over a '
        'representative sub-menu (12 boolean tests incl. the switch, \\ifcase with 2 arms, all selectors); x placement (top level, group, macro body, macro argument) x switch '
        'setters in branches on/off; plus every ordered pair of sibling conditionals over the sub-menu, and a list of explicit '
        'programs (empty branches, a definition between two \\ifdefined/\\ifcsname tests, \\ifx on a macro parameter followed by '
        'register operands, \\newif inside a branch). Non-trivial: at least one branch is skipped and one is taken; distinct = distinct '
        '(tree, placement, setter flag); outcomes = distinct (text, side-effect mask, switch state)')
ASSUMPTIONS = [
    'oracle: AST evaluation with TeX rules (truth of each test computed from the operands the generator chose)',
    'normal form: number and dimension literals are \\relax-terminated; \\ifx only char/char and macro/macro with plain-text bodies',
    'visible text is compared with whitespace removed',
]

PREAMBLE = (r'\newcounter{zzc}\setcounter{zzc}{3}\newcounter{zzs}\newcount\zzr \zzr=2\relax '
            r'\newdimen\zzd \zzd=3pt\relax \def\zzneg{-3}\def\zznegd{-2pt}\def\zzn{2}\def\zzma{xy}\def\zzmb{xy}\def\zzmc{xz}\newif\iffizz ')

# boolean tests: (source, truth) ; 'SW' = depends on the switch state
BOOL = [
    (r'\iftrue ', True), (r'\iffalse ', False),
    (r'\ifnum 1<2\relax ', True), (r'\ifnum 4<2\relax ', False), (r'\ifnum 3>-1\relax ', True),
    (r'\ifnum 0=0\relax ', True), (r'\ifnum\zzr=2\relax ', True), (r'\ifnum\zzr>\zzr\relax ', False),
    (r'\ifnum\value{zzc}>\zzn\relax ', True), (r'\ifnum\zzn=\value{zzc}\relax ', False),
    (r'\ifdim 1pt<2pt\relax ', True), (r'\ifdim 1in=72.27pt\relax ', True), (r'\ifdim\zzd<1pt\relax ', False),
    (r'\ifdim 2\zzd=6pt\relax ', True), (r'\ifdim 1sp=5sp\relax ', False), (r'\ifdim 0pt=3sp\relax ', False),
    (r'\ifdim 65536sp=1pt\relax ', True), (r'\ifdim -2sp<2sp\relax ', True),
    (r'\ifnum --1>0\relax ', True), (r'\ifnum -\zzneg>0\relax ', True), (r'\ifdim -\zznegd>1pt\relax ', True),
    (r'\ifodd -+-3\relax ', True),
    (r'\ifodd 3\relax ', True), (r'\ifodd 4\relax ', False), (r'\ifodd -1\relax ', True), (r'\ifodd\zzr\relax ', False),
    (r'\ifx aa', True), (r'\ifx ab', False), (r'\ifx\zzma\zzmb ', True), (r'\ifx\zzma\zzmc ', False),
    (r'\ifdefined\zzma ', True), (r'\ifdefined\zzundefd ', False),
    (r'\iffizz ', 'SW'),
    # operands whose digits are continued by a macro (TeX expands while it scans a number)
    (r'\ifnum 5<1\zzn\relax ', True), (r'\ifnum 1\zzn\zzn>100\relax ', True), (r'\ifdim 1.\zzn pt>1.1pt\relax ', True),
]
# representative subset used as the *outer* test at the deepest level
BOOL_SMALL = [0, 1, 3, 8, 12, 14, 18, 23, 27, 28, 31, 32]
SEL_SRC = {2: r'\zzr', 3: r'\value{zzc}'}     # selectors that can also come from a register / counter


def marker(i):
    return 'q' + chr(97 + i // 26) + chr(97 + i % 26)


# ---------------------------------------------------------------------------
# AST:  ['b', test_index, has_else, child_pos, child]            boolean conditional
#       ['c', k, selector, sel_from_register, has_else, child_pos, child]   \ifcase with k+1 numbered arms (0..k)
# child_pos: index of the branch that holds the child (else-branch = last) or -1
# ---------------------------------------------------------------------------
def nbranches(node):
    if node[0] == 'b':
        return 1 + (1 if node[2] else 0)
    return node[1] + 1 + (1 if node[4] else 0)


def leaves(depth, outer_small=False):
    """All nodes of exactly/at most `depth` levels (depth >= 1)."""
    out = []
    subs = [None] if depth == 1 else [None] + leaves(depth - 1)
    tests = BOOL_SMALL if (outer_small and depth >= 3) else range(len(BOOL))
    for ti in tests:
        for has_else in (0, 1):
            nb = 1 + has_else
            out.append(['b', ti, has_else, -1, None])
            for child in subs[1:]:
                for pos in range(nb):
                    out.append(['b', ti, has_else, pos, child])
    ks = (1, 2, 3) if not (outer_small and depth >= 3) else (2,)
    for k in ks:
        for sel in range(-1, k + 3):
            for from_reg in ((0, 1) if sel in SEL_SRC else (0,)):
                for has_else in (0, 1):
                    nb = k + 1 + has_else
                    out.append(['c', k, sel, from_reg, has_else, -1, None])
                    for child in subs[1:]:
                        for pos in range(nb):
                            out.append(['c', k, sel, from_reg, has_else, pos, child])
    return out


_SUBS = {}


def leaves_small():
    """depth-1 nodes over the representative test menu"""
    out = []
    for ti in BOOL_SMALL:
        for has_else in (0, 1):
            out.append(['b', ti, has_else, -1, None])
    for sel in range(-1, 5):
        for from_reg in ((0, 1) if sel in SEL_SRC else (0,)):
            for has_else in (0, 1):
                out.append(['c', 2, sel, from_reg, has_else, -1, None])
    return out


def leaves2_small():
    """trees of at most two levels over the representative test menu (both levels)"""
    out = []
    small = leaves_small()
    for n in small:
        out.append(n)
        nb = (1 + n[2]) if n[0] == 'b' else (n[1] + 1 + n[4])
        for child in small:
            for pos in range(nb):
                out.append(n[:-2] + [pos, child])
    return out


def nodes_for_outer(depth, outer, inner_small=False):
    """All trees of at most `depth` levels whose root is the test `outer`; at depth 3 the two lower levels range over the
    representative menu."""
    key = (depth, inner_small)
    if key not in _SUBS:
        _SUBS[key] = [] if depth == 1 else (leaves_small() if (inner_small and depth == 2) else (
            leaves2_small() if depth == 3 else leaves(depth - 1)))
    subs = _SUBS[key]
    out = []
    if outer[0] == 'b':
        ti = outer[1]
        for has_else in (0, 1):
            out.append(['b', ti, has_else, -1, None])
            for child in subs:
                for pos in range(1 + has_else):
                    out.append(['b', ti, has_else, pos, child])
    else:
        _, k, sel, from_reg = outer
        for has_else in (0, 1):
            out.append(['c', k, sel, from_reg, has_else, -1, None])
            for child in subs:
                for pos in range(k + 1 + has_else):
                    out.append(['c', k, sel, from_reg, has_else, pos, child])
    return out


def count_nodes(depth, outer_small=False):
    return len(leaves(depth, outer_small))


class Printer(object):
    def __init__(self, setters):
        self.n = 0
        self.setters = setters

    def body(self, child):
        i = self.n
        self.n += 1
        s = marker(2 * i) + r'\addtocounter{zzs}{%d}' % (1 << i)
        if self.setters:
            s += r'\fizztrue ' if i % 2 == 0 else r'\fizzfalse '
        if child is not None:
            s += self.cond(child)
        s += ' ' + marker(2 * i + 1)
        return s

    def cond(self, node):
        if node[0] == 'q':          # two sibling conditionals, one after the other
            return self.cond(node[1]) + self.cond(node[2])
        if node[0] == 'b':
            _, ti, has_else, pos, child = node
            s = BOOL[ti][0]
            s += self.body(child if pos == 0 else None)
            if has_else:
                s += r'\else ' + self.body(child if pos == 1 else None)
            return s + r'\fi '
        _, k, sel, from_reg, has_else, pos, child = node
        s = r'\ifcase ' + (SEL_SRC[sel] if from_reg else str(sel)) + r'\relax '
        for a in range(k + 1):
            if a:
                s += r'\or '
            s += self.body(child if pos == a else None)
        if has_else:
            s += r'\else ' + self.body(child if pos == k + 1 else None)
        return s + r'\fi '


class Evaluator(object):
    """TeX semantics on the AST; branch numbering identical to Printer's."""
    def __init__(self, setters, sw):
        self.n = 0
        self.setters = setters
        self.sw = sw
        self.text = []
        self.mask = 0
        self.skipped = 0
        self.taken = 0

    def skip_body(self, child):
        self.n += 1
        self.skipped += 1
        if child is not None:
            self.skip_cond(child)

    def skip_cond(self, node):
        if node[0] == 'b':
            _, ti, has_else, pos, child = node
            for b in range(1 + has_else):
                self.skip_body(child if pos == b else None)
        else:
            _, k, sel, from_reg, has_else, pos, child = node
            for b in range(k + 1 + has_else):
                self.skip_body(child if pos == b else None)

    def run_body(self, child):
        i = self.n
        self.n += 1
        self.taken += 1
        self.text.append(marker(2 * i))
        self.mask |= (1 << i)
        if self.setters:
            self.sw = (i % 2 == 0)
        if child is not None:
            self.run_cond(child)
        self.text.append(marker(2 * i + 1))

    def run_cond(self, node):
        if node[0] == 'q':
            self.run_cond(node[1])
            self.run_cond(node[2])
            return
        if node[0] == 'b':
            _, ti, has_else, pos, child = node
            truth = BOOL[ti][1]
            if truth == 'SW':
                truth = self.sw
            chosen = 0 if truth else (1 if has_else else None)
            nb = 1 + has_else
        else:
            _, k, sel, from_reg, has_else, pos, child = node
            nb = k + 1 + has_else
            if 0 <= sel <= k:
                chosen = sel
            else:
                chosen = (k + 1) if has_else else None
        for b in range(nb):
            c = child if pos == b else None
            if b == chosen:
                self.run_body(c)
            else:
                self.skip_body(c)


WRAPPERS = ['top', 'group', 'body', 'arg']


def program(node, wrapper, setters, sw0):
    p = Printer(setters).cond(node)
    probe = r'\iffizz qst\else qsf\fi '
    if wrapper == 'top':
        core_ = p
    elif wrapper == 'group':
        core_ = '{' + p + '}'
    elif wrapper == 'body':
        core_ = r'\def\zzw{' + p + r'}\zzw '
    elif wrapper == 'arg':
        core_ = r'\def\zzw#1{[#1]}\zzw{' + p + '}'
    else:
        raise ValueError(wrapper)
    return PREAMBLE + (r'\fizztrue ' if sw0 else '') + 'qbeg ' + core_ + 'qend ' + probe


def expect(node, wrapper, setters, sw0):
    ev = Evaluator(setters, bool(sw0))
    ev.run_cond(node)
    text = ''.join(ev.text)
    if wrapper == 'arg':
        text = '[' + text + ']'
    text = 'qbeg' + text + 'qend' + ('qst' if ev.sw else 'qsf')
    return {'text': text, 'mask': ev.mask, 'depth': 1}, ev


def observe(src):
    from plasTeX.TeX import TeX
    state.reset()
    try:
        with core.time_limit(10.0):
            tex = TeX()
            tex.ownerDocument.context.warnOnUnrecognized = False
            tex.input(src)
            doc = tex.parse()
            text = ''.join(doc.textContent.split())
            return {'text': text, 'mask': doc.context.counters['zzs'].value,
                    'depth': len(doc.context.contexts)}
    except core.Timeout as e:
        return {'error': 'timeout: %s' % e}
    except Exception as e:
        return {'error': '%s: %s' % (type(e).__name__, str(e)[:80])}


def judge(case):
    node, wrapper, setters, sw0 = case['tree'], case['wrapper'], case['setters'], case['sw0']
    src = program(node, wrapper, setters, sw0)
    exp, ev = expect(node, wrapper, setters, sw0)
    obs = observe(src)
    if obs == exp:
        return 'ok', exp, obs, src, ev
    return 'violation', exp, obs, src, ev


def replay(case):
    if 'extra' in case:
        src = PREAMBLE + 'qbeg ' + case['extra'] + 'qend '
        obs = observe(src)
        want = 'qbeg' + case['expected_text'] + 'qend'
        ok = obs.get('text') == want and obs.get('depth') == 1
        return {'verdict': 'ok' if ok else 'violation', 'expected': want, 'observed': obs, 'detail': 'program: ' + src}
    v, exp, obs, src, ev = judge(case)
    return {'verdict': v, 'expected': exp, 'observed': obs, 'detail': 'program: ' + src}


def run_block(block):
    if block[0] == 'extra':
        return run_block_extra(block)
    if block[0] == 'pair':
        _, i, wrapper, setters, sw0 = block
        small_ = leaves_small()
        nodes = [['q', small_[i], b] for b in small_]
        depth = 1
    else:
        depth, outer, wrapper, setters, sw0, small = block
        nodes = nodes_for_outer(depth, outer, inner_small=(small == 'inner'))
    rep = core.Report()
    for node in nodes:
        if depth > 1 and node[-1] is None and _depth(node) < depth:
            pass    # shallower trees are part of the same enumeration (<= depth)
        case = {'tree': node, 'wrapper': wrapper, 'setters': setters, 'sw0': sw0}
        v, exp, obs, src, ev = judge(case)
        rep.case(key=(repr(node), wrapper, setters, sw0), nontrivial=(ev.skipped > 0 and ev.taken > 0),
                 outcome=(obs.get('text'), obs.get('mask'), obs.get('error')))
        rep.count('test_' + node[0])
        if node[0] == 'c' and not (0 <= node[2] <= node[1]):
            rep.count('ifcase_out_of_range')
        if v != 'ok':
            rep.violation(case, exp, obs, 'program: ' + src)
        elif ev.skipped and _depth(node) >= 2:
            rep.sample({'program': src, 'observed': obs})
    return rep.close_block()


def _outer_id(n):
    return ('b', n[1]) if n[0] == 'b' else ('c', n[1], n[2], n[3])


def _depth(n):
    c = n[-1]
    return 1 if c is None else 1 + _depth(c)


EXTRA = [   # (program after the preamble, expected text) -- switches declared inside the branch that uses them
    (r'\iftrue \newif\ifzzq \ifzzq A\else B\fi C\else D\fi ', 'BC'),
    (r'\iftrue \newif\ifzzq \zzqtrue \ifzzq A\else B\fi C\else D\fi ', 'AC'),
    (r'\iffalse \newif\ifzzq \ifzzq A\else B\fi C\else D\fi ', 'D'),
    (r'\ifcase 1\relax x\or \newif\ifzzq \ifzzq A\else B\fi C\or y\else D\fi ', 'BC'),
    (r'\ifdefined\ifzzq \else \newif\ifzzq \ifzzq A\else B\fi \fi E', 'BE'),
    (r'\ifnum 1<2\relax \newif\ifzzq \ifzzq A\fi C\else D\fi ', 'C'),
]
# switch names that contain 'if' / 'fi' again after the prefix: the setters are \<name without the first two letters>true/false
for _nm in ('verified', 'diff', 'ifx', 'fiif', 'f', 'modified'):
    EXTRA.append((r'\newif\if%s \if%s A\else B\fi \%strue \if%s C\else D\fi \%sfalse \if%s E\else F\fi ' % ((_nm,) * 6), 'BCF'))
EXTRA.append((r'\newif\ifdiff \newif\ifdf \difftrue \ifdf A\else B\fi \ifdiff C\else D\fi ', 'BC'))
# a conditional that is expanded while a number or dimension is being scanned (inside a macro used as an operand)
for _sw, _sv in ((r'\fizztrue ', 2), (r'\fizzfalse ', 0)):
    for _inner, _val in ((r'\iffizz 2\else 0\fi ', _sv), (r'\ifnum 1<2 3\else 4\fi ', 3), (r'\ifx ab5\else 1\fi ', 1),
                         (r'\ifcase 1 7\or 2\else 9\fi ', 2), (r'\ifodd 3 1\else 2\fi ', 1)):
        for _outer, _fn in ((r'\ifnum 1<\zzq\relax A\else B\fi ', lambda v: 'A' if 1 < v else 'B'),
                            (r'\ifnum\zzq=2\relax A\else B\fi ', lambda v: 'A' if v == 2 else 'B'),
                            (r'\ifodd\zzq\relax A\else B\fi ', lambda v: 'A' if v % 2 else 'B'),
                            (r'\ifcase\zzq\relax a\or b\or c\or d\else e\fi ', lambda v: 'abcd'[v] if 0 <= v <= 3 else 'e'),
                            (r'\ifdim 1pt<\zzq pt\relax A\else B\fi ', lambda v: 'A' if 1 < v else 'B')):
            EXTRA.append((_sw + r'\def\zzq{' + _inner + '}' + _outer + 'E', _fn(_val) + 'E'))
# empty branches: a selected branch without any token must not fall through to another branch
for _t, _v in ((r'\iftrue ', True), (r'\iffalse ', False), (r'\ifnum 1<2\relax ', True), (r'\ifx ab', False), (r'\ifodd 3\relax ', True),
               (r'\ifdefined\zzma ', True), (r'\ifdim 1pt>2pt\relax ', False)):
    EXTRA.append((_t + r'\else B\fi E', 'E' if _v else 'BE'))
    EXTRA.append((_t + r'A\else \fi E', 'AE' if _v else 'E'))
    EXTRA.append((_t + r'\else \stepcounter{zzc}\fi \arabic{zzc}', '3' if _v else '4'))
    EXTRA.append((_t + r'\fi E', 'E'))
for _sel in range(-1, 5):
    EXTRA.append((r'\ifcase %d\relax a\or \or c\else d\fi E' % _sel, {0: 'a', 1: '', 2: 'c'}.get(_sel, 'd') + 'E'))
    EXTRA.append((r'\ifcase %d\relax \or b\or \else \fi E' % _sel, {1: 'b'}.get(_sel, '') + 'E'))
# a test, a definition made by the selected branch (or between two tests), the same test again at the same level
for _d in (r'\gdef\zzqq{X}', r'\def\zzqq{X}', r'\newcommand\zzqq{X}', r'\let\zzqq=\zzma ', r'\newcount\zzqq ', r'\newif\ifzzqq ',
           r'\expandafter\gdef\csname zzqq\endcsname{X}'):
    _n = r'\ifzzqq ' if 'newif' in _d else r'\zzqq '
    _name = 'ifzzqq' if 'newif' in _d else 'zzqq'
    EXTRA.append((r'\ifdefined\%s A\else %sB\fi \ifdefined\%s C\else D\fi ' % (_name, _d, _name), 'BC'))
    EXTRA.append((r'\ifdefined\%s A\else B\fi %s\ifdefined\%s C\else D\fi ' % (_name, _d, _name), 'BC'))
    EXTRA.append((r'{\ifdefined\%s A\else B\fi %s\ifdefined\%s C\else D\fi }' % (_name, _d, _name), 'BC'))
    EXTRA.append((r'\ifcsname %s\endcsname A\else B\fi %s\ifcsname %s\endcsname C\else D\fi ' % (_name, _d, _name), 'BC'))
    if 'gdef' in _d or 'new' in _d:
        EXTRA.append((r'\ifdefined\%s A\else B\fi {%s}\ifdefined\%s C\else D\fi ' % (_name, _d, _name), 'BC'))
    else:
        EXTRA.append((r'\ifdefined\%s A\else B\fi {%s}\ifdefined\%s C\else D\fi ' % (_name, _d, _name), 'BD'))
# a conditional on a macro parameter, then every kind of register operand: the first must leave nothing behind
for _call, _r in ((r'\zzw a', 'Y'), (r'\zzw{a}', 'Y'), (r'\zzw b', 'N'), (r'\zzw{b}', 'N'), (r'\zzw\zzma ', 'N')):
    for _t, _x in ((r'\ifodd\zzr A\else B\fi ', 'B'), (r'\ifnum\zzr=2\relax A\else B\fi ', 'A'), (r'\ifnum 1<\zzr A\else B\fi ', 'A'),
                   (r'\ifcase\zzr a\or b\or c\else d\fi ', 'c'), (r'\ifdim\zzd<4pt\relax A\else B\fi ', 'A'),
                   (r'\ifdim 2\zzd=6pt\relax A\else B\fi ', 'A')):
        EXTRA.append((r'\def\zzw#1{\ifx#1a Y\else N\fi }' + _call + _t + r'\ifnum\zzr=2\relax r\else R\fi \ifdim\zzd=3pt\relax d\else D\fi ', _r + _x + 'rd'))


def run_block_extra(block):
    rep = core.Report()
    for prog, exp in EXTRA:
        src = PREAMBLE + 'qbeg ' + prog + 'qend '
        obs = observe(src)
        want = 'qbeg' + exp + 'qend'
        rep.case(key=('extra', prog), nontrivial=True, outcome=obs.get('text'))
        rep.count('extra_programs')
        if obs.get('text') != want or obs.get('depth') != 1:
            rep.violation({'extra': prog, 'expected_text': exp}, want, obs, 'program: ' + src)
    return rep.close_block()


def run(tier, seed, rep):
    state.pristine()
    quick = tier == 'quick'
    blocks = []
    plan = []
    if quick:
        # depth <= 2; every placement, switch setters at top level and in a macro body
        plan = [(2, 'top', 0, 0, False), (2, 'top', 1, 0, 'inner'), (2, 'body', 1, 1, 'inner'),
                (2, 'arg', 0, 0, 'inner'), (2, 'group', 0, 1, 'inner')]
    else:
        plan = [(2, w, s, sw0, False) for w in WRAPPERS for s, sw0 in ((0, 0), (0, 1), (1, 0), (1, 1))]
        plan += [(3, w, s, sw0, True) for w, s, sw0 in (('top', 0, 0), ('body', 1, 1), ('arg', 0, 1), ('group', 1, 0))]
    for depth, w, s, sw0, small in plan:
        outers = sorted(set(_outer_id(n) for n in leaves(1, False)), key=repr)
        if small is True and depth >= 3:
            outers = sorted(set(_outer_id(n) for n in leaves(3, True) if True), key=repr) if False else \
                sorted(set([('b', t) for t in BOOL_SMALL] + [('c', 2, sel, fr) for sel in range(-1, 5)
                                                              for fr in ((0, 1) if sel in SEL_SRC else (0,))]), key=repr)
        for o in outers:
            blocks.append((depth, o, w, s, sw0, small))
    blocks.append(('extra',))
    # every ordered pair of sibling conditionals over the representative menu: the first must leave nothing behind
    for i in range(len(leaves_small())):
        for w, st, sw0 in ((('top', 1, 0),) if quick else (('top', 1, 0), ('body', 0, 1), ('arg', 1, 1), ('group', 0, 0))):
            blocks.append(('pair', i, w, st, sw0))
    blocks = core.rotate(blocks, seed)
    core.merge_all(run_block, blocks, rep)
    return {'exhaustive': True,
            'bounds': {'depth': 2 if quick else 3, 'bool_tests': len(BOOL), 'ifcase_arms': '1..3', 'selectors': '-1..k+1',
                       'placements': WRAPPERS, 'plan': [list(p) for p in plan]},
            'floors': {'evaluations': 20000, 'ifcase_out_of_range': 1000}}
