"""
C04 -- Grouping restores every local change and leaves the context stack balanced.
(a) Engine E2: breadth-first search over event histories issued on the real plasTeX Context, in lock-step with
    a lexical-scope stack model (frames of dicts); every frame of the implementation is compared after every event.
(b) Engine E1: balanced nestings of real grouping constructs in parsed programs with probes after every close.
"""
import itertools
from vp import core, state

ID = 'C04'
LEVEL = 'model_checking'
RULE = ('(a) states = histories of Context API events {push, push(env_i), pop, pop(env_i), pop(end-of-env_i), local/global '
        'newdef of 2 names, let name<-name, let name<-char, catcode of 2 chars x 3 codes, setVerbatimCatcodes, newif setter}; '
        'well-nested continuations are expanded, badly nested pops are explored one step and closed; dedup by canonical '
        '(model, implementation frames dump); (b) programs = all balanced nestings up to a depth of 7 grouping constructs with '
        'a local def, a global def, a let, a catcode change and a switch setter at every level and probes after every close. '
        'Non-trivial: a history with at least one pop / a program with at least one group.')
ASSUMPTIONS = [
    'model: textbook lexical scope stack (innermost frame that holds the name wins; global definitions go to frame 0)',
    '\\newif setters are global (as the property statement says), \\newcommand inside groups is outside the alphabet',
]

NAMES = ('zzx', 'zzy')
CHARS = ('@', '!')
CODES = (11, 12, 13)
WATCH = ('@', '!', 'a', '\\', '%', '{', '~', ' ')      # characters whose category is compared in every frame

DEFAULT_CAT = {'\\': 0, '{': 1, '}': 2, '$': 3, '&': 4, '\n': 5, '#': 6, '^': 7, '_': 8, '\x00': 9,
               ' ': 10, '\t': 10, '\r': 10, '\x0c': 10, '~': 13, '%': 14}
LETTERS = 'abcdefghijklmnopqrstuvwxyzABCDEFGHIJKLMNOPQRSTUVWXYZ'


def default_code(c):
    if c in LETTERS:
        return 11
    return DEFAULT_CAT.get(c, 12)


# ---------------------------------------------------------------------------
# reference model
# ---------------------------------------------------------------------------
class MFrame(object):
    def __init__(self, obj, table):
        self.obj = obj          # None | ('env', i, serial)
        self.defs = {}
        self.lets = {}
        self.table = table      # shared dict object: char -> code overrides ; 'V' key marks verbatim

    def code(self, c):
        if 'V' in self.table:
            t = self.table
            if c in t:
                return t[c]
            return 11 if c in LETTERS else 12
        return self.table.get(c, default_code(c))


class Model(object):
    def __init__(self):
        self.frames = [MFrame(None, {})]
        self.switch = False
        self.serial = 0
        self.frames[0].defs['ifzzq'] = 'newif'

    def lookup(self, name):
        for f in reversed(self.frames):
            if name in f.defs:
                return f.defs[name]
        return None

    def getlet(self, name):
        for f in reversed(self.frames):
            if name in f.lets:
                return f.lets[name]
        return None

    def top(self):
        return self.frames[-1]

    def apply(self, ev, k):
        kind = ev[0]
        if kind == 'push':
            self.frames.append(MFrame(None, self.top().table))
        elif kind == 'pushenv':
            self.serial += 1
            f = MFrame(('env', ev[1], self.serial), self.top().table)
            if ev[1] == 1:
                f.defs['zzL'] = 'envlocal'
            self.frames.append(f)
        elif kind in ('pop', 'popenv', 'popend'):
            self.frames.pop()       # only issued when well nested
        elif kind == 'def':
            (self.top() if ev[2] == 'local' else self.frames[0]).defs[ev[1]] = 'v%d' % k
        elif kind == 'let':
            self.top().defs[ev[1]] = self.lookup(ev[2])
        elif kind == 'letchar':
            self.top().lets[ev[1]] = ev[2]
        elif kind == 'catcode':
            t = dict(self.top().table)
            t[ev[1]] = ev[2]
            self.top().table = t
        elif kind == 'verbatim':
            self.top().table = {'V': 1}
        elif kind == 'switch':
            self.switch = ev[1]
        else:
            raise ValueError(ev)

    def enabled(self):
        """(well-nested events, badly nested pops)"""
        good = [('push',), ('pushenv', 0), ('pushenv', 1)]
        bad = []
        top = self.top()
        if len(self.frames) > 1:
            if top.obj is None:
                good.append(('pop',))
                envs = [f.obj for f in self.frames if f.obj]
                if envs:
                    bad.append(('popenv', len(self.frames) - 1 - max(i for i, f in enumerate(self.frames) if f.obj)))
            else:
                good.append(('popenv',))
                good.append(('popend',))
                bad.append(('pop',))
        for n in NAMES:
            good.append(('def', n, 'local'))
            good.append(('def', n, 'global'))
        for a, b in ((NAMES[0], NAMES[1]), (NAMES[1], NAMES[0])):
            if self.lookup(b) is not None:
                good.append(('let', a, b))
        good.append(('letchar', NAMES[0], 'c'))
        good.append(('letchar', NAMES[0], 'd'))
        good.append(('letchar', NAMES[1], 'e'))     # a second alias name: aliases of different names in different frames
        for c in CHARS:
            for code in CODES:
                if top.code(c) != code:
                    good.append(('catcode', c, code))
        if 'V' not in top.table:
            good.append(('verbatim',))
        good.append(('switch', not self.switch))
        return good, bad

    def dump(self):
        """canonical, history-independent description: value ids renamed by first occurrence; table sharing partition"""
        ren = {}

        def r(v):
            if v is None or not str(v).startswith('v'):
                return v
            if v not in ren:
                ren[v] = 'd%d' % len(ren)
            return ren[v]
        frames = []
        tabs = []
        for f in self.frames:
            tid = None
            for i, t in enumerate(tabs):
                if t is f.table:
                    tid = i
            if tid is None:
                tabs.append(f.table)
                tid = len(tabs) - 1
            frames.append((None if f.obj is None else ('env', f.obj[1]),
                           tuple(sorted((n, r(v)) for n, v in f.defs.items())),
                           tuple(sorted(f.lets.items())), tid, tuple(f.code(c) for c in WATCH)))
        return (tuple(frames), self.switch)


# ---------------------------------------------------------------------------
# the real thing
# ---------------------------------------------------------------------------
_ENV = None


def env_classes():
    global _ENV
    if _ENV is None:
        import plasTeX

        class zzenva(plasTeX.Environment):
            pass

        class zzenvb(plasTeX.Environment):
            class zzL(plasTeX.Command):
                pass
        _ENV = (zzenva, zzenvb)
    return _ENV


class Impl(object):
    def __init__(self):
        from plasTeX.Context import Context
        self.ctx = Context()
        self.ctx.newif('ifzzq')
        self.envstack = []

    def apply(self, ev, k):
        from plasTeX.Tokenizer import EscapeSequence, Other
        ctx = self.ctx
        kind = ev[0]
        if kind == 'push':
            ctx.push()
        elif kind == 'pushenv':
            o = env_classes()[ev[1]]()
            self.envstack.append(o)
            ctx.push(o)
        elif kind == 'pop':
            ctx.pop()
        elif kind == 'popenv':
            depth_from_top = ev[1] if len(ev) > 1 else None
            o = self.envstack.pop()
            ctx.pop(o)
        elif kind == 'popend':
            o = self.envstack.pop()
            e = type(o)()
            e.macroMode = e.MODE_END
            ctx.pop(e)
        elif kind == 'def':
            ctx.newdef(ev[1], '', 'v%d' % k, local=(ev[2] == 'local'))
        elif kind == 'let':
            ctx.let(EscapeSequence(ev[1]), EscapeSequence(ev[2]))
        elif kind == 'letchar':
            ctx.let(EscapeSequence(ev[1]), Other(ev[2]))
        elif kind == 'catcode':
            ctx.catcode(ev[1], ev[2])
        elif kind == 'verbatim':
            ctx.setVerbatimCatcodes()
        elif kind == 'switch':
            cls = ctx['ifzzq']
            (cls.setTrue if ev[1] else cls.setFalse)()
        else:
            raise ValueError(ev)

    @staticmethod
    def _vid(cls):
        import plasTeX
        if cls is None:
            return None
        if isinstance(cls, type) and issubclass(cls, plasTeX.NewIf):
            return 'newif'
        d = getattr(cls, 'definition', None)
        if d is not None:
            return ''.join(str(t) for t in d)
        if isinstance(cls, type) and cls.__name__ == 'zzL':
            return 'envlocal'
        return 'other:%s' % getattr(cls, '__name__', cls)

    def dump(self):
        from plasTeX.Tokenizer import EscapeSequence
        ctx = self.ctx
        ren = {}

        def r(v):
            if v is None or not str(v).startswith('v'):
                return v
            if v not in ren:
                ren[v] = 'd%d' % len(ren)
            return ren[v]
        frames = []
        tabs = []
        saved = ctx.categories
        for f in ctx.contexts:
            tid = None
            for i, t in enumerate(tabs):
                if t is f.categories:
                    tid = i
            if tid is None:
                tabs.append(f.categories)
                tid = len(tabs) - 1
            ctx.categories = f.categories
            codes = tuple(int(ctx.whichCode(c)) for c in WATCH)
            obj = None
            if f.obj is not None:
                obj = ('env', 0 if type(f.obj).__name__ == 'zzenva' else 1)
            local = []
            for n in dict.keys(f):
                if n in NAMES or n in ('zzL', 'ifzzq'):
                    local.append((n, r(self._vid(dict.__getitem__(f, n)))))
            frames.append((obj, tuple(sorted(local)), tuple(sorted((k, str(v)) for k, v in f.lets.items())), tid, codes))
        ctx.categories = saved
        sw = bool(ctx['ifzzq'].state)
        return (tuple(frames), sw)

    def views(self):
        """what a user of the API sees at the top: lookups through the public interface"""
        from plasTeX.Tokenizer import EscapeSequence
        ctx = self.ctx
        out = []
        for n in NAMES + ('zzL',):
            out.append(self._vid(ctx[n]) if n in ctx else None)
        for n in NAMES:
            t = ctx.get_let(EscapeSequence(n))
            out.append(str(t) if not isinstance(t, EscapeSequence) else None)
        out.append(tuple(int(ctx.whichCode(c)) for c in WATCH))
        out.append(ctx.depth)
        out.append(len(ctx.contexts))
        out.append(ctx.top is ctx.contexts[-1])
        out.append(ctx.categories is ctx.contexts[-1].categories)
        return out


def model_views(m):
    out = []
    for n in NAMES + ('zzL',):
        out.append(m.lookup(n))
    for n in NAMES:
        out.append(m.getlet(n))
    out.append(tuple(m.top().code(c) for c in WATCH))
    out.append(len(m.frames))
    out.append(len(m.frames))
    out.append(True)
    out.append(True)
    return out


def _canon_views(v):
    ren = {}
    out = []
    for x in v:
        if isinstance(x, str) and x.startswith('v') and x[1:].isdigit():
            if x not in ren:
                ren[x] = 'd%d' % len(ren)
            x = ren[x]
        out.append(x)
    return out


def replay_history(hist, check_every=True):
    """Run a history on fresh real objects and on the model.
    -> (status, model, impl, info)  status 'ok' | 'violation'"""
    m = Model()
    im = Impl()
    for k, ev in enumerate(hist):
        ev = tuple(ev)
        m.apply(ev, k)
        try:
            im.apply(ev, k)
        except Exception as e:
            return 'violation', m, im, {'step': k, 'event': ev, 'expected': 'no exception',
                                        'observed': '%s: %s' % (type(e).__name__, e)}
        if check_every or k == len(hist) - 1:
            try:
                a, b = m.dump(), im.dump()
                va, vb = _canon_views(model_views(m)), _canon_views(im.views())
            except Exception as e:
                return 'violation', m, im, {'step': k, 'event': ev, 'expected': 'observable state',
                                            'observed': '%s: %s' % (type(e).__name__, e)}
            if a != b or va != vb:
                return 'violation', m, im, {'step': k, 'event': ev, 'expected': [a, va], 'observed': [b, vb]}
    return 'ok', m, im, None


def close_badly_nested(hist, bad_ev):
    """Apply a badly nested pop on the real context, then close everything; judged only on: no exception,
    final depth 1, nothing local visible, global definitions intact."""
    st, m, im, info = replay_history(hist, check_every=False)
    if st != 'ok':
        return st, info
    ctx = im.ctx
    try:
        if bad_ev[0] == 'pop':
            ctx.pop()
        else:
            # pop an environment that is not on top: take the innermost environment object
            o = im.envstack[-1]
            ctx.pop(o)
        guard = 0
        while len(ctx.contexts) > 1 and guard < 50:
            ctx.pop()
            guard += 1
    except Exception as e:
        return 'violation', {'event': bad_ev, 'expected': 'no exception', 'observed': '%s: %s' % (type(e).__name__, e)}
    g = m.frames[0]
    exp = [g.defs.get(n) for n in NAMES] + [None, 1, tuple(g.code(c) for c in WATCH)]
    from plasTeX.Tokenizer import EscapeSequence
    t = ctx.get_let(EscapeSequence(NAMES[0]))
    glet = g.lets.get(NAMES[0])
    obs = [Impl._vid(ctx[n]) if n in ctx else None for n in NAMES] + \
          [None if (isinstance(t, EscapeSequence) or str(t) == glet) else str(t), len(ctx.contexts),
           tuple(int(ctx.whichCode(c)) for c in WATCH)]
    if _canon_views(exp) != _canon_views(obs) or ctx.depth != 1:
        return 'violation', {'event': bad_ev, 'expected': exp, 'observed': obs + [ctx.depth]}
    return 'ok', None


def expand_chunk(hists):
    rep = core.Report()
    children = []
    if not hists:
        st, m, im, info = replay_history(())
        children.append(((), core.h64((m.dump(), im.dump()))))
        return rep, children
    for h in hists:
        st, m, im, info = replay_history(h, check_every=False)
        rep.traces += 1
        if st != 'ok':
            rep.error('parent history no longer replays: %r %r' % (h, info))
            continue
        good, bad = m.enabled()
        for ev in good:
            h2 = tuple(h) + (ev,)
            # observed after every step: a lookup is an event too (it may fill a cache that a later definition must invalidate)
            st2, m2, im2, info2 = replay_history(h2, check_every=True)
            rep.traces += 1
            npops = sum(1 for e in h2 if e[0].startswith('pop'))
            if st2 != 'ok':
                rep.case(key=h2, nontrivial=True, outcome=('viol', repr(info2.get('observed'))[:80]))
                rep.violation({'kind': 'api', 'history': [list(e) for e in h2]}, info2.get('expected'),
                              info2.get('observed'), 'step %s event %s' % (info2.get('step'), info2.get('event'),))
                continue
            d = m2.dump()
            rep.case(key=h2, nontrivial=npops > 0, outcome=d)
            rep.count('ev_' + ev[0])
            if npops >= 2 and len(h2) >= 5:
                rep.sample({'history': [list(e) for e in h2]})
            children.append((h2, core.h64((d, im2.dump()))))
        for ev in bad:
            st3, info3 = close_badly_nested(h, ev)
            rep.traces += 1
            rep.case(key=(tuple(h), 'bad', ev), nontrivial=True, outcome=('bad', st3))
            rep.count('badly_nested_pop')
            if st3 != 'ok':
                rep.violation({'kind': 'api_bad', 'history': [list(e) for e in h], 'bad': list(ev)},
                              info3.get('expected'), info3.get('observed'), 'badly nested pop %s' % (ev,))
    return rep, children


# ---------------------------------------------------------------------------
# (b) programs
# ---------------------------------------------------------------------------
CONSTRUCTS = {
    'brace': ('{', '}'),
    'bgroup': ('\\begingroup ', '\\endgroup '),
    'center': ('\\begin{center}', '\\end{center}'),
    'math': ('$', '$'),
    'textbf': ('\\textbf{', '}'),
    'cell': ('\\begin{tabular}{ll}', '&q\\\\ r&s\\end{tabular}'),
    'item': ('\\begin{itemize}\\item ', '\\end{itemize}'),
    # a box holding a closed inner box and a complete inline formula before its own content (only meaningful in math)
    'boxmix': ('\\mbox{b \\textbf{c} $f$ ', '}'),
    # the LAST cell of a row: its group is closed by the row end; the probe sits in the first cell of the next row
    'lastcell': ('\\begin{tabular}{ll}u&', None),
    # user-defined environments: begin-code that expands to nothing, begin/end code with text, an empty argument
    'uenv0': ('\\begin{zzenvE}', '\\end{zzenvE}'),
    'uenv1': ('\\begin{zzenvT}', '\\end{zzenvT}'),
    'uenvA': ('\\begin{zzenvA}{}', '\\end{zzenvA}'),
}
# declarations that are environments used in command form: they leave a frame open that the end of the enclosing
# environment (whose class is their base class) has to close as well
DECL_CONSTRUCTS = {
    'centerdecl': ('\\begin{center}\\centering ', '\\end{center}'),
    'flushldecl': ('\\begin{flushleft}\\raggedright ', '\\end{flushleft}'),
    'quotedecl': ('\\begin{quote}\\centering ', '\\end{quote}'),
    'bracedecl2': ('{\\large\\bfseries ', '}'),          # two declarations in a row inside a group
    'bracedecl0': ('{x\\itshape ', '}'),
}
TEXT_OPEN = {'boxmix': 'bcf', 'lastcell': 'u', 'uenv1': 'eb', 'bracedecl0': 'x'}
TEXT_CLOSE = {'uenv1': 'ee'}
# inside math only these may nest (text constructs in math are not well-formed LaTeX)
CONSTRUCTS.update(DECL_CONSTRUCTS)
IN_MATH = ('brace', 'bgroup', 'boxmix')


def decl_chains():
    out = []
    for c in DECL_CONSTRUCTS:
        out.append((c,))
        for x in ('brace', 'cell', 'item', 'center', 'uenv0'):
            out.append((c, x))
            out.append((x, c))
        for c2 in DECL_CONSTRUCTS:
            out.append((c, c2))
    return out


def nestings(depth):
    """all chains of constructs of length 1..depth (a chain = one construct inside the previous one) and all
    two-sibling sequences at the top level"""
    names = [n for n in CONSTRUCTS if n not in DECL_CONSTRUCTS]
    out = []
    for d in range(1, depth + 1):
        for chain in itertools.product(names, repeat=d):
            ok = True
            mode = 'text'
            for i, c in enumerate(chain):
                # inside a formula only braces, \begingroup and the box construct may follow (a second $ would close the
                # formula, not nest in it); the box construct switches back to text
                if mode == 'math' and c not in IN_MATH:
                    ok = False
                if c == 'math':
                    mode = 'math'
                elif c == 'boxmix':
                    mode = 'text'
                if c == 'boxmix' and (i == 0 or chain[i - 1] != 'math'):
                    ok = False      # only directly inside a formula
                if 'cell' in chain[:i] and c in ('cell',):
                    pass
            if ok:
                out.append(chain)
    return out


def level_actions(mask, lvl):
    """text emitted at nesting level lvl (1-based) for the action subset `mask`"""
    s = ''
    if mask & 1:
        s += '\\def\\zzA{L%d}' % lvl
    if mask & 2:
        s += '\\gdef\\zzB{G%d}' % lvl
    if mask & 4:
        s += '\\let\\zzC=\\zzK%s ' % 'ab'[lvl % 2]
    if mask & 8:
        s += '\\catcode`\\@=11\\relax ' if lvl % 2 else '\\makeatletter '
    if mask & 16:
        s += '\\zzqtrue ' if lvl % 2 else '\\zzqfalse '
    return s


PROBE = 'p\\zzA\\zzB\\zzC\\zz@ x\\ifzzq T\\else F\\fi.'
PRE_B = ('\\def\\zzA{A0}\\def\\zzB{B0}\\def\\zzKa{Ka}\\def\\zzKb{Kb}\\def\\zzC{C0}\\def\\zz{Z}\\newif\\ifzzq '
         '\\makeatletter\\def\\zz@{W}\\makeatother '
         '\\newenvironment{zzenvE}{}{}\\newenvironment{zzenvT}{eb}{ee}\\newenvironment{zzenvA}[1]{#1}{}')


def program_b(chain, masks, in_math_ok=True):
    """chain of constructs; masks[i] = action subset at level i+1; probe after actions at each level and after each close"""
    src = PRE_B + PROBE
    exp = []

    # model: lexical scope
    st = {'A': 'A0', 'B': 'B0', 'C': 'C0', 'at': False, 'q': False}

    def probe_text(s):
        return 'p' + s['A'] + s['B'] + s['C'] + ('W' if s['at'] else 'Z@') + 'x' + ('T' if s['q'] else 'F') + '.'
    exp.append(probe_text(st))
    stack = []
    body = ''
    for i, c in enumerate(chain):
        lvl = i + 1
        stack.append(dict(st))
        m = masks[i]
        body += CONSTRUCTS[c][0] + level_actions(m, lvl)
        if m & 1:
            st['A'] = 'L%d' % lvl
        if m & 2:
            st['B'] = 'G%d' % lvl
            for s in stack:
                s['B'] = 'G%d' % lvl
        if m & 4:
            st['C'] = 'K' + 'ab'[lvl % 2]
        if m & 8 and 'textbf' not in chain[:i + 1] and 'boxmix' not in chain[:i + 1]:
            # a category change inside a macro argument cannot affect text that was tokenized when the
            # argument was read (TeX's rule as well): under \textbf{...} it is invisible
            st['at'] = True
        if m & 16:
            st['q'] = bool(lvl % 2)
            for s in stack:
                s['q'] = bool(lvl % 2)
        body += PROBE
        exp.append(TEXT_OPEN.get(c, '') + probe_text(st))
    for i in reversed(range(len(chain))):
        c = chain[i]
        st = stack.pop()
        if c == 'cell':
            # the next cell of the same row starts from the state outside the first cell
            body += '&' + PROBE + '\\\\ r&s\\end{tabular}'
            exp.append(probe_text(st) + 'rs')
        elif c == 'lastcell':
            # the first cell of the next row starts from the state outside the table as well
            body += '\\\\ ' + PROBE + '&s\\end{tabular}'
            exp.append(probe_text(st) + 's')
        else:
            body += CONSTRUCTS[c][1]
        body += PROBE
        exp.append(TEXT_CLOSE.get(c, '') + probe_text(st))
    return src + body, ''.join(exp)


FRAMES = [   # (source, expected text): empty arguments of macros that parse without a push/pop of their own must not
             # leave a frame behind in which later definitions get lost
    ('\\documentclass[]{article}\\def\\zzA{A}\\begin{document}x\\zzA y\\end{document}', 'xAy'),
    ('\\documentclass{article}\\usepackage[]{ifthen}\\def\\zzA{A}\\begin{document}x\\zzA y\\end{document}', 'xAy'),
    ('\\def\\zzA{A}\\ifx{}{}s\\else d\\fi\\def\\zzB{B}{\\zzA\\zzB}\\zzA\\zzB', 'sABAB'),
    ('\\documentclass[]{article}\\begin{document}\\section{}\\textbf{}\\def\\zzA{A}{\\zzA}\\zzA\\end{document}', 'AA'),
    # the character directly after the control word that closes a group is read with the table of the outer group
    ('\\def\\zzA{A}\\begingroup\\catcode`\\%=12\\relax a\\endgroup% c\n\\zzA', 'aA'),
    ('\\def\\zzA{A}\\begingroup\\catcode`\\~=12\\relax a\\endgroup~\\zzA', 'aA'),
    ('\\def\\zzA{A}\\bgroup\\catcode`\\%=12\\relax a\\egroup% c\n\\zzA', 'aA'),
    ('\\def\\zzA{A}\\begingroup\\catcode`\\@=11\\relax\\def\\zz@{W}\\endgroup\\zz@\\zzA', '@A'),
    # definitions local to an environment: inside eqnarray / align, \\\\ is the row end that steps the equation counter -- also when
    # an environment of the base class (eqnarray*) was used before it (the innermost live definition wins)
    ('\\documentclass{article}\\begin{document}\\begin{eqnarray*}a&=&b\\end{eqnarray*}\\begin{eqnarray}c&=&d\\\\ e&=&f\\end{eqnarray}'
     '\\arabic{equation}\\end{document}', 'a=bc=de=f2'),
    ('\\documentclass{article}\\usepackage{amsmath}\\begin{document}\\begin{eqnarray*}a&=&b\\end{eqnarray*}\\begin{align}c&=d\\\\ e&=f'
     '\\end{align}\\arabic{equation}\\end{document}', 'a=bc=de=f2'),
    ('\\documentclass{article}\\begin{document}\\begin{eqnarray}c&=&d\\\\ e&=&f\\end{eqnarray}\\begin{eqnarray*}a&=&b\\\\ g&=&h\\end{eqnarray*}'
     '\\arabic{equation}\\end{document}', 'c=de=fa=bg=h2'),
]


def run_block_frames(block):
    rep = core.Report()
    for src, exp in FRAMES:
        obs = observe_b(src)
        want = {'text': exp, 'depth': 1}
        rep.case(key=('frames', src), nontrivial=True, outcome=(obs.get('text'), obs.get('depth')))
        rep.count('argument_frames')
        if obs != want:
            rep.violation({'kind': 'frames', 'src': src, 'text': exp}, want, obs, 'source: ' + src)
    return rep.close_block()


def observe_b(src):
    from plasTeX.TeX import TeX
    state.reset()
    try:
        with core.time_limit(10.0):
            tex = TeX()
            tex.ownerDocument.context.warnOnUnrecognized = False
            tex.input(src)
            doc = tex.parse()
            return {'text': ''.join(doc.textContent.split()), 'depth': len(doc.context.contexts)}
    except core.Timeout:
        return {'error': 'timeout'}
    except Exception as e:
        return {'error': '%s: %s' % (type(e).__name__, str(e)[:80])}


def judge_b(chain, masks):
    src, exp = program_b(chain, masks)
    obs = observe_b(src)
    expd = {'text': exp, 'depth': 1}
    return ('ok' if obs == expd else 'violation'), expd, obs, src


def run_block_b(block):
    chains, maskset = block
    rep = core.Report()
    for chain in chains:
        for masks in itertools.product(maskset, repeat=len(chain)):
            v, exp, obs, src = judge_b(chain, masks)
            rep.case(key=(chain, masks), nontrivial=True, outcome=(obs.get('text'), obs.get('error')))
            rep.count('prog_' + chain[0])
            if v != 'ok':
                rep.violation({'kind': 'program', 'chain': list(chain), 'masks': list(masks)}, exp, obs, 'source: ' + src)
            elif len(chain) >= 2:
                rep.sample({'program': src})
    return rep.close_block()


# ---------------------------------------------------------------------------
def replay(case):
    if case['kind'] == 'api':
        st, m, im, info = replay_history([tuple(e) for e in case['history']])
        if st == 'ok':
            return {'verdict': 'ok', 'expected': None, 'observed': None, 'detail': ''}
        return {'verdict': 'violation', 'expected': info.get('expected'), 'observed': info.get('observed'),
                'detail': 'step %s event %s' % (info.get('step'), info.get('event'))}
    if case['kind'] == 'frames':
        obs = observe_b(case['src'])
        want = {'text': case['text'], 'depth': 1}
        return {'verdict': 'ok' if obs == want else 'violation', 'expected': want, 'observed': obs, 'detail': case['src']}
    if case['kind'] == 'api_bad':
        st, info = close_badly_nested([tuple(e) for e in case['history']], tuple(case['bad']))
        if st == 'ok':
            return {'verdict': 'ok', 'expected': None, 'observed': None, 'detail': ''}
        return {'verdict': 'violation', 'expected': info.get('expected'), 'observed': info.get('observed'),
                'detail': 'badly nested pop'}
    v, exp, obs, src = judge_b(tuple(case['chain']), tuple(case['masks']))
    return {'verdict': v, 'expected': exp, 'observed': obs, 'detail': 'source: ' + src}


def run(tier, seed, rep):
    state.pristine()
    env_classes()
    quick = tier == 'quick'
    depth = 5 if quick else 6       # depth 7 is about 7 million states (the space grows by a factor of 8.5 per level): hours
    info = core.bfs(expand_chunk, depth, rep, chunk=32, state_cap=(400000 if quick else 6000000))
    # (b)
    pdepth = 3 if quick else 4
    chains = nestings(pdepth)
    maskset = (0, 1 | 8, 2 | 16, 1 | 2 | 4 | 8 | 16) if quick else (0, 1, 2, 4 | 8, 16, 1 | 2 | 4 | 8 | 16)
    if not quick:
        # depth 4 with the reduced mask set, depth <= 3 with the larger one
        blocks = [([c], maskset) for c in chains if len(c) <= 3] + \
                 [([c], (0, 1 | 8, 2 | 16, 31)) for c in chains if len(c) == 4]
    else:
        blocks = [([c], maskset) for c in chains]
    blocks += [([c], (0, 1 | 8, 2 | 16, 4, 31)) for c in decl_chains()]
    # frames that hold only an alias and/or a category change (no definition of their own)
    blocks += [([c], (0, 4, 8, 12)) for c in chains if len(c) <= (2 if quick else 3)]
    blocks = core.rotate(blocks, seed)
    core.merge_all(run_block_b, blocks, rep, chunksize=4)
    rep.merge(run_block_frames(None))
    return {'exhaustive': not info['capped'], 'bounds': {'api_history_depth': info['depth_completed'],
                                                         'api_levels': info['levels'], 'capped': info['capped'],
                                                         'program_nesting_depth': pdepth, 'constructs': list(CONSTRUCTS),
                                                         'action_masks': list(maskset)},
            'floors': {'evaluations': 10000, 'badly_nested_pop': 100}}
