"""
C05 -- Arguments are delimited, typed and bound as the macro's signature declares; numeric literals denote TeX's values.
Engine E1: (a) every signature of 1..3 arguments over (delimiter x type) [4..6 over a reduced alphabet] x every conforming
call; (b) every numeric literal of a small grammar x every following token, on the real scanners.
"""
import itertools
from fractions import Fraction
from vp import core, state

ID = 'C05'
LEVEL = 'exploration'
RULE = ('(a) signatures = optional leading * + 1..3 arguments, each (delimiter in {none,[],(),<>}) x (type in untyped,str,int,'
        'float,dimen,list,list(;),dict,Tok,nox,cs, element-typed list:int, list(-):int, dict:int, list:dimen, list:str), 4..6 arguments over 4 kinds; calls = every combination of value spellings '
        '(nested groups/brackets, bracket hidden in braces, leading blank), optional present/absent, star present/absent; '
        'oracle from the generator: bound values, absent -> None, argSource, untouched tail, balanced enable counter. '
        '(b) literals = sign runs x integer forms (decimal, octal, hex, char code, register, macro digits) / decimal forms x '
        'optional blank x optional true x 9 absolute units (+ex/em linearity, fil orders after plus/minus, register multiples) x '
        'next token in {\\relax, blank+x, x, {, end}. Non-trivial: at least one argument bound / non-zero value. '
        'distinct = distinct (signature, call) or (scanner, literal, next).')
ASSUMPTIONS = [
    'dimension values are compared with the exact rational value in sp with tolerance < 1 sp (TeX resolution); ex/em only for linearity',
    'text values are compared by textContent; unexpanded (nox/Tok/cs) values by their token source without blanks',
    '\\value{c} is treated as digit text (plasTeX design), so it is not followed by a blank in the alphabet',
]

TYPES = ['', 'str', 'int', 'float', 'dimen', 'list', 'list(;)', 'dict', 'Tok', 'nox', 'cs',
         'list:int', 'list(-):int', 'dict:int', 'list:dimen', 'list:str']
SUBTYPED = ('list:int', 'list(-):int', 'dict:int', 'list:dimen', 'list:str')    # element type after a second colon
DELIMS = ['', '[]', '()', '<>']
PT = 65536


def kinds(full=True):
    out = []
    for d in DELIMS:
        for t in TYPES:
            if d and t in ('Tok', 'cs'):
                continue
            if t in SUBTYPED and d not in ('', '[]'):
                continue
            out.append((d, t))
    return out


REDUCED3 = [('', ''), ('', 'str'), ('', 'int'), ('', 'dimen'), ('', 'list'), ('', 'Tok'),
            ('[]', ''), ('[]', 'str'), ('[]', 'int'), ('[]', 'dict'), ('()', ''), ('<>', 'str')]
REDUCED4 = [('[]', ''), ('()', 'str'), ('', ''), ('', 'int')]


def values(delim, typ):
    """[(spelling inside the call, expected canonical value)]"""
    if not delim:
        m = {
            '': [('a', 'a'), ('{ab}', 'ab'), ('{a{b}c}', 'abc'), (' {p{}q}', 'pq')],
            'str': [('{ab}', 'ab'), ('{a{b}c}', 'abc')],
            'int': [('{42}', 42), ('{-7}', -7), ('{"1F}', 31)],
            'float': [('{1.5}', 1.5), ('{-2}', -2.0), ('{-.5}', -0.5), ('{--,25}', 0.25), ('{-"1F}', -31.0), ("{+-'17}", -15.0),
                      ('{---`a}', -97.0)],
            'dimen': [('{2pt}', Fraction(2 * PT)), ('{1in}', Fraction(7227, 100) * PT)],
            'list': [('{a,b}', ['a', 'b']), ('{a,{b,c},d}', ['a', 'b,c', 'd'])],
            'list(;)': [('{a;b}', ['a', 'b']), ('{a,b;{c;d}}', ['a,b', 'c;d'])],
            'dict': [('{x=1,y=2}', {'x': '1', 'y': '2'}), ('{x={a,b},z}', {'x': 'a,b', 'z': True}),
                     ('{x=,y,w=0}', {'x': '', 'y': True, 'w': '0'})],
            'list:int': [('{2,3}', [2, 3]), ('{"A, \'17,-4}', [10, 15, -4])],
            'list(-):int': [('{2-3}', [2, 3]), ('{12-"C}', [12, 12])],
            'dict:int': [('{x=1,y=-2}', {'x': 1, 'y': -2}), ('{k="1F}', {'k': 31}), ('{x=0,y=-0}', {'x': 0, 'y': 0})],
            'list:dimen': [('{1pt,2in}', [Fraction(PT), Fraction(7227, 50) * PT])],
            'list:str': [('{a,{b,c},d}', ['a', 'b,c', 'd'])],
            'Tok': [('\\foo ', '\\foo'), ('a', 'a')],
            'nox': [('{a\\zzu b}', 'a\\zzub')],
            'cs': [('\\foo ', '\\foo')],
        }
        return m[typ]
    o, c = delim[0], delim[1]
    # the control symbol spelled like the opening delimiter (\[ \( : a formula inside the argument) is not a delimiter
    sym = [('a\\%sx\\%sc' % (o, c), 'axc')] if o in '[(' else []
    m = {
        '': [('ab', 'ab'), ('a%sb%sc' % (o, c), 'a%sb%sc' % (o, c)), ('a{%s}b' % c, 'a%sb' % c), ('{%s}' % o, o)] + sym,
        'str': [('ab', 'ab'), ('a%sb%sc' % (o, c), 'a%sb%sc' % (o, c))],
        'int': [('42', 42), ('-7', -7)],
        'float': [('1.5', 1.5), ('-.5', -0.5), ('-"A', -10.0)],
        'dimen': [('2pt', Fraction(2 * PT))],
        'list': [('a,b', ['a', 'b']), ('a,{b%s},c' % c, ['a', 'b' + c, 'c'])],
        'list(;)': [('a;b', ['a', 'b'])],
        'dict': [('x=1,y=2', {'x': '1', 'y': '2'}), ('x={%s},z' % o, {'x': o, 'z': True})],
        'nox': [('a\\zzu b', 'a\\zzub')],
        'list:int': [('2,3', [2, 3]), ('-7', [-7])],
        'list(-):int': [('2-3', [2, 3])],
        'dict:int': [('x=1,y=-2', {'x': 1, 'y': -2})],
        'list:dimen': [('1pt,2in', [Fraction(PT), Fraction(7227, 50) * PT])],
        'list:str': [('a,{b%s},c' % c, ['a', 'b' + c, 'c'])],
    }
    return [(o + s + c, v) for s, v in m[typ]]


def sig_string(star, args):
    parts = ['*'] if star else []
    for i, (d, t) in enumerate(args):
        name = 'abcdef'[i] + (':' + t if t else '')
        parts.append('%s %s %s' % (d[0], name, d[1]) if d else name)
    return ' '.join(parts)


def calls(star, args, maxvals):
    """all conforming calls: (call string, expected attribute dict)"""
    per = []
    for i, (d, t) in enumerate(args):
        vs = values(d, t)[:maxvals]
        opts = [(s, v) for s, v in vs]
        if d:
            opts.append(('', None))
        per.append(opts)
    stars = [('*', '*'), ('', None)] if star else [(None, None)]
    for st, stv in stars:
        for combo in itertools.product(*per):
            # an absent optional directly followed by a present one with the same delimiter is not conforming
            bad = False
            for i in range(len(args) - 1):
                if args[i][0] and combo[i][0] == '':
                    j = i + 1
                    while j < len(args) and combo[j][0] == '' and args[j][0]:
                        j += 1
                    if j < len(args) and args[j][0] == args[i][0] and combo[j][0] != '':
                        bad = True
                    # an absent optional followed by a mandatory value that starts with its opening character
                    if j < len(args) and not args[j][0] and combo[j][0].lstrip().startswith(args[i][0][0]):
                        bad = True
            if bad:
                continue
            call = (st or '') + ''.join(s for s, v in combo)
            exp = {}
            if star:
                exp['*modifier*'] = stv
            for i, (s, v) in enumerate(combo):
                exp['abcdef'[i]] = v
            yield call, exp


def canon(v):
    """observed attribute value -> comparable canonical form"""
    import plasTeX
    from plasTeX.Tokenizer import Token
    if v is None or v is True:
        return v
    if isinstance(v, plasTeX.dimen):
        return ('dimen', float(v))
    if isinstance(v, bool):
        return v
    if isinstance(v, int):
        return int(v)
    if isinstance(v, float):
        return float(v)
    if isinstance(v, Token):
        return ('tok', (v.source if hasattr(v, 'source') else str(v)).replace(' ', ''))
    if isinstance(v, str):
        return str(v)
    if isinstance(v, dict):
        return {str(canon_text(k)): canon_elem(x) for k, x in v.items()}
    if isinstance(v, list):
        if v and all(isinstance(x, Token) for x in v):
            return ('toks', ''.join(x.source for x in v).replace(' ', ''))
        return [canon_elem(x) for x in v]
    if hasattr(v, 'textContent'):
        return v.textContent
    return repr(v)


def canon_elem(x):
    """element of a list / dictionary value: numbers and dimensions keep their type, everything else is text"""
    import plasTeX
    if isinstance(x, plasTeX.dimen):
        return ('dimen', float(x))
    if isinstance(x, bool) or x is None:
        return x
    if isinstance(x, int):
        return int(x)
    if isinstance(x, float):
        return float(x)
    return canon_text(x)


def canon_text(x):
    if x is True or x is None:
        return x
    if isinstance(x, str):
        return str(x)
    if hasattr(x, 'textContent'):
        return x.textContent
    return str(x)


def matches(exp, obs, typ):
    if exp is None:
        return obs is None
    if typ in ('Tok', 'cs'):
        return obs == ('tok', exp)
    if typ == 'nox':
        return obs == ('toks', exp)
    if typ == 'dimen':
        return isinstance(obs, tuple) and obs[0] == 'dimen' and abs(Fraction(obs[1]) - exp) < 1
    if typ == 'list:dimen':
        return (isinstance(obs, list) and len(obs) == len(exp) and
                all(isinstance(o, tuple) and o[0] == 'dimen' and abs(Fraction(o[1]) - e) < 1 for o, e in zip(obs, exp)))
    if typ in ('list:int', 'list(-):int'):
        return isinstance(obs, list) and obs == exp and all(type(o) is int for o in obs)
    if typ == 'dict:int':
        return isinstance(obs, dict) and obs == exp and all(type(o) is int for o in obs.values())
    if typ == 'float':
        # the statement speaks of the value: a non-decimal literal ("A, '17, `a) comes back as an integer object
        return isinstance(obs, (int, float)) and not isinstance(obs, bool) and obs == exp
    if typ == 'int':
        return isinstance(obs, int) and not isinstance(obs, bool) and obs == exp
    return obs == exp


TAIL = '!tail'


def run_call(sig, call):
    from plasTeX.TeX import TeX
    from plasTeX import Command, ParameterCommand
    state.reset()
    tex = TeX()
    ctx = tex.ownerDocument.context
    ctx.warnOnUnrecognized = False
    ctx.addGlobal('zzm', type('zzm', (Command,), {'args': sig}))
    tex.input('\\zzm' + (' ' if call[:1].isalpha() else '') + call + TAIL)
    doc = tex.parse()
    nodes = doc.getElementsByTagName('zzm')
    n = nodes[0]
    attrs = {k: canon(v) for k, v in n.attributes.items()}
    return attrs, n.argSource, doc.textContent, ParameterCommand._enablelevel, len(ctx.contexts), len(nodes)


def judge_sig(star, args, call, exp):
    sig = sig_string(star, args)
    try:
        with core.time_limit(10):
            attrs, argsrc, text, lvl, depth, nn = run_call(sig, call)
    except core.Timeout:
        return 'violation', 'timeout', sig
    except Exception as e:
        return 'violation', 'raises %s: %s' % (type(e).__name__, str(e)[:100]), sig
    problems = []
    types = {'abcdef'[i]: t for i, (d, t) in enumerate(args)}
    types['*modifier*'] = 'star'
    for k, v in exp.items():
        o = attrs.get(k, '<missing>')
        if k == '*modifier*':
            ok = (o is None) if v is None else (o == ('tok', '*') or o == '*')
        else:
            ok = matches(v, o, types[k])
        if not ok:
            problems.append('%s: expected %r got %r' % (k, v, o))
    if set(attrs) != set(exp):
        problems.append('attribute names %r != %r' % (sorted(attrs), sorted(exp)))
    if text != TAIL:
        problems.append('tail %r != %r' % (text, TAIL))
    norm = lambda x: ''.join(x.split()).replace('\\(', '$').replace('\\)', '$')     # \(..\) is written back as $..$
    if norm(argsrc) != norm(call):
        problems.append('argSource %r != call %r' % (argsrc, call))
    if lvl != 0:
        problems.append('ParameterCommand._enablelevel = %d after the call' % lvl)
    if depth != 1:
        problems.append('context depth %d' % depth)
    if problems:
        return 'violation', '; '.join(problems), sig
    return 'ok', repr(sorted(attrs.items())), sig


def run_block_sig(block):
    star, arglists, maxvals = block
    rep = core.Report()
    for args in arglists:
        args = tuple(tuple(a) for a in args)
        for call, exp in calls(star, args, maxvals):
            v, info, sig = judge_sig(star, args, call, exp)
            rep.case(key=(sig, call), nontrivial=any(x is not None for x in exp.values()), outcome=info)
            rep.count('nargs_%d' % len(args))
            case = {'kind': 'sig', 'star': star, 'args': [list(a) for a in args], 'call': call}
            if v == 'ok':
                if len(args) >= 2:
                    rep.sample({'signature': sig, 'call': '\\zzm' + call + TAIL})
                continue
            fid = classify_sig(args, call, info)
            if fid:
                rep.known_finding(fid, case, info)
            else:
                rep.violation(case, exp, info, 'signature %r call %r' % (sig, call))
    return rep.close_block()


def classify_sig(args, call, info):
    return None


# ---------------------------------------------------------------------------
# (b) numeric scanners
# ---------------------------------------------------------------------------
SIGNS = ['', '-', '+', '--', '-+', '- -', '+-+', '---', ' - ']
NEXTS = [('\\relax ', '\\relax '), (' x', 'x'), ('x', 'x'), ('{', '{'), ('', '')]


def sign_value(s):
    return -1 if s.count('-') % 2 else 1


INT_FORMS = [  # (spelling, value, kind)
    ('0', 0, 'const'), ('7', 7, 'const'), ('42', 42, 'const'), ('65536', 65536, 'const'), ('007', 7, 'const'),
    ("'17", 15, 'const'), ("'0", 0, 'const'), ('"1F', 31, 'const'), ('"A', 10, 'const'), ('"10', 16, 'const'),
    ('`a', 97, 'const'), ('`\\%', 37, 'const'), ('`\\a', 97, 'const'),
    ('\\zzr', 5, 'reg'), ('\\value{zzc}', 3, 'digits'), ('\\zzn', 12, 'digits'),
]
UNITS = {'pt': Fraction(PT), 'pc': Fraction(12 * PT), 'in': Fraction(7227, 100) * PT, 'bp': Fraction(7227, 7200) * PT,
         'cm': Fraction(7227, 254) * PT, 'mm': Fraction(7227, 2540) * PT, 'dd': Fraction(1238, 1157) * PT,
         'cc': Fraction(14856, 1157) * PT, 'sp': Fraction(1)}
DECIMALS = [('1', Fraction(1)), ('1.5', Fraction(3, 2)), ('.5', Fraction(1, 2)), ('1.', Fraction(1)), ('1,5', Fraction(3, 2)),
            ('0', Fraction(0)), ('12.25', Fraction(49, 4))]


def setup_tex(src):
    from plasTeX.TeX import TeX
    state.reset()
    tex = TeX()
    ctx = tex.ownerDocument.context
    ctx.warnOnUnrecognized = False
    ctx.newcount('zzr', 5)
    ctx.newcounter('zzc', initial=3)
    ctx.newdef('zzn', '', '12')
    import plasTeX
    ctx.newdimen('zzd', plasTeX.dimen('3pt'))
    tex.input(src)
    return tex


def rest_of(tex):
    out = []
    for t in tex.itertokens():
        out.append(t.source if hasattr(t, 'source') else str(t))
    return ''.join(out)


def scan(kind, src):
    from plasTeX import ParameterCommand
    with core.time_limit(10):
        tex = setup_tex(src)
        if kind == 'int':
            v = tex.readInteger()
            val = int(v)
        elif kind == 'decimal':
            val = float(tex.readDecimal())
        elif kind == 'dimen':
            v = tex.readDimen()
            val = float(v)
        elif kind == 'glue':
            v = tex.readGlue()
            val = (float(v), None if v.stretch is None else float(v.stretch),
                   None if v.shrink is None else float(v.shrink))
        rest = rest_of(tex)
        return val, rest, ParameterCommand._enablelevel


DOCS = [   # whole-document cases for argument types only reachable through built-in macros: (source, expected text)
    ('\\openout\\zzf=abc !tail', '!tail'), ('\\openout\\zzf abc !tail', '!tail'),
    ('a\\hskip 2pt b', 'ab'), ('a\\vskip-1.5cm b', 'ab'), ('\\count255=7 x\\the\\count255', None),
    ('\\newcount\\zzq \\zzq=`a x', 'x'), ('\\newdimen\\zzq \\zzq=2\\zzd x', 'x'), ('\\newskip\\zzq \\zzq=1pt plus 2fil x', 'x'),
    ('\\catcode`\\@=11\\relax \\def\\zz@a{k}\\zz@a', 'k'), ('\\char`\\%x', '%x'), ('\\chardef\\zzq=`\\& \\zzq x', '&x'),
]


def numeric_cases(part, quick):
    """yield (kind, source, expected value, expected rest)"""
    if part == 'doc':
        for src, text in DOCS:
            if text is not None:
                yield 'doc', src, text, ''
    elif part == 'int':
        for sg in SIGNS:
            for sp, val, k in INT_FORMS:
                for nx, rest in NEXTS:
                    if k == 'digits' and sp.startswith('\\value') and nx == ' x':
                        continue
                    if k in ('reg', 'digits') and sp.startswith('\\zz') and nx == 'x':
                        nxs = ' x'           # a control word must be separated from a letter
                    else:
                        nxs = nx
                    if sp in ('`\\a',) and nx == 'x':
                        nxs = ' x'
                    yield 'int', sg + sp + nxs, sign_value(sg) * val, rest
    elif part == 'decimal':
        for sg in SIGNS:
            for ds, dv in DECIMALS + [('.25', Fraction(1, 4)), (',75', Fraction(3, 4))]:
                for nx, rest in NEXTS:
                    if nx == ' x':
                        continue    # who absorbs a blank after a bare decimal factor is decided by the caller (unit scan)
                    yield 'decimal', sg + ds + nx, sign_value(sg) * dv, rest
    elif part == 'dimen':
        for sg in SIGNS[:5] if quick else SIGNS:
            for ds, dv in DECIMALS:
                for blank in ('', ' '):
                    for tr in ('', 'true', 'true '):
                        for u, f in UNITS.items():
                            for nx, rest in NEXTS:
                                if nx == 'x' and True:
                                    # "ptx": the unit keyword ends at the unit, x must remain
                                    pass
                                yield 'dimen', sg + ds + blank + tr + u + nx, sign_value(sg) * dv * f, rest
        # keywords are recognised regardless of case (TeX's scan_keyword)
        for ds, dv in DECIMALS[:2]:
            for u, f in UNITS.items():
                for spell in (u.upper(), u[0].upper() + u[1:], u[0] + u[1:].upper()):
                    for tr in ('', 'TRUE', ' True '):
                        for nx, rest in NEXTS[:3]:
                            yield 'dimen', ds + tr + spell + nx, dv * f, rest
        # register multiples and internal dimensions
        for sg in SIGNS[:4]:
            for nx, rest in NEXTS:
                nxs = ' x' if nx == 'x' else nx
                yield 'dimen', sg + '\\zzd' + nxs, sign_value(sg) * 3 * PT, rest
                yield 'dimen', sg + '2\\zzd' + nxs, sign_value(sg) * 6 * PT, rest
                yield 'dimen', sg + '1.5\\zzd' + nxs, sign_value(sg) * Fraction(9, 2) * PT, rest
                # a blank between the factor and the register (TeX: <factor><optional spaces><internal dimen>)
                yield 'dimen', sg + '2 \\zzd' + nxs, sign_value(sg) * 6 * PT, rest
                yield 'dimen', sg + '1.5 \\zzd' + nxs, sign_value(sg) * Fraction(9, 2) * PT, rest
                yield 'dimen', sg + '"10 \\zzd' + nxs, sign_value(sg) * 48 * PT, rest
                yield 'dimen', sg + '2 \\zzr' + nxs, sign_value(sg) * 2 * 5, rest
    elif part == 'glue':
        FIL = {'fil': 2e9, 'fill': 4e9, 'filll': 6e9}
        comps = [('', None), (' plus 2pt', Fraction(2 * PT)), ('plus1fil', ('fil', 1)), (' plus 2fill', ('fill', 2)),
                 (' plus 1.5filll', ('filll', Fraction(3, 2))), (' plus -1fil', ('fil', -1))]
        shr = [('', None), (' minus 3pt', Fraction(3 * PT)), (' minus 1fil', ('fil', 1)), ('minus2cm', 2 * UNITS['cm'])]
        for ps, pv, ms, mv in ((' PLUS 2pt', Fraction(2 * PT), ' MINUS 3PT', Fraction(3 * PT)), ('Plus1FIL', ('fil', 1), ' Minus 1Fill', ('fill', 1)),
                               (' plus 1FILLL', ('filll', 1), '', None)):
            for nx, rest in NEXTS:
                yield 'glue', '1pt' + ps + ms + nx, (Fraction(PT), pv, mv), rest
        for sg in ('', '-', '+-'):
            for ds, dv in DECIMALS[:3]:
                for u in ('pt', 'in', 'sp'):
                    for ps, pv in comps:
                        for ms, mv in shr:
                            for nx, rest in NEXTS:
                                yield 'glue', sg + ds + u + ps + ms + nx, (sign_value(sg) * dv * UNITS[u], pv, mv), rest


def fil_value(v):
    if v is None or isinstance(v, Fraction) or isinstance(v, int):
        return v
    order, amount = v
    base = {'fil': 2e9, 'fill': 4e9, 'filll': 6e9}[order]
    return ('fil', order, amount)


def close(a, b):
    return abs(Fraction(a) - Fraction(b)) < 1


def num_matches(kind, exp, obs):
    if kind in ('int', 'doc'):
        return obs == exp
    if kind == 'decimal':
        return obs == float(exp)
    if kind == 'dimen':
        return close(obs, exp)
    nat, st, sh = obs
    en, es, em = exp
    if not close(nat, en):
        return False
    for o, e in ((st, es), (sh, em)):
        if e is None:
            if o is not None:
                return False
        elif isinstance(e, tuple):
            order, amount = e
            base = {'fil': 2e9, 'fill': 4e9, 'filll': 6e9}[order]
            if o is None:
                return False
            # plasTeX encodes fil orders by adding 2e9/4e9/6e9 to the amount (documented representation)
            want = float(amount) + base if amount >= 0 else float(amount) - base
            if abs(o - want) > 1e-6:
                return False
        else:
            if o is None or not close(o, e):
                return False
    return True


def scan_doc(src):
    from plasTeX import ParameterCommand
    with core.time_limit(10):
        tex = setup_tex(src)
        doc = tex.parse()
        return ''.join(doc.textContent.split()), '', ParameterCommand._enablelevel


def judge_num(kind, src, exp, rest):
    try:
        val, obs_rest, lvl = scan_doc(src) if kind == 'doc' else scan(kind, src)
    except core.Timeout:
        return 'violation', 'timeout'
    except Exception as e:
        return 'violation', 'raises %s: %s' % (type(e).__name__, str(e)[:100])
    problems = []
    if not num_matches(kind, exp, val):
        problems.append('value %r, expected %s' % (val, exp if kind != 'dimen' else float(exp)))
    if obs_rest != rest:
        problems.append('rest of input %r, expected %r' % (obs_rest, rest))
    if lvl != 0:
        problems.append('ParameterCommand._enablelevel = %d afterwards' % lvl)
    if problems:
        return 'violation', '; '.join(problems)
    return 'ok', repr(val)


def classify_num(kind, src, info):
    return None


def run_block_num(block):
    part, quick, shard, nshards = block
    rep = core.Report()
    for i, (kind, src, exp, rest) in enumerate(numeric_cases(part, quick)):
        if i % nshards != shard:
            continue
        v, info = judge_num(kind, src, exp, rest)
        rep.case(key=(kind, src), nontrivial=(exp != 0), outcome=info)
        rep.count('scan_' + kind)
        case = {'kind': 'num', 'scanner': kind, 'src': src, 'value': repr(exp), 'rest': rest}
        if v == 'ok':
            if i % 97 == 0:
                rep.sample({'scanner': kind, 'source': src, 'value': info})
            continue
        fid = classify_num(kind, src, info)
        if fid:
            rep.known_finding(fid, case, info)
        else:
            rep.violation(case, {'value': repr(exp), 'rest': rest}, info, '%s scanner on %r' % (kind, src))
    return rep.close_block()


URLCASES = [   # (signature, call, expected attribute texts): the url type reads its argument with # ~ % & as other characters
    ('[ u:url ] b', '{A% note\nB}', {'u': None, 'b': 'AB'}),
    ('[ u:url ] b', '[x%y~z]{A% note\nB}', {'u': 'x%y~z', 'b': 'AB'}),
    ('[ u:url ] b c', '{A}{C% n\nD}', {'u': None, 'b': 'A', 'c': 'CD'}),
    ('u:url b', '{p#q&r}{A% note\nB}', {'u': 'p#q&r', 'b': 'AB'}),
    ('* [ u:url ] b', '*{A% note\nB}', {'*modifier*': '*', 'u': None, 'b': 'AB'}),
]


MIDSTAR = [   # (signature, call, expected attributes): a star modifier in the middle of a signature, blanks before the star
    ('a * b', '{x}*{y}', {'a': 'x', '*modifier*': '*', 'b': 'y'}),
    ('a * b', '{x} *{y}', {'a': 'x', '*modifier*': '*', 'b': 'y'}),
    ('a * b', '{x}\n*{y}', {'a': 'x', '*modifier*': '*', 'b': 'y'}),
    ('a * b', '{x}{y}', {'a': 'x', '*modifier*': None, 'b': 'y'}),
    ('a * b', '{x} {y}', {'a': 'x', '*modifier*': None, 'b': 'y'}),
    ('a * [ b ] c', '{x} * [o]{y}', {'a': 'x', '*modifier*': '*', 'b': 'o', 'c': 'y'}),
    ('a * [ b ] c', '{x} [o]{y}', {'a': 'x', '*modifier*': None, 'b': 'o', 'c': 'y'}),
    ('a:int * b', '{7} *{y}', {'a': 7, '*modifier*': '*', 'b': 'y'}),
]


def run_block_midstar(block):
    rep = core.Report()
    for sig, call, exp in MIDSTAR:
        try:
            with core.time_limit(10):
                attrs, argsrc, text, lvl, depth, nn = run_call(sig, call)
        except Exception as e:
            attrs, text, lvl, depth = {'raises': '%s: %s' % (type(e).__name__, str(e)[:80])}, '', 0, 1
        got = {k: (v[1] if isinstance(v, tuple) and v[0] == 'tok' else v) for k, v in attrs.items()}
        rep.case(key=('midstar', sig, call), nontrivial=True, outcome=repr(sorted(got.items(), key=repr)))
        rep.count('mid_signature_star')
        if got != exp or text != TAIL or lvl != 0 or depth != 1:
            rep.violation({'kind': 'midstar', 'sig': sig, 'call': call, 'exp': exp}, exp,
                          'attributes %r, following text %r, enable level %r, depth %r' % (got, text, lvl, depth),
                          'signature %r call %r' % (sig, call))
    return rep.close_block()


def run_block_url(block):
    rep = core.Report()
    for sig, call, exp in URLCASES:
        try:
            with core.time_limit(10):
                attrs, argsrc, text, lvl, depth, nn = run_call(sig, call)
        except Exception as e:
            attrs, text, lvl, depth = {'error': '%s: %s' % (type(e).__name__, e)}, None, None, None
        obs = {}
        for k, v in attrs.items():
            if isinstance(v, tuple) and v and v[0] in ('tok', 'toks'):
                v = v[1]
            if isinstance(v, list):
                v = ''.join(str(x) for x in v)
            obs[k] = v
        ok = obs == exp and text == TAIL and lvl == 0 and depth == 1
        rep.case(key=('url', sig, call), nontrivial=True, outcome=repr(sorted(obs.items(), key=repr)))
        rep.count('url_typed')
        if not ok:
            rep.violation({'kind': 'url', 'sig': sig, 'call': call}, exp, {'attrs': obs, 'tail': text, 'level': lvl, 'depth': depth},
                          'signature %r call %r' % (sig, call))
    return rep.close_block()


def run_block(block):
    if block[0] == 'url':
        return run_block_url(block)
    if block[0] == 'midstar':
        return run_block_midstar(block)
    if block[0] == 'sig':
        return run_block_sig(block[1:])
    return run_block_num(block[1:])


def replay(case):
    if case['kind'] == 'midstar':
        r = run_block_midstar(('midstar',))
        for v in r.violations:
            if v['case']['sig'] == case['sig'] and v['case']['call'] == case['call']:
                return {'verdict': 'violation', 'expected': v['expected'], 'observed': v['observed'], 'detail': v['detail']}
        return {'verdict': 'ok', 'expected': None, 'observed': None, 'detail': ''}
    if case['kind'] == 'url':
        r = run_block_url(('url',))
        for v in r.violations:
            if v['case']['sig'] == case['sig'] and v['case']['call'] == case['call']:
                return {'verdict': 'violation', 'expected': v['expected'], 'observed': v['observed'], 'detail': v['detail']}
        return {'verdict': 'ok', 'expected': None, 'observed': None, 'detail': ''}
    if case['kind'] == 'sig':
        args = tuple(tuple(a) for a in case['args'])
        for call, exp in calls(case['star'], args, 99):
            if call == case['call']:
                v, info, sig = judge_sig(case['star'], args, call, exp)
                fid = classify_sig(args, call, info) if v != 'ok' else None
                if fid:
                    return {'verdict': 'known', 'fid': fid, 'expected': core.jsonable(exp), 'observed': info, 'detail': sig}
                return {'verdict': v, 'expected': repr(exp), 'observed': info, 'detail': 'signature %r' % sig}
        return {'verdict': 'ok', 'expected': None, 'observed': None, 'detail': 'call no longer generated'}
    for part in ('int', 'dimen', 'glue', 'doc', 'decimal'):
        if part != case['scanner']:
            continue
        for kind, src, exp, rest in numeric_cases(part, False):
            if src == case['src']:
                v, info = judge_num(kind, src, exp, rest)
                fid = classify_num(kind, src, info) if v != 'ok' else None
                if fid:
                    return {'verdict': 'known', 'fid': fid, 'expected': repr(exp), 'observed': info, 'detail': src}
                return {'verdict': v, 'expected': {'value': repr(exp), 'rest': rest}, 'observed': info, 'detail': src}
    return {'verdict': 'ok', 'expected': None, 'observed': None, 'detail': 'literal no longer generated'}


def run(tier, seed, rep):
    state.pristine()
    quick = tier == 'quick'
    K = kinds()
    blocks = []
    for star in (False, True):
        blocks.append(('sig', star, [[k] for k in K], 9))
        for k1 in K:
            blocks.append(('sig', star, [[k1, k2] for k2 in K], 9 if not star else 2))
    if quick:
        for k1 in REDUCED3:
            blocks.append(('sig', False, [[k1, k2, k3] for k2 in REDUCED3 for k3 in REDUCED3], 1))
        blocks.append(('sig', True, [list(c) for c in itertools.product(REDUCED4, repeat=4)], 1))
    else:
        for k1 in K:
            for k2 in K:
                blocks.append(('sig', False, [[k1, k2, k3] for k3 in K], 2))
        for n in (4, 5, 6):
            combos = [list(c) for c in itertools.product(REDUCED4, repeat=n)]
            for ch in core.chunks(combos, 64):
                blocks.append(('sig', bool(n % 2), ch, 1))
    NS = 8
    for part in ('int', 'dimen', 'glue'):
        for i in range(NS):
            blocks.append(('num', part, quick, i, NS))
    blocks.append(('num', 'decimal', quick, 0, 1))
    blocks.append(('url',))
    blocks.append(('midstar',))
    blocks.append(('num', 'doc', quick, 0, 1))
    blocks = core.rotate(blocks, seed)
    core.merge_all(run_block, blocks, rep)
    return {'exhaustive': True,
            'bounds': {'signature_args_exhaustive': 2 if quick else 3, 'reduced_3': len(REDUCED3) if quick else None,
                       'reduced_4_6': '4 kinds' if not quick else '4 args', 'kinds': len(K), 'blocks': len(blocks)},
            'floors': {'evaluations': 20000, 'scan_int': 500, 'scan_dimen': 2000, 'scan_glue': 1000}}
