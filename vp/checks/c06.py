"""
C06 -- The document tree stays a consistent tree under any sequence of DOM edits.

Engine E2: breadth-first search over edit histories on small node pools.  A state is the history
that reaches it; every transition replays the history on FRESH plasTeX.DOM objects, applies one
more editing call, and compares the complete pointer graph with the list-of-lists reference model
(vp/refs/dom_tree_c06.py) stepped with the same event.  Every distinct state additionally gets its
derived views (first/last child, sibling navigation, textContent, getElementsByTagName, allChildNodes,
compareDocumentPosition) compared with the model.  States are merged on a canonical key = model dump
+ full dump of the implementation's pointers (children, parentNode incl. stale ones, ownerDocument,
attribute maps, whether the child list has been materialised).
"""
import contextlib, itertools, operator, resource, signal
from vp import core
from vp.refs import dom_tree_c06 as M
from vp.refs.dom_tree_c06 import D, E, T, F, NA

ID = 'C06'
LEVEL = 'model_checking'
RULE = ('per scenario (a fixed small node pool + a menu of editing calls): all histories up to the depth bound, '
        'breadth-first; the events offered in a state are every call of the menu on every container of the pool with '
        'every legal argument (a detached element/text node, or a fragment none of whose children is listed by an '
        'element/document and none by the target itself; never an ancestor of the target) and every index form of the menu; a history is extended '
        'only from states whose pointer graph equals the strict model (a deviating step is a leaf); states are merged '
        'on the canonical key (model dump + full implementation pointer dump) and the lexicographically smallest '
        'history represents a state.  evaluations = transitions executed on real objects + per-state view checks; a '
        'transition is non-trivial when it changes the key or raises; distinct = distinct (scenario, history); '
        'outcomes = distinct successor keys / view vectors')
ASSUMPTIONS = [
    'oracle is the hand-written list-of-lists model vp/refs/dom_tree_c06.py; fragments are transparent collections '
    '(plasTeX does not empty a fragment on insertion): a node listed by an element/document must name it as parent',
    'parentNode of nodes that no element/document lists (removed nodes, fresh clones, children of free or '
    'attribute-held fragments, fragments themselves) is treated as hidden state: part of the key, not judged',
    'compareDocumentPosition is judged for ordered pairs of distinct non-fragment nodes of the same tree with '
    'plasTeX\'s single-flag convention; pairs from different trees are not judged (stale pointers of detached roots)',
    'getElementsByTagName searches attribute-held fragments before the children (documented plasTeX extension)',
    'normalize may replace a single text node by a new equal one (node identity of text is not part of the statement)',
    'arguments are restricted as the statement says (detached node or unspent fragment); an element whose child list is '
    'its "self" attribute fragment (scenario selfattr) is set up through setAttribute before its child list is touched, '
    'and that fragment is edited only through its element; cloning the Document is outside the alphabet; "random '
    'sequences up to length 40" is replaced by exhaustive exploration at the stated depth',
    'per-call limits count CPU time of the worker (ITIMER_VIRTUAL), not wall time; a call that does not return within '
    'the limit is a violation',
]

TAGS = ('p', 'q')
TLIMIT = 2.0          # CPU seconds per real call group; an endless parent walk also grows a list
MEMLIMIT = 6 << 30    # address-space cap of every worker (a blow-up must fail fast)


def _vtalarm(signum, frame):
    raise core.Timeout('case exceeded its CPU time limit')


@contextlib.contextmanager
def cpu_limit(seconds):
    """Like core.time_limit but counts the CPU time of this process (ITIMER_VIRTUAL): an endless loop is still
    caught, while a worker that is merely descheduled on a loaded machine is not reported as a timeout."""
    old = signal.signal(signal.SIGVTALRM, _vtalarm)
    signal.setitimer(signal.ITIMER_VIRTUAL, seconds)
    try:
        yield
    finally:
        signal.setitimer(signal.ITIMER_VIRTUAL, 0)
        signal.signal(signal.SIGVTALRM, old)


def _rlimit():
    try:
        soft, hard = resource.getrlimit(resource.RLIMIT_AS)
        if soft == resource.RLIM_INFINITY or soft > MEMLIMIT:
            resource.setrlimit(resource.RLIMIT_AS, (MEMLIMIT, hard))
    except Exception:
        pass


# ---------------------------------------------------------------------------------------------
# scenarios
# ---------------------------------------------------------------------------------------------
ALL_INS = ('append', 'insert', 'before', 'after', 'replace', 'setitem', 'setslice', 'extend', 'iadd', 'extendf',
           'setattr')
ALL_DEL = ('remove', 'pop', 'pop0')


class Scenario(object):
    """pool: (kind, tag/text) per node id; setup: events that build the initial state; ops: the menu;
    targets/args: initial-pool ids allowed as target / argument (None = all; nodes created later are always allowed);
    max_nodes: cloneNode is offered only while the pool is smaller than this"""

    def __init__(self, name, pool, setup, ops, depth, targets=None, args=None, max_nodes=0):
        self.name, self.pool, self.setup, self.ops = name, pool, setup, frozenset(ops)
        self.depth, self.targets, self.args, self.max_nodes = depth, targets, args, max_nodes


SCENARIOS = {}


def _scn(*a, **k):
    s = Scenario(*a, **k)
    SCENARIOS[s.name] = s


# node ids are positions in `pool`
# lists : document, 3 elements, 2 text nodes, all detached; every insertion / removal form on every container
_scn('lists',
     pool=[(D, None), (E, 'p'), (E, 'q'), (E, 'p'), (T, 'x'), (T, 'y')],
     setup=[], ops=ALL_INS + ALL_DEL, depth={'quick': 4, 'thorough': 6})
# frags : element A(0), B(1), text(2), fragment F(3)=[element 4, text 5], empty fragment G(6); targets A, F, G;
#         arguments B, text, F, G (fragment insertion by every form, fragment into fragment, setAttribute)
_scn('frags',
     pool=[(E, 'p'), (E, 'q'), (T, 'x'), (F, None), (E, 'p'), (T, 'y'), (F, None)],
     setup=[('append', 3, 4, NA), ('append', 3, 5, NA)],
     ops=ALL_INS + ALL_DEL, depth={'quick': 4, 'thorough': 5}, targets=(0, 3, 6), args=(1, 2, 3, 6))
# clone : document, element, element 2 carrying attribute arg = fragment 3 = [element 4], 2 text nodes;
#         append / insert(0) / removeChild / pop / normalize / cloneNode(False|True) / setAttribute
_scn('clone',
     pool=[(D, None), (E, 'p'), (E, 'q'), (F, None), (E, 'p'), (T, 'x'), (T, 'y')],
     setup=[('append', 3, 4, NA), ('setattr', 2, 3, NA)],
     ops=('append', 'insert0', 'remove', 'pop', 'normalize', 'clone', 'setattr'),
     depth={'quick': 3, 'thorough': 4}, max_nodes=14)
# clone5: the same menu without insert(0)/pop on a 5-node pool, one level deeper
_scn('clone5',
     pool=[(E, 'p'), (E, 'q'), (F, None), (E, 'p'), (T, 'x')],
     setup=[('append', 2, 3, NA), ('setattr', 1, 2, NA)],
     ops=('append', 'remove', 'normalize', 'clone', 'setattr'),
     depth={'quick': 4, 'thorough': 5}, max_nodes=8)
# selfattr: element 1 whose attribute 'self' = fragment 2 is its child list (plasTeX's textbf{..} layout), document,
#         element, 2 texts; the fragment is edited only through its element
_scn('selfattr',
     pool=[(D, None), (E, 'p'), (F, None), (E, 'q'), (T, 'x'), (T, 'y')],
     setup=[('setself', 1, 2, NA)],
     ops=('append', 'insert0', 'remove', 'pop', 'normalize', 'clone'),
     depth={'quick': 3, 'thorough': 4}, max_nodes=12)
# full  : the pool of DESIGN.md (document, 3 elements, 2 texts, fragment 5 = [element 6, text 7], element 8 with
#         attribute arg = fragment 9 = [element 10]) with the complete menu
_scn('full',
     pool=[(D, None), (E, 'p'), (E, 'q'), (T, 'x'), (T, 'y'), (F, None), (E, 'p'), (T, 'z'), (E, 'q'), (F, None),
           (E, 'p')],
     setup=[('append', 5, 6, NA), ('append', 5, 7, NA), ('append', 9, 10, NA), ('setattr', 8, 9, NA)],
     ops=ALL_INS + ALL_DEL + ('normalize', 'clone'), depth={'quick': 2, 'thorough': 3}, max_nodes=24)


def index_forms(L):
    """insert positions: 0, middle, len, len+1 and -1"""
    s = [0, L, L + 1, -1]
    if L >= 2:
        s.append(L // 2)
    return sorted(set(s))


def gen_events(r, scn):
    """All events of the scenario's menu that are legal in the strict model state r."""
    kind, kids = r.kind, r.kids
    n = len(kind)
    lst, tp, hold = r.listers(), r.tree_parent(), r.attr_holder()
    selfheld = set(a['self'] for a in r.attrs if a and 'self' in a)     # edited only through their element
    ops = scn.ops
    args = []
    for x in range(n):
        if scn.args is not None and x < len(scn.pool) and x not in scn.args:
            continue
        if kind[x] in (E, T):
            if x not in lst and x not in hold:
                args.append(x)
        elif kind[x] == F:
            if x not in selfheld and all(c not in tp for c in kids[x]):
                args.append(x)
    evs = []
    for t in range(n):
        if kind[t] == T or t in selfheld:
            continue
        if scn.targets is not None and t < len(scn.pool) and t not in scn.targets:
            continue
        k = kids[t]
        L = len(k)
        up = None
        refs = [] if not L else ([k[0]] if L == 1 else [k[0], k[-1]])
        for x in args:
            if up is None:
                up = r.upclosure(t)
            if x in up:
                continue
            isf = kind[x] == F
            if isf and L and any(c in k for c in kids[x]):
                continue            # the target already lists a child of the fragment: no list may hold a node twice
            if 'append' in ops:
                evs.append(('append', t, x, NA))
            if 'insert' in ops:
                for i in index_forms(L):
                    evs.append(('insert', t, x, i))
            if 'insert0' in ops:
                evs.append(('insert', t, x, 0))
            for ref in refs:
                if 'before' in ops:
                    evs.append(('before', t, x, ref))
                if 'after' in ops:
                    evs.append(('after', t, x, ref))
                if 'replace' in ops:
                    evs.append(('replace', t, x, ref))
            if 'setitem' in ops:
                for i in sorted(set([0, L - 1, -1]) if L else [0, -1]):
                    evs.append(('setitem', t, x, i))
            if 'setslice' in ops:
                evs.append(('setslice', t, x, 1 if isf else 0))
            if 'extend' in ops:
                evs.append(('extend', t, x, NA))
            if 'iadd' in ops:
                evs.append(('iadd', t, x, NA))
            if isf and 'extendf' in ops:
                evs.append(('extendf', t, x, NA))
            if isf and 'setattr' in ops and kind[t] == E and x not in hold:
                evs.append(('setattr', t, x, NA))
        if 'remove' in ops:
            for c in refs:
                evs.append(('remove', t, NA, c))
        if 'pop' in ops:
            evs.append(('pop', t, NA, NA))
        if 'pop0' in ops and L:
            evs.append(('pop0', t, NA, NA))
        if 'normalize' in ops:
            evs.append(('normalize', t, NA, NA))
    if 'clone' in ops:
        for x in range(n):
            if kind[x] != D and n < scn.max_nodes:
                evs.append(('clone', x, NA, 0))
                evs.append(('clone', x, NA, 1))
    return evs


# ---------------------------------------------------------------------------------------------
# the real objects
# ---------------------------------------------------------------------------------------------
_NORET = object()


def child_list(o):
    """(children, materialised?) without touching the object: the cached list, else -- as Node.childNodes documents --
    the 'self' attribute fragment, else nothing"""
    ch = getattr(o, '_dom_childNodes', None)
    if ch is not None:
        return list(ch), True
    a = getattr(o, '_dom_attributes', None)
    if a and a.get('self') is not None:
        return list(a['self']), False
    return [], False


class Impl(object):
    def __init__(self, scn):
        from plasTeX.DOM import Document
        self.doc = None
        self.nodes = []
        self.ids = {}
        doc = Document()
        for kind, name in scn.pool:
            if kind == D:
                o = doc
            elif kind == E:
                o = doc.createElement(name)
            elif kind == T:
                o = doc.createTextNode(name)
            else:
                o = doc.createDocumentFragment()
            self.reg(o)
        self.doc = doc
        for ev in scn.setup:
            self.apply(ev)

    def reg(self, o):
        i = self.ids.get(id(o))
        if i is None:
            i = len(self.nodes)
            self.nodes.append(o)
            self.ids[id(o)] = i
        return i

    def scan(self, o, seen=None):
        """register unknown objects below o: node, attribute values, children (creation order of clone / normalize)"""
        if seen is None:
            seen = set()
        if id(o) in seen:
            return
        seen.add(id(o))
        self.reg(o)
        if getattr(o, 'nodeType', None) == 3 or not hasattr(o, 'nodeType'):
            return
        a = getattr(o, '_dom_attributes', None)
        if a:
            for v in a.values():
                self.scan(v, seen)
        for c in child_list(o)[0]:
            self.scan(c, seen)

    def apply(self, ev):
        op, t, x, i = ev
        N = self.nodes
        try:
            ret = _NORET
            extra = ()
            if op == 'append':
                ret = N[t].append(N[x])
            elif op == 'insert':
                ret = N[t].insert(i, N[x])
            elif op == 'before':
                ret = N[t].insertBefore(N[x], N[i])
            elif op == 'after':
                ret = N[t].insertAfter(N[x], N[i])
            elif op == 'replace':
                ret = N[t].replaceChild(N[x], N[i])
            elif op == 'remove':
                ret = N[t].removeChild(N[i])
            elif op == 'pop':
                ret = N[t].pop()
            elif op == 'pop0':
                ret = N[t].pop(0)
            elif op == 'setitem':
                N[t][i] = N[x]
            elif op == 'setslice':
                if i:
                    N[t][0:1] = N[x]
                else:
                    N[t][0:1] = [N[x]]
            elif op == 'extend':
                ret = N[t].extend([N[x]])
            elif op == 'iadd':
                ret = operator.iadd(N[t], [N[x]])
            elif op == 'extendf':
                ret = N[t].extend(N[x])
            elif op == 'setattr':
                N[t].setAttribute('arg', N[x])
            elif op == 'setself':
                N[t].setAttribute('self', N[x])
            elif op == 'normalize':
                N[t].normalize()
                self.scan(N[t])
            elif op == 'clone':
                ret = N[t].cloneNode(bool(i))
                self.scan(ret)
                if i:
                    extra = (bool(ret == N[t]) and bool(N[t] == ret),)
            else:
                raise RuntimeError('unknown op %r' % (op,))
        except core.Timeout:
            raise
        except RuntimeError:
            raise
        except Exception as e:
            return ('raises', type(e).__name__)
        if ret is _NORET:
            ret = NA
        elif ret is not None:
            ret = self.reg(ret)
        return ('ok', ret) + extra

    def observe(self):
        """full pointer dump: kinds, names, child lists, attribute maps, parent pointers, owners, materialised flags"""
        N = self.nodes
        reg = self.reg
        doc = self.doc
        kinds, names, kids, attrs, pars, owners, mats = [], [], [], [], [], [], []
        j = 0
        while j < len(N):
            o = N[j]
            j += 1
            nt = getattr(o, 'nodeType', None)
            kind = {9: D, 1: E, 3: T, 11: F}.get(nt, '?')
            kinds.append(kind)
            if kind == T:
                names.append(str.__str__(o))
                kids.append(None)
                attrs.append(None)
                mats.append(None)
            else:
                names.append(o.nodeName if kind == E else None)
                ch, mat = child_list(o)
                mats.append(mat)
                kids.append([reg(c) for c in ch])
                if kind == E:
                    a = getattr(o, '_dom_attributes', None)
                    attrs.append({key: reg(v) for key, v in a.items()} if a is not None else {})
                else:
                    attrs.append(None)
            p = getattr(o, 'parentNode', _NORET)           # an empty __slots__ entry raises AttributeError
            pars.append(None if p is None else ('unset' if p is _NORET else reg(p)))
            owners.append(getattr(o, 'ownerDocument', None) is doc)
        return {'kind': kinds, 'name': names, 'kids': kids, 'attrs': attrs, 'par': pars, 'owner': owners, 'mat': mats}


def build(scn, history):
    im = Impl(scn)
    for ev in history:
        im.apply(ev)
    return im


def model(scn, history, dev=0):
    r = M.Tree(dev)
    for kind, name in scn.pool:
        r.new(kind, name)
    for ev in scn.setup:
        r.apply(ev)
    for ev in history:
        r.apply(ev)
    return r


# ---------------------------------------------------------------------------------------------
# judging
# ---------------------------------------------------------------------------------------------
def differs(res_i, obs, res_m, r, strict):
    """'' when the implementation's observable pointer graph equals model r, else a short description"""
    if res_i != res_m:
        return 'result %r, model %r' % (res_i, res_m)
    if obs['kind'] != r.kind:
        return 'node pool %r, model %r' % (''.join(obs['kind']), ''.join(r.kind))
    if obs['name'] != r.name:
        return 'node names/text %r, model %r' % (obs['name'], r.name)
    if obs['kids'] != r.kids:
        for n, (a, b) in enumerate(zip(obs['kids'], r.kids)):
            if a != b:
                return 'children of node %d are %r, model %r' % (n, a, b)
    if obs['attrs'] != r.attrs:
        return 'attribute maps %r, model %r' % (obs['attrs'], r.attrs)
    if not all(obs['owner']):
        return 'ownerDocument of node %d is not the creating document' % obs['owner'].index(False)
    tp = r.tree_parent()
    par = obs['par']
    for c, L in tp.items():
        want = r.par[c]
        if strict and want != L:
            raise RuntimeError('model invariant broken: node %d listed by %d carries %r' % (c, L, want))
        if par[c] != want:
            return 'parentNode of node %d (listed by node %d) is %r, model %r' % (c, L, par[c], want)
    return ''


def readable(res, kinds, names, kids, attrs, pars):
    def lab(n):
        if n is None:
            return None
        return '%d:%s' % (n, kinds[n] if kinds[n] in (D, F) else '%s(%s)' % (kinds[n], names[n]))
    out = {'result': list(res) if isinstance(res, tuple) else res, 'children': {}, 'parentNode': {}, 'attributes': {}}
    for n in range(len(kinds)):
        if kids[n]:
            out['children'][lab(n)] = [lab(c) for c in kids[n]]
        if pars[n] is not None:
            out['parentNode'][lab(n)] = lab(pars[n])
        if attrs[n]:
            out['attributes'][lab(n)] = {k: lab(v) for k, v in attrs[n].items()}
    return out


def readable_obs(res, obs):
    return readable(res, obs['kind'], obs['name'], obs['kids'], obs['attrs'], obs['par'])


def readable_model(res, r):
    tp = r.tree_parent()
    pars = [tp.get(n) for n in range(len(r.kind))]
    return readable(res, r.kind, r.name, r.kids, r.attrs, pars)


def subsets(flags):
    for k in range(1, len(flags) + 1):
        for sub in itertools.combinations(flags, k):
            d = 0
            for f in sub:
                d |= f
            yield d, sub


def judge_transition(scn, history, r0=None):
    """Judge the last step of history. -> dict(verdict, fids, key parts ...)"""
    prefix, ev = history[:-1], history[-1]
    if r0 is None:
        r0 = model(scn, prefix)
    im = build(scn, prefix)
    with cpu_limit(TLIMIT):
        try:
            res_i = im.apply(ev)
        except core.Timeout:
            res_i = ('timeout',)
    r = r0.copy()
    res_m = r.apply(ev)
    if res_i == ('timeout',):
        # the call did not return (and may have grown the pool without bound): do not dump the wreck
        return {'verdict': 'violation', 'res': res_i, 'model': r, 'impl': im, 'obs': None,
                'detail': 'the call did not return within %.0f CPU-s' % TLIMIT,
                'expected': readable_model(res_m, r), 'observed': {'result': ['timeout']}}
    obs = im.observe()
    why = differs(res_i, obs, res_m, r, True)
    out = {'obs': obs, 'res': res_i, 'model': r, 'impl': im}
    if not why:
        out['verdict'] = 'ok'
        return out
    for dev, sub in subsets(M.STRUCTURAL):
        rd = r0.copy(dev)
        res_d = rd.apply(ev)
        if not differs(res_i, obs, res_d, rd, False):
            # every switch of the subset must be needed
            out.update(verdict='known', fids=[M.DEV_NAMES[f] for f in sub],
                       detail='strict model: %s; equals the model under %s' % (why, '+'.join(M.DEV_NAMES[f] for f in sub)),
                       expected=readable_model(res_m, r), observed=readable_obs(res_i, obs))
            return out
    out.update(verdict='violation', detail=why, expected=readable_model(res_m, r), observed=readable_obs(res_i, obs))
    return out


def post_checks(scn, ev, im, r):
    """Destructive extra checks on the (disposable) real objects after a strict-ok transition. '' or description."""
    if ev[0] == 'normalize':
        t = im.nodes[ev[1]]
        before = shape_impl(t)
        if before != r.shape(ev[1]):
            return 'shape after normalize %r, model %r' % (before, r.shape(ev[1]))
        t.normalize()
        after = shape_impl(t)
        if after != before:
            return 'normalize is not idempotent: %r then %r' % (before, after)
    return ''


def shape_impl(o):
    nt = o.nodeType
    if nt == 3:
        return str.__str__(o)
    kind = {9: D, 1: E, 11: F}[nt]
    a = getattr(o, '_dom_attributes', None)
    at = tuple((k, shape_impl(v)) for k, v in a.items()) if a else ()
    return (kind, o.nodeName if kind == E else None, at,
            tuple(shape_impl(c) for c in child_list(o)[0]))


# ---- derived views ------------------------------------------------------------------------------
def view_queries(r):
    kind = r.kind
    n = len(kind)
    tp = r.tree_parent()
    lst = r.listers()
    conts = [x for x in range(n) if kind[x] != T]
    nav = [x for x in range(n) if kind[x] != F and (x in tp or x not in lst)]
    root = {}
    for x in range(n):
        if kind[x] == F:
            continue
        y = x
        while y in tp:
            y = tp[y]
        root.setdefault(y, []).append(x)
    pairs = []
    for y, members in sorted(root.items()):
        if kind[y] == F:
            continue
        members = [m for m in members if kind[m] != F]
        for a in members:
            for b in members:
                if a != b:
                    pairs.append((a, b))
    return tp, conts, nav, pairs


def model_views(r, q, dev=0):
    tp, conts, nav, pairs = q
    kids = r.kids
    v = []
    for c in conts:
        k = kids[c]
        v.append((k[0], k[-1]) if k else (None, None))
    for x in nav:
        v.append(r.siblings(x, tp))
    for c in conts:
        v.append(r.text(c))
    for c in conts:
        for tag in TAGS:
            v.append(r.bytag(c, tag, None, bool(dev & M.SELF_LOOKUP_TWICE)))
    for c in conts:
        v.append(r.descendants(c))
    ptr = r.par if dev & M.DETACHED_KEEPS_PARENT else r.clean_pointers(tp)
    algo = 'topmost' if dev & M.COMPARE_TOPMOST_ANCESTOR else ('deepest' if dev & M.DETACHED_KEEPS_PARENT else 'tree')
    for a, b in pairs:
        v.append(r.compare(a, b, ptr, algo))
    return v


def endless(par):
    """nodes whose real parentNode chain never ends (a call that walks it would not return)"""
    bad = set()
    for n in range(len(par)):
        seen = set()
        y = n
        while y is not None and y not in seen:
            seen.add(y)
            y = par[y]
        if y is not None:
            bad.add(n)
    return bad


def impl_views(im, q, par):
    tp, conts, nav, pairs = q
    N = im.nodes
    ids = im.ids
    bad = endless(par)

    def idx(o):
        return None if o is None else ids.get(id(o), '?')

    def guard(f):
        try:
            return f()
        except core.Timeout:
            raise
        except Exception as e:
            return 'raises:%s' % type(e).__name__
    v = []
    for c in conts:
        v.append(guard(lambda: (idx(N[c].firstChild), idx(N[c].lastChild))))
    for x in nav:
        v.append(guard(lambda: (idx(N[x].previousSibling), idx(N[x].nextSibling))))
    for c in conts:
        v.append(guard(lambda: str.__str__(N[c].textContent)))
    for c in conts:
        for tag in TAGS:
            v.append(guard(lambda: [idx(e) for e in N[c].getElementsByTagName(tag)]))
    for c in conts:
        v.append(guard(lambda: [idx(e) for e in N[c].allChildNodes]))
    for a, b in pairs:
        if a in bad or b in bad:
            v.append('cycle')       # the parentNode chain is a cycle: compareDocumentPosition would walk it forever
        else:
            v.append(guard(lambda: N[a].compareDocumentPosition(N[b])))
    return v


def view_labels(q):
    tp, conts, nav, pairs = q
    lab = ['firstChild/lastChild of %d' % c for c in conts]
    lab += ['previousSibling/nextSibling of %d' % x for x in nav]
    lab += ['textContent of %d' % c for c in conts]
    lab += ['getElementsByTagName(%r) on %d' % (tag, c) for c in conts for tag in TAGS]
    lab += ['allChildNodes of %d' % c for c in conts]
    lab += ['%d.compareDocumentPosition(%d)' % p for p in pairs]
    return lab


def judge_state(scn, history, r=None, demo=False):
    if r is None:
        r = model(scn, history)
    im = build(scn, history)
    q = view_queries(r)
    par = im.observe()['par']
    with cpu_limit(TLIMIT):
        try:
            vi = impl_views(im, q, par)
        except core.Timeout:
            vi = ['timeout']
    vm = model_views(r, q)
    out = {'views': vi, 'npairs': len(q[3])}
    if vi == vm:
        out['verdict'] = 'ok'
        return out
    lab = view_labels(q)
    diff = [(lab[k], vm[k], vi[k]) for k in range(min(len(vm), len(vi))) if vm[k] != vi[k]]
    exp = {l: m for l, m, i in diff[:12]}
    got = {l: i for l, m, i in diff[:12]}
    tree = readable_model(None, r)
    tree.pop('result')
    stale = {n: p for n, p in enumerate(par) if p is not None and q[0].get(n) != p and r.kind[n] != F}
    note = ''
    if demo and 'cycle' in vi:
        # replay only: show what the real calls do on a few of the pairs whose parent chain is a cycle
        shown = []
        for (a, b), x, want in list(zip(q[3], vi[-len(q[3]):], vm[-len(q[3]):])):
            if x != 'cycle' or len(shown) >= 4:
                continue
            try:
                with cpu_limit(0.3):
                    got1 = im.nodes[a].compareDocumentPosition(im.nodes[b])
                shown.append('%d.compareDocumentPosition(%d) returned %r (tree: %r)' % (a, b, got1, want))
            except core.Timeout:
                shown.append('%d.compareDocumentPosition(%d) did not return within 0.3 CPU-s (tree: %r)' % (a, b, want))
            except MemoryError:
                shown.append('%d.compareDocumentPosition(%d) ran out of memory' % (a, b))
        note = '; real calls: ' + '; '.join(shown)
    for dev, sub in subsets(M.VIEW):
        if vi == model_views(r, q, dev):
            out.update(verdict='known', fids=[M.DEV_NAMES[f] for f in sub],
                       detail='%d derived-view answers differ from the tree; all equal the model under %s; tree %s; '
                              'parentNode of nodes no element lists: %s%s'
                              % (len(diff), '+'.join(M.DEV_NAMES[f] for f in sub), tree, stale, note),
                       expected=exp, observed=got)
            return out
    out.update(verdict='violation', detail='derived views disagree with the model in state %s; parentNode of nodes no '
                                           'element lists: %s%s' % (tree, stale, note),
               expected=exp, observed=got)
    return out


def canonical_key(scn, r, obs):
    blob = repr((scn.name, r.dump(), obs['kids'], obs['attrs'], obs['par'], obs['owner'], obs['mat'], obs['name']))
    return int.from_bytes(core.hashlib.blake2b(blob.encode('utf-8', 'backslashreplace'), digest_size=8).digest(), 'big')


# ---------------------------------------------------------------------------------------------
# replay
# ---------------------------------------------------------------------------------------------
def _hist(case):
    return tuple(tuple(e) for e in case['history'])


def replay(case):
    _rlimit()
    scn = SCENARIOS[case['scn']]
    history = _hist(case)
    if case.get('check') == 'state':
        j = judge_state(scn, history, demo=True)
    else:
        j = judge_transition(scn, history)
        if j['verdict'] == 'ok':
            why = post_checks(scn, history[-1], j['impl'], j['model'])
            if why:
                j = {'verdict': 'violation', 'detail': why, 'expected': None, 'observed': None}
    out = {'verdict': j['verdict'], 'expected': j.get('expected'), 'observed': j.get('observed'),
           'detail': j.get('detail', '')}
    if j['verdict'] == 'known':
        f = core.Findings()
        notopen = [x for x in j['fids'] if not f.is_open(x)]
        out['fid'] = (notopen or j['fids'])[0]
        out['fids'] = j['fids']
    return out


# ---------------------------------------------------------------------------------------------
# exploration
# ---------------------------------------------------------------------------------------------
def expand_chunk(item):
    """item = (scenario name, [history, ...], expand?, seed) -> (Report, [(key, history), ...])"""
    name, hists, expand, seed = item
    _rlimit()
    scn = SCENARIOS[name]
    rep = core.Report()
    succ = {}
    for h in hists:
        r0 = model(scn, h)
        # ---- per-state view check
        j = judge_state(scn, h, r0)
        rep.traces += 1
        rep.states += 1
        case = {'scn': name, 'history': [list(e) for e in h], 'check': 'state'}
        rep.case(key=('S', name, h), nontrivial=j['npairs'] > 0, outcome=repr(j['views']))
        rep.count('depth%d_states' % len(h))
        rep.count('compare_pairs', j['npairs'])
        if j['verdict'] == 'known':
            for fid in j['fids']:
                rep.known_finding(fid, case, j['detail'])
        elif j['verdict'] == 'violation':
            rep.violation(case, j['expected'], j['observed'], j['detail'])
        if not expand:
            continue
        # ---- transitions
        evs = core.rotate(gen_events(r0, scn), seed)
        key0 = None
        for ev in evs:
            h2 = h + (ev,)
            j = judge_transition(scn, h2, r0)
            rep.transitions += 1
            rep.traces += 1
            rep.count('op_' + ev[0])
            case = {'scn': name, 'history': [list(e) for e in h2], 'check': 'transition'}
            v = j['verdict']
            if v == 'ok':
                try:
                    with cpu_limit(TLIMIT):
                        why = post_checks(scn, ev, j['impl'], j['model'])
                except core.Timeout:
                    why = 'second normalize() did not return within %.0f s' % TLIMIT
                if why:
                    rep.case(key=('T', name, h2), nontrivial=True, outcome='post')
                    rep.violation(case, None, None, why)
                    continue
                key = canonical_key(scn, j['model'], j['obs'])
                if key0 is None:
                    im0 = build(scn, h)
                    key0 = canonical_key(scn, r0, im0.observe())
                nontrivial = key != key0 or j['res'][0] != 'ok'
                rep.case(key=('T', name, h2), nontrivial=nontrivial, outcome=key)
                if j['res'][0] != 'ok':
                    rep.count('raises_' + j['res'][1])
                if len(rep.samples) < 2 and len(h2) >= 3:
                    rep.sample({'scenario': name, 'history': [list(e) for e in h2],
                                'state': readable_obs(j['res'], j['obs'])})
                cur = succ.get(key)
                if cur is None or h2 < cur:
                    succ[key] = h2
            elif v == 'known':
                rep.case(key=('T', name, h2), nontrivial=True, outcome=repr(j['observed']))
                rep.count('deviating_leaf')
                for fid in j['fids']:
                    rep.known_finding(fid, case, j['detail'])
            else:
                rep.case(key=('T', name, h2), nontrivial=True, outcome=repr(j['observed']))
                rep.violation(case, j['expected'], j['observed'], j['detail'])
    rep.close_block()
    return rep, list(succ.items())


def explore(scn, bound, seed, rep, info):
    im = build(scn, ())
    r = model(scn, ())
    why = differs(None, im.observe(), None, r, True)
    if why:
        rep.violation({'scn': scn.name, 'history': [], 'check': 'state'}, None, None, 'initial pool: ' + why)
    seen = {canonical_key(scn, r, im.observe())}
    frontier = [()]
    levels = []
    for depth in range(bound + 1):
        levels.append(len(frontier))
        expand = depth < bound
        size = max(1, min(250, len(frontier) // (core.NPROC * 6) + 1))
        items = [(scn.name, ch, expand, seed) for ch in core.chunks(frontier, size)]
        nxt = {}
        for r1, succ in core.pmap(expand_chunk, core.rotate(items, seed)):
            rep.merge(r1)
            for key, h in succ:
                if key in seen:
                    continue
                cur = nxt.get(key)
                if cur is None or h < cur:
                    nxt[key] = h
        seen.update(nxt)
        frontier = sorted(nxt.values())
        if not frontier:
            break
    info[scn.name] = {'depth': bound, 'states_per_depth': levels, 'pool': len(scn.pool),
                      'menu': sorted(scn.ops), 'targets': scn.targets, 'args': scn.args}


def run(tier, seed, rep):
    info = {}
    names = core.rotate(sorted(SCENARIOS), seed)
    for name in names:
        scn = SCENARIOS[name]
        explore(scn, scn.depth[tier], seed, rep, info)
    return {'exhaustive': True, 'bounds': info,
            'floors': {'evaluations': 20000, 'op_setitem': 100, 'op_clone': 100, 'op_normalize': 100,
                       'compare_pairs': 10000}}
