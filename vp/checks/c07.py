"""
C07 -- Parsing loses, duplicates or reorders no text and yields a well-formed tree.
Engine E1: documents of a grammar in which every text leaf is a unique marker word; for every container context
every sequence of <= 3 (quick) / <= 4 (thorough, reduced menu) constructs and every nesting chain of containers.
"""
import itertools, re
from vp import core, state

ID = 'C07'
LEVEL = 'exploration'
RULE = ('documents = class x container context (body, section body, list item, quote, table cell, footnote, title, font argument) '
        'x every sequence of <= n constructs allowed there (words, paragraph break, 4 sectioning forms, font command/declaration, '
        'nested emphasis, itemize/enumerate/description, quote, center, tabular, footnote, mbox, inline/display math, equation, '
        'verbatim (also with \\endverbatim in its text), \\verb, label+ref, figure+caption, dash/quote triggers, box-in-formula-in-box, '
        'book: \\chapter, \\chapter*) plus every chain of <= 4 nested containers with a '
        '2-sequence at the bottom; every text leaf is a unique marker word. Non-trivial: >= 2 constructs; distinct = distinct '
        'source; outcomes = distinct tree shapes (node-name skeletons)')
ASSUMPTIONS = [
    'oracle: marker order in the generated source (regex on the source string) = marker order of the depth-first walk '
    '(attributes in declaration order, then children)',
    'charsub expectation: dashes/quotes substituted everywhere except verbatim, \\verb and mathematics',
    'math containment: a word is in mathematics iff the nearest enclosing math-or-box construct in the source is a formula; '
    'same rule on the tree over math/displaymath/equation nodes and mbox/textbf/textit/footnote nodes',
]

MARK = re.compile(r'wq[a-p]+z')


class Alloc(object):
    def __init__(self, salt=0):
        self.n = salt

    def __call__(self):
        self.n += 1
        n = self.n
        s = ''
        while n:
            s = chr(97 + n % 16) + s
            n //= 16
        return 'wq' + s + 'z'


# construct name -> (class, function(alloc) -> source)
def _c(cls):
    def deco(f):
        CONSTRUCTS[f.__name__[2:]] = (cls, f)
        return f
    return deco


CONSTRUCTS = {}


@_c('inline')
def c_words(m):
    return '%s %s ' % (m(), m())


@_c('break')
def c_par(m):
    return '\n\n'


@_c('section')
def c_section(m):
    return '\\section{%s}' % m()


@_c('section')
def c_subsection(m):
    return '\\subsection{%s}' % m()


@_c('section')
def c_subsubstar(m):
    return '\\subsubsection*{%s}' % m()


@_c('section')
def c_sectoc(m):
    return '\\section[%s]{%s \\textbf{%s}}' % (m(), m(), m())


@_c('section')
def c_paragraph(m):
    return '\\paragraph{%s}' % m()


@_c('chapter')
def c_chapter(m):
    return '\\chapter{%s}' % m()


@_c('chapter')
def c_chapterstar(m):
    return '\\chapter*{%s}' % m()


@_c('inline')
def c_boxmathbox(m):
    # a formula that contains a box, inside a box argument; then a plain formula
    return "\\textbf{%s $%s \\mbox{%s} %s$ %s} $%s$ " % (m(), m(), m(), m(), m(), m())


@_c('inline')
def c_mathbox(m):
    return '$%s \\mbox{%s $%s$ %s} %s$ ' % (m(), m(), m(), m(), m())


@_c('inline')
def c_opendecl(m):
    # a brace-less declaration that stays in force until the enclosing group / unit ends
    return '\\small %s ' % m()


@_c('table')
def c_tabdecl(m):
    # brace-less declarations in cells that are not the last of their row
    return '\\begin{tabular}{lll}\\bfseries %s&\\itshape %s&%s\\\\ %s&\\small %s&%s\\end{tabular}' % (m(), m(), m(), m(), m(), m())


@_c('inline')
def c_loneapos(m):
    # an apostrophe (and a backquote) that is alone in its run of text, between two elements
    return "\\emph{%s}'\\textbf{%s} \\emph{%s}`\\textbf{%s} " % (m(), m(), m(), m())


@_c('verbatim')
def c_verbatimend(m):
    # the command-form terminator is ordinary text inside the environment form ('=' marks a raw dash pair for the oracle)
    return '\\begin{verbatim}\n%s \\endverbatim =%s--%s\n\\end{verbatim}' % (m(), m(), m())


@_c('block')
def c_descbracket(m):
    return '\\begin{description}\\item[{[%s]}] %s\\item[{%s]}]%s\\end{description}' % (m(), m(), m(), m())


@_c('table')
def c_tabempty(m):
    return '\\begin{tabular}{lll}%s&%s&\\\\ &%s&%s\\\\ &&%s\\end{tabular}' % (m(), m(), m(), m(), m())


@_c('inline')
def c_textbf(m):
    return '\\textbf{%s}' % m()


@_c('inline')
def c_bfdecl(m):
    return '{\\bf %s} ' % m()


@_c('inline')
def c_emph(m):
    return '\\emph{%s \\textit{%s}%s}' % (m(), m(), m())


@_c('block')
def c_itemize(m):
    return '\\begin{itemize}\\item %s\\item %s\n\n%s\\end{itemize}' % (m(), m(), m())


@_c('block')
def c_enumnest(m):
    return '\\begin{enumerate}\\item %s\\begin{enumerate}\\item %s\\end{enumerate}%s\\item %s\\end{enumerate}' % (m(), m(), m(), m())


@_c('block')
def c_description(m):
    return '\\begin{description}\\item[%s] %s\\item[%s]%s\\end{description}' % (m(), m(), m(), m())


@_c('block')
def c_quote(m):
    return '\\begin{quote}%s\n\n%s\\end{quote}' % (m(), m())


@_c('block')
def c_center(m):
    return '\\begin{center}%s\\end{center}' % m()


@_c('table')
def c_tabular(m):
    return '\\begin{tabular}{ll}%s&%s\\\\ %s&\\textbf{%s}\\end{tabular}' % (m(), m(), m(), m())


@_c('footnote')
def c_footnote(m):
    return '%s\\footnote{%s %s}' % (m(), m(), m())


@_c('inline')
def c_mbox(m):
    return '\\mbox{%s}' % m()


@_c('math')
def c_math(m):
    return '$%s$' % m()


@_c('display')
def c_display(m):
    return '\\[%s\\]' % m()


@_c('display')
def c_equation(m):
    return '\\begin{equation}%s\\end{equation}' % m()


@_c('verbatim')
def c_verbatim(m):
    return '\\begin{verbatim}\n%s {\\x %s\n\\end{verbatim}' % (m(), m())


@_c('verb')
def c_verb(m):
    return '\\verb|%s %s|' % (m(), m())


@_c('label')
def c_labelref(m):
    return '\\label{L%s}%s\\ref{L%s}' % ('x', m(), 'x')


@_c('float')
def c_figure(m):
    return '\\begin{figure}%s\\caption{%s}\\end{figure}' % (m(), m())


@_c('inline')
def c_trigger(m):
    return " %s--%s ``%s'' " % (m(), m(), m())


@_c('verb')
def c_verbtrig(m):
    return '\\verb|%s--%s|' % (m(), m())


@_c('math')
def c_mathtrig(m):
    return '$%s--%s$' % (m(), m())


# container contexts: name -> (template with one %s, allowed classes)
INLINEISH = ('inline', 'math')
CONTEXTS = {
    'body': ('%%s', ('inline', 'break', 'section', 'chapter', 'block', 'table', 'footnote', 'math', 'display', 'verbatim', 'verb',
                    'label', 'float')),
    'secbody': ('\\section{%(m)s}%%s', ('inline', 'break', 'section', 'chapter', 'block', 'table', 'footnote', 'math', 'display',
                                        'verbatim', 'verb', 'label', 'float')),
    'item': ('\\begin{itemize}\\item %(m)s\\item %%s\\end{itemize}', ('inline', 'break', 'block', 'table', 'footnote',
                                                                    'math', 'display', 'verbatim', 'verb', 'label')),
    'quote': ('\\begin{quote}%%s\\end{quote}', ('inline', 'break', 'block', 'table', 'footnote', 'math', 'display',
                                               'verbatim', 'verb', 'label')),
    'cell': ('\\begin{tabular}{lp{3cm}}%(m)s&%%s\\\\ %(m2)s&%(m3)s\\end{tabular}', ('inline', 'math', 'verb', 'footnote', 'table')),
    'footnote': ('%(m)s\\footnote{%%s}', ('inline', 'break', 'block', 'math', 'display', 'table')),
    'title': ('\\section{%%s}%(m)s', ('inline', 'math')),
    'fontarg': ('\\textbf{%%s}', ('inline', 'math', 'footnote')),
}
CONTAINERS = ['item', 'quote', 'cell', 'footnote', 'fontarg', 'secbody']


SMALL = ['words', 'par', 'opendecl', 'textbf', 'itemize', 'tabular', 'math', 'footnote', 'verb', 'trigger', 'display', 'labelref',
         'subsection', 'paragraph', 'tabempty', 'descbracket']


def allowed(ctx):
    classes = CONTEXTS[ctx][1]
    return [n for n, (c, f) in CONSTRUCTS.items() if c in classes]


def build(docclass, ctxchain, seq):
    """source of a document: constructs `seq` placed inside the chain of containers"""
    m = Alloc()
    inner_marks = []
    parts = []
    # allocate markers in source order: container prefixes first, then the sequence, then container suffixes;
    # easier: build with placeholders and then number the markers left to right
    ph = itertools.count()

    def pm():
        return '\0%d\0' % next(ph)
    body = ''.join(CONSTRUCTS[n][1](pm) for n in seq)
    for ctx in reversed(ctxchain):
        tmpl = CONTEXTS[ctx][0]
        mk = {}
        for key in ('m', 'm2', 'm3'):
            if '%%(%s)s' % key in tmpl:
                mk[key] = pm()
        body = (tmpl % mk) % body
    src = '\\documentclass{%s}\\begin{document}%s %s\\end{document}\n' % (docclass, pm(), body)
    # renumber placeholders in order of appearance
    out = []
    pos = 0
    for mm in re.finditer('\0\\d+\0', src):
        out.append(src[pos:mm.start()])
        out.append(m())
        pos = mm.end()
    out.append(src[pos:])
    return ''.join(out)


# ---------------------------------------------------------------------------
def walk(doc):
    """depth-first: attributes (declaration order; 'self' is the child list) then children.
    -> (text, problems, skeleton)"""
    from plasTeX.DOM import Node
    texts = []
    problems = []
    seen = set()
    skel = []
    owner_of = {}

    def visit(n, parent, via_attr, depth):
        if id(n) in seen:
            problems.append('node %s reachable twice' % getattr(n, 'nodeName', '?'))
            return
        seen.add(id(n))
        if depth > 200:
            problems.append('tree deeper than 200')
            return
        # parent link: following parentNode, skipping argument fragments, must lead to the actual container
        if parent is not None:
            want = parent
            hops = 0
            while want is not None and want.nodeType == Node.DOCUMENT_FRAGMENT_NODE and hops < 5:
                want = owner_of.get(id(want))
                hops += 1
            p = n.parentNode
            hops = 0
            while p is not None and p.nodeType == Node.DOCUMENT_FRAGMENT_NODE and p is not want and hops < 5:
                p = p.parentNode
                hops += 1
            if p is not want:
                problems.append('parent chain of %s leads to %s, expected %s' % (
                    getattr(n, 'nodeName', '?'), getattr(p, 'nodeName', None), getattr(want, 'nodeName', '?')))
            owner_of[id(n)] = parent
        if n.nodeType == Node.TEXT_NODE:
            texts.append(str(n))
            return
        name = n.nodeName
        skel.append(name)
        attrs = getattr(n, 'attributes', None)
        if attrs:
            for k, v in attrs.items():
                if k == 'self':
                    continue
                if hasattr(v, 'nodeType'):
                    skel.append('@' + k)
                    visit(v, n, True, depth + 1)
                elif isinstance(v, (list, tuple)):
                    for x in v:
                        if hasattr(x, 'nodeType') and x.nodeType != Node.TEXT_NODE:
                            visit(x, None, True, depth + 1)
        for c in n.childNodes:
            visit(c, n, False, depth + 1)
        skel.append('/')

    visit(doc, None, False, 0)
    return ''.join(texts), problems, tuple(skel)


def structure_problems(doc):
    from plasTeX.DOM import Node
    problems = []
    lo, hi = Node.PART_LEVEL, Node.SUBPARAGRAPH_LEVEL

    def rec(n, inpar):
        if n.nodeType == Node.TEXT_NODE:
            return
        lvl = n.level
        ispar = lvl == Node.PAR_LEVEL
        if ispar and inpar:
            problems.append('paragraph inside paragraph')
        if inpar and lo <= lvl <= hi:
            problems.append('sectioning unit %s inside a paragraph' % n.nodeName)
        if n.nodeName == 'ArrayCell' and getattr(n.parentNode, 'nodeName', None) != 'ArrayRow':
            problems.append('table cell whose parent is %s, not a row' % getattr(n.parentNode, 'nodeName', None))
        if n.nodeName == 'ArrayRow' and getattr(n.parentNode, 'nodeName', None) not in ('tabular', 'array', 'tabular*', 'tabularx', 'longtable'):
            problems.append('table row whose parent is %s, not a table' % getattr(n.parentNode, 'nodeName', None))
        if lo <= lvl <= hi:
            for c in n.childNodes:
                if c.nodeType == Node.TEXT_NODE:
                    if str(c).strip():
                        problems.append('text %r directly inside %s' % (str(c)[:20], n.nodeName))
                    continue
                cl = c.level
                if cl == Node.PAR_LEVEL:
                    continue
                if lo <= cl <= hi:
                    if cl <= lvl:
                        problems.append('%s (level %d) inside %s (level %d)' % (c.nodeName, cl, n.nodeName, lvl))
                    continue
                problems.append('%s is a direct child of sectioning unit %s' % (c.nodeName, n.nodeName))
        # block-level children restart paragraph nesting: a par inside a list item inside a par is fine in plasTeX's
        # TeX-like model; only a par whose *parent* is a par is wrong
        for c in n.childNodes:
            rec(c, ispar)
        attrs = getattr(n, 'attributes', None)
        if attrs:
            for k, v in attrs.items():
                if k != 'self' and hasattr(v, 'childNodes'):
                    for c in v.childNodes:
                        rec(c, False)
    rec(doc, False)
    return problems


DASH, LQ, RQ = chr(8211), chr(8220), chr(8221)
BOXES = ('mbox', 'textbf', 'textit', 'footnote')
MATHNODES = ('math', 'displaymath', 'equation')


def math_map_source(src):
    """marker -> is it written in math mode?  Stack machine over the restricted syntax of the generated sources."""
    out = {}
    stack = [['T', 'doc']]
    i, n = 0, len(src)
    while i < n:
        c = src[i]
        mm = MARK.match(src, i)
        if mm:
            out[mm.group(0)] = stack[-1][0] == 'M'
            i = mm.end()
            continue
        if src.startswith('\\verb|', i):
            j = src.index('|', i + 6)
            for w in MARK.findall(src[i:j]):
                out[w] = False
            i = j + 1
            continue
        if src.startswith('\\begin{verbatim}', i):
            j = src.index('\\end{verbatim}', i)
            for w in MARK.findall(src[i:j]):
                out[w] = False
            i = j + len('\\end{verbatim}')
            continue
        if src.startswith('\\[', i) or src.startswith('\\begin{equation}', i):
            stack.append(['M', 'env'])
            i += 2 if src.startswith('\\[', i) else len('\\begin{equation}')
            continue
        if src.startswith('\\]', i) or src.startswith('\\end{equation}', i):
            stack.pop()
            i += 2 if src.startswith('\\]', i) else len('\\end{equation}')
            continue
        if c == '\\':
            m2 = re.compile(r'\\([a-zA-Z]+)\*?').match(src, i)
            if m2:
                i = m2.end()
                if i < n and src[i] == '{' and m2.group(1) in BOXES:
                    stack.append(['T', '{'])
                    i += 1
                continue
            i += 2
            continue
        if c == '{':
            stack.append([stack[-1][0], '{'])
        elif c == '}':
            if len(stack) > 1:
                stack.pop()
        elif c == '$':
            if stack[-1][1] == '$':
                stack.pop()
            else:
                stack.append(['M', '$'])
        i += 1
    return out


def math_map_tree(doc):
    """marker -> does the text node holding it have a mathematics node as nearest ancestor among math nodes and boxes?"""
    from plasTeX.DOM import Node
    pieces = []         # (text, mode) in depth-first order; text may come letter by letter

    def visit(n, mode, depth):
        if depth > 200:
            return
        if n.nodeType == Node.TEXT_NODE:
            pieces.append((str(n), mode))
            return
        name = n.nodeName
        if name in MATHNODES:
            mode = True
        elif name in BOXES:
            mode = False
        attrs = getattr(n, 'attributes', None)
        if attrs:
            for k, v in attrs.items():
                if k != 'self' and hasattr(v, 'nodeType'):
                    visit(v, mode, depth + 1)
        for c in n.childNodes:
            visit(c, mode, depth + 1)
    visit(doc, False, 0)
    out = {}
    text = ''.join(t for t, m in pieces)
    starts, pos = [], 0
    for t, m in pieces:
        starts.append((pos, m))
        pos += len(t)
    import bisect
    offs = [a for a, m in starts]
    for mm in MARK.finditer(text):
        j = bisect.bisect_right(offs, mm.start()) - 1
        out.setdefault(mm.group(0), starts[j][1])
    return out


def judge(src, seq):
    from plasTeX.TeX import TeX
    state.reset()
    try:
        with core.time_limit(20):
            tex = TeX()
            tex.ownerDocument.context.warnOnUnrecognized = False
            tex.input(src)
            doc = tex.parse()
            text, problems, skel = walk(doc)
            problems += structure_problems(doc)
            depth = len(doc.context.contexts)
    except core.Timeout:
        return 'violation', 'timeout', None, None
    except Exception as e:
        return 'violation', 'raises %s: %s' % (type(e).__name__, str(e)[:120]), None, None
    want = MARK.findall(src)
    got = MARK.findall(text)
    if got != want:
        lost = [w for w in want if w not in got]
        dup = sorted(set(w for w in got if got.count(w) > 1))
        problems.append('marker order differs: lost=%s duplicated=%s got=%s' % (lost, dup, got if not lost and not dup else ''))
    # mathematics holds exactly the words written in math mode
    if not problems:
        ms, mt = math_map_source(src), math_map_tree(doc)
        wrong = [w for w in want if ms.get(w) != mt.get(w)]
        if wrong:
            problems.append('words %s are %s mathematics in the tree but %s in the source' % (
                wrong[:4], 'inside' if mt.get(wrong[0]) else 'outside', 'inside' if ms.get(wrong[0]) else 'outside'))
    # typographic substitutions
    sub_problems = []
    for mm in re.finditer(r'(\\verb\||\$|=)?(wq[a-p]+z)--(wq[a-p]+z)', src):
        raw = bool(mm.group(1))
        a, b = mm.group(2), mm.group(3)
        i = text.find(a)
        if i >= 0:
            sep = text[i + len(a):text.find(b, i)] if text.find(b, i) >= 0 else None
            if sep is not None and sep != ('--' if raw else DASH):
                sub_problems.append((i + len(a), 'between %s and %s: %r, expected %r' % (a, b, sep, '--' if raw else DASH)))
    for mm in re.finditer(r"``(wq[a-p]+z)''", src):
        a = mm.group(1)
        i = text.find(a)
        if i > 0 and (text[i - 1] != LQ or text[i + len(a):i + len(a) + 1] != RQ):
            sub_problems.append((i - 1, 'quotes around %s: %r' % (a, text[max(0, i - 2):i + len(a) + 2])))
    for mm in re.finditer(r"\\emph\{(wq[a-p]+z)\}(['`])\\textbf\{(wq[a-p]+z)\}", src):
        a, ch, b = mm.group(1), mm.group(2), mm.group(3)
        i, j = text.find(a), text.find(b)
        if i >= 0 and j >= 0:
            sep = text[i + len(a):j]
            want_ch = chr(8217) if ch == "'" else chr(8216)
            if sep != want_ch:
                sub_problems.append((i + len(a), 'between %s and %s: %r, expected %r' % (a, b, sep, want_ch)))
    fid = None
    if sub_problems and not problems:
        # open finding C07.NO_PAR_NO_CHARSUB applies only if EVERY unsubstituted trigger sits directly in an
        # Environment that has no paragraph-level child (such environments are never normalized)
        if all(_in_parless_environment(doc, off) for off, msg in sub_problems):
            fid = 'C07.NO_PAR_NO_CHARSUB'
    problems += [msg for off, msg in sub_problems]
    if problems:
        return ('known' if fid else 'violation'), '; '.join(problems[:4]), skel, fid
    return 'ok', '', skel, None


def _in_parless_environment(doc, offset):
    """is the character at `offset` of the depth-first text held by a text node whose parent element is an
    Environment without paragraph-level children?"""
    import plasTeX
    from plasTeX.DOM import Node
    pos = [0]
    found = []

    def visit(n):
        if found:
            return
        if n.nodeType == Node.TEXT_NODE:
            L = len(str(n))
            if pos[0] <= offset < pos[0] + L:
                found.append(n)
            pos[0] += L
            return
        attrs = getattr(n, 'attributes', None)
        if attrs:
            for k, v in attrs.items():
                if k != 'self' and hasattr(v, 'nodeType'):
                    visit(v)
        for c in n.childNodes:
            visit(c)
    visit(doc)
    if not found:
        return False
    p = found[0].parentNode
    if not isinstance(p, plasTeX.Environment):
        return False
    if any(getattr(c, 'level', None) == Node.PAR_LEVEL for c in p.childNodes):
        return False
    # ... and only when no paragraph encloses the environment either (a paragraph normalizes the blocks it holds)
    a, hops = p.parentNode, 0
    while a is not None and hops < 100:
        if getattr(a, 'level', None) == Node.PAR_LEVEL:
            return False
        a, hops = a.parentNode, hops + 1
    return True


def cases_for(block):
    kind = block[0]
    if kind == 'seq':
        _, docclass, ctx, first, n, reduced = block
        names = allowed(ctx)
        if docclass != 'book':
            names = [x for x in names if CONSTRUCTS[x][0] != 'chapter']
            if CONSTRUCTS[first][0] == 'chapter':
                return
        if reduced:
            names = [x for x in names if x in SMALL]
        rest_lens = range(0, n)
        for L in rest_lens:
            for rest in itertools.product(names, repeat=L):
                seq = (first,) + rest
                yield docclass, (ctx,) if ctx != 'body' else (), seq
    else:
        _, docclass, chain, names = block
        inner = allowed(chain[-1])
        inner = [x for x in inner if x in names and (docclass == 'book' or CONSTRUCTS[x][0] != 'chapter')]
        if any(c in ('footnote', 'fontarg', 'title') for c in chain):
            # verbatim material cannot appear anywhere inside a macro argument
            inner = [x for x in inner if CONSTRUCTS[x][0] not in ('verb', 'verbatim')]
        for a in inner:
            for b in inner:
                yield docclass, chain, (a, b)


def valid_chain(chain):
    """a container may be placed inside the previous one only if its class is allowed there"""
    cls = {'item': 'block', 'quote': 'block', 'cell': 'table', 'footnote': 'footnote', 'fontarg': 'inline',
           'secbody': 'section'}
    prev = 'body'
    for c in chain:
        if cls[c] not in CONTEXTS[prev][1]:
            return False
        if c == 'footnote' and 'footnote' in chain[:chain.index(c)]:
            return False
        prev = c
    return True


def run_block(block):
    rep = core.Report()
    for docclass, chain, seq in cases_for(block):
        src = build(docclass, chain, seq)
        v, info, skel, fid = judge(src, seq)
        rep.case(key=src, nontrivial=len(seq) + len(chain) >= 2, outcome=skel if skel else info)
        rep.count('ctx_' + (chain[-1] if chain else 'body'))
        case = {'docclass': docclass, 'chain': list(chain), 'seq': list(seq)}
        if v == 'ok':
            if len(seq) == 3 and chain:
                rep.sample({'source': src})
            continue
        if fid:
            rep.known_finding(fid, case, info)
        else:
            rep.violation(case, 'markers in source order, well-formed tree', info, 'source: ' + src)
    return rep.close_block()


def classify(src, chain, seq, info):
    return None


def replay(case):
    src = build(case['docclass'], tuple(case['chain']), tuple(case['seq']))
    v, info, skel, fid = judge(src, tuple(case['seq']))
    if fid:
        return {'verdict': 'known', 'fid': fid, 'expected': None, 'observed': info, 'detail': 'source: ' + src}
    return {'verdict': v, 'expected': 'markers in source order, well-formed tree', 'observed': info, 'detail': 'source: ' + src}


def run(tier, seed, rep):
    state.pristine()
    quick = tier == 'quick'
    blocks = []
    n = 3 if quick else 4
    classes = ['article'] if quick else ['article', 'book']
    for dc in classes:
        for ctx in CONTEXTS:
            names = allowed(ctx)
            nn = n
            if not quick and len(names) > 14:
                nn = 3        # length 4 only where the menu is small enough; bodies get chains instead
            for first in names:
                blocks.append(('seq', dc, ctx, first, nn, quick and ctx in ('secbody', 'item', 'quote', 'footnote')))
    if quick:
        blocks += [('seq', 'book', 'body', first, 2, False) for first in allowed('body')]
    # nesting chains of containers
    small = SMALL
    maxchain = 3 if quick else 4
    for dc in classes:
        for L in range(2, maxchain + 1):
            for chain in itertools.product(CONTAINERS, repeat=L):
                if valid_chain(chain):
                    blocks.append(('chain', dc, chain, small if L >= 3 else list(CONSTRUCTS)))
    blocks = core.rotate(blocks, seed)
    core.merge_all(run_block, blocks, rep, chunksize=2)
    return {'exhaustive': True, 'bounds': {'sequence_length': n, 'chain_depth': maxchain, 'constructs': len(CONSTRUCTS),
                                           'contexts': list(CONTEXTS), 'classes': classes, 'blocks': len(blocks)},
            'floors': {'evaluations': 20000}}
