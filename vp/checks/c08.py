"""
C08 -- Counters and automatic numbers follow LaTeX's numbering rules.
(a) Engine E1, literally exhaustive: every value 1..4999 (1..26) of every representation, on Counter objects and
    through the parser.
(b) Engine E2: breadth-first search over numbering histories (one history = one document parsed from scratch) in
    lock-step with a LaTeX counter model; dedup by (class, depth, counter file, format state).
"""
from vp import core, state

ID = 'C08'
LEVEL = 'model_checking'
RULE = ('(a) every counter value 1..4999 for arabic/roman/Roman and 1..26 for alph/Alph, via Counter properties and via '
        '\\setcounter + \\roman{..} in a parsed document; (b) states = histories over events {chapter (book), section, subsection, '
        'subsubsection, section*, equation, eqnarray with \\nonumber row, figure+caption, table+caption, theorem (own / shared / '
        'within section), \\appendix, \\setcounter, \\addtocounter, \\stepcounter, nested enumerate} x class in {article, book} x '
        'sec-num-depth in {default, 0, 3}; each history is printed as a document and parsed from scratch; compared: the printed '
        'number of every numbered node in document order and the final counter values. Dedup key = model counter file + '
        'implementation counter file. Non-trivial: history contains a numbered object after a counter-changing event.')
ASSUMPTIONS = [
    'model: LaTeX counter rules (stepping resets the \\@addtoreset list transitively; \\setcounter/\\addtocounter reset nothing; '
    'standard class formats of article.cls / book.cls; objects below the numbering depth print no number)',
    'sec-num-depth is plasTeX\'s configuration option (default 2), applied as LaTeX applies secnumdepth',
]

# ---------------------------------------------------------------------------
# (a) representations
# ---------------------------------------------------------------------------
ROMAN = [(1000, 'M'), (900, 'CM'), (500, 'D'), (400, 'CD'), (100, 'C'), (90, 'XC'), (50, 'L'), (40, 'XL'),
         (10, 'X'), (9, 'IX'), (5, 'V'), (4, 'IV'), (1, 'I')]


def ref_roman(n):
    out = ''
    for v, s in ROMAN:
        while n >= v:
            out += s
            n -= v
    return out


def ref_alph(n):
    return 'abcdefghijklmnopqrstuvwxyz'[n - 1]


def run_block_repr(block):
    lo, hi, via_parser = block
    rep = core.Report()
    import plasTeX
    from plasTeX.Context import Context
    if not via_parser:
        ctx = Context()
        c = plasTeX.Counter(ctx, 'zzq')
        for n in range(lo, hi):
            c.value = n
            exp = {'arabic': str(n), 'Roman': ref_roman(n), 'roman': ref_roman(n).lower()}
            obs = {'arabic': c.arabic, 'Roman': c.Roman, 'roman': c.roman}
            if n <= 26:
                exp['alph'] = ref_alph(n)
                exp['Alph'] = ref_alph(n).upper()
                obs['alph'] = c.alph
                obs['Alph'] = c.Alph
            rep.case(key=('repr', n), nontrivial=True, outcome=tuple(sorted(obs.items())))
            if obs != exp:
                rep.violation({'kind': 'repr', 'n': n, 'via_parser': False}, exp, obs, 'Counter value %d' % n)
        return rep.close_block()
    from plasTeX.TeX import TeX
    for n in range(lo, hi):
        state.reset()
        forms = ['arabic', 'roman', 'Roman'] + (['alph', 'Alph'] if n <= 26 else [])
        src = '\\newcounter{zzq}\\setcounter{zzq}{%d}' % n + ''.join('\\%s{zzq};' % f for f in forms)
        exp = ';'.join([str(n), ref_roman(n).lower(), ref_roman(n)] +
                       ([ref_alph(n), ref_alph(n).upper()] if n <= 26 else [])) + ';'
        try:
            tex = TeX()
            tex.input(src)
            obs = ''.join(tex.parse().textContent.split())
        except Exception as e:
            obs = 'raises %s' % type(e).__name__
        rep.case(key=('parse', n), nontrivial=True, outcome=obs)
        rep.count('repr_via_parser')
        if obs != exp:
            rep.violation({'kind': 'repr', 'n': n, 'via_parser': True}, exp, obs, src)
    return rep.close_block()


# ---------------------------------------------------------------------------
# (b) numbering
# ---------------------------------------------------------------------------
EVENTS = {
    'ch': '\\chapter{T}', 'sec': '\\section{T}', 'sub': '\\subsection{T}', 'ssub': '\\subsubsection{T}',
    'secstar': '\\section*{T}', 'eq': '\\begin{equation}a\\end{equation}',
    'eqa': '\\begin{eqnarray}a&=&b\\\\ c&=&d\\nonumber\\\\ e&=&f\\end{eqnarray}',
    'fig': '\\begin{figure}x\\caption{c}\\end{figure}', 'tab': '\\begin{table}y\\caption{d}\\end{table}',
    'thm': '\\begin{zzthm}t\\end{zzthm}', 'lem': '\\begin{zzlem}t\\end{zzlem}', 'prop': '\\begin{zzprop}t\\end{zzprop}',
    'app': None, 'setsec': '\\setcounter{section}{5}', 'addeq': '\\addtocounter{equation}{2}',
    'stepsec': '\\stepcounter{section}', 'setsub': '\\setcounter{subsection}{3}',
    'setch9': '\\setcounter{chapter}{9}', 'stepu': '\\stepcounter{zzu}',
    'addsec': '\\addtocounter{section}{2}', 'par': '\\paragraph{T}',
    'enum': '\\begin{enumerate}\\item a\\begin{enumerate}\\item b\\item c\\end{enumerate}\\item d\\end{enumerate}',
    # un-numbered lists before / beside numbered ones at the same depth
    'itemenum': '\\begin{itemize}\\item a\\item b\\end{itemize}\\begin{enumerate}\\item c\\item d\\end{enumerate}',
    'descenum': ('\\begin{enumerate}\\item a\\begin{description}\\item[p] q\\item[r] s\\end{description}'
                 '\\begin{enumerate}\\item c\\item d\\end{enumerate}\\item e\\end{enumerate}'),
    # the value 0
    'set0sec': '\\setcounter{section}{0}', 'set0eq': '\\setcounter{equation}{0}', 'set0u': '\\setcounter{zzu}{0}',
}
PREAMBLE = ('\\newtheorem{zzthm}{Theorem}\\newtheorem{zzlem}[zzthm]{Lemma}\\newtheorem{zzprop}{Prop}[section]'
            '\\newcounter{zzu}[section]')

# deviations of plasTeX from the LaTeX rules (named; see known_findings.json)
D_SET_RESETS = 1        # \setcounter / \addtocounter reset the dependent counters (LaTeX: only stepping does)
D_BOOK_EQ_PREFIX = 2    # book class: equation numbers carry the chapter prefix even when chapter = 0 ('0.1')
DEV_NAMES = {D_SET_RESETS: 'C08.SETCOUNTER_RESETS', D_BOOK_EQ_PREFIX: 'C08.BOOK_EQUATION_CHAPTER0_PREFIX'}


class LModel(object):
    """LaTeX counter file for article / book with the three user theorems."""
    def __init__(self, cls, numdepth, dev=0):
        self.cls = cls
        self.numdepth = numdepth
        self.dev = dev
        self.c = {k: 0 for k in ('chapter', 'section', 'subsection', 'subsubsection', 'paragraph', 'equation', 'figure',
                                 'table', 'zzthm', 'zzprop', 'zzu')}
        self.appendix = False
        self.resets = {'section': ['subsection', 'zzprop', 'zzu'], 'subsection': ['subsubsection'],
                       'subsubsection': ['paragraph'], 'paragraph': []}
        if cls == 'book':
            self.resets['chapter'] = ['section', 'equation', 'figure', 'table']
        self.out = []

    def reset_children(self, name):
        for ch in self.resets.get(name, []):
            self.c[ch] = 0
            self.reset_children(ch)

    def step(self, name):
        self.c[name] += 1
        self.reset_children(name)

    def the(self, name):
        c = self.c
        if name == 'chapter':
            return self.alph(c['chapter']) if self.appendix else str(c['chapter'])
        if name == 'section':
            if self.cls == 'article':
                return self.alph(c['section']) if self.appendix else str(c['section'])
            return self.the('chapter') + '.' + str(c['section'])
        if name == 'subsection':
            return self.the('section') + '.' + str(c['subsection'])
        if name == 'subsubsection':
            return self.the('subsection') + '.' + str(c['subsubsection'])
        if name == 'paragraph':
            return self.the('subsubsection') + '.' + str(c['paragraph'])
        if name in ('equation', 'figure', 'table'):
            if self.cls == 'book':
                if c['chapter'] > 0:
                    return self.the('chapter') + '.' + str(c[name])
                if name == 'equation' and (self.dev & D_BOOK_EQ_PREFIX):
                    return self.the('chapter') + '.' + str(c[name])
            return str(c[name])
        if name == 'zzthm':
            return str(c['zzthm'])
        if name == 'zzprop':
            return self.the('section') + '.' + str(c['zzprop'])
        raise KeyError(name)

    @staticmethod
    def alph(n):
        return 'ABCDEFGHIJKLMNOPQRSTUVWXYZ'[n - 1] if 1 <= n <= 26 else '?%d' % n

    LEVEL = {'chapter': 0, 'section': 1, 'subsection': 2, 'subsubsection': 3, 'paragraph': 4}

    def sectioning(self, name):
        if self.LEVEL[name] <= self.numdepth:
            self.step(name)
            self.out.append((name, self.the(name)))
        else:
            self.out.append((name, None))

    def apply(self, ev):
        if ev == 'ch':
            self.sectioning('chapter')
        elif ev == 'sec':
            self.sectioning('section')
        elif ev == 'sub':
            self.sectioning('subsection')
        elif ev == 'ssub':
            self.sectioning('subsubsection')
        elif ev == 'par':
            self.sectioning('paragraph')
        elif ev == 'addsec':
            self.c['section'] += 2
            if self.dev & D_SET_RESETS:
                self.reset_children('section')
        elif ev == 'secstar':
            self.out.append(('section', None))
        elif ev == 'eq':
            self.step('equation')
            self.out.append(('equation', self.the('equation')))
        elif ev == 'eqa':
            self.step('equation')
            self.out.append(('row', self.the('equation')))
            self.step('equation')
            self.out.append(('row', self.the('equation')))
        elif ev == 'fig':
            self.step('figure')
            self.out.append(('caption', self.the('figure')))
        elif ev == 'tab':
            self.step('table')
            self.out.append(('caption', self.the('table')))
        elif ev in ('thm', 'lem'):
            self.step('zzthm')
            self.out.append(('thmenv', self.the('zzthm')))
        elif ev == 'prop':
            self.step('zzprop')
            self.out.append(('thmenv', self.the('zzprop')))
        elif ev == 'app':
            self.appendix = True
            if self.cls == 'article':
                self.c['section'] = 0
                self.c['subsection'] = 0
            else:
                self.c['chapter'] = 0
                self.c['section'] = 0
            if self.dev & D_SET_RESETS:
                self.reset_children('section' if self.cls == 'article' else 'chapter')
            self.sectioning('section' if self.cls == 'article' else 'chapter')
        elif ev == 'setsec':
            self.c['section'] = 5
            if self.dev & D_SET_RESETS:
                self.reset_children('section')
        elif ev == 'setsub':
            self.c['subsection'] = 3
            if self.dev & D_SET_RESETS:
                self.reset_children('subsection')
        elif ev == 'addeq':
            self.c['equation'] += 2
        elif ev == 'setch9':
            self.c['chapter'] = 9
            if self.dev & D_SET_RESETS:
                self.reset_children('chapter')
        elif ev == 'stepu':
            self.step('zzu')
        elif ev == 'stepsec':
            self.step('section')
        elif ev == 'enum':
            self.out += [('item', '1'), ('item', '1'), ('item', '2'), ('item', '2')]
        elif ev == 'itemenum':
            self.out += [('item', '1'), ('item', '2')]
        elif ev == 'descenum':
            self.out += [('item', '1'), ('item', '1'), ('item', '2'), ('item', '2')]
        elif ev in ('set0sec', 'set0eq', 'set0u'):
            name = {'set0sec': 'section', 'set0eq': 'equation', 'set0u': 'zzu'}[ev]
            self.c[name] = 0
            if self.dev & D_SET_RESETS:
                self.reset_children(name)
        else:
            raise ValueError(ev)

    def key(self):
        return (self.cls, self.numdepth, self.appendix, tuple(sorted(self.c.items())))


DEEP_FROM = 3
DEEP_EVENTS = ('ch', 'sec', 'sub', 'ssub', 'par', 'eq', 'prop', 'stepu')


def events_for(cls):
    evs = ['sec', 'sub', 'ssub', 'secstar', 'eq', 'eqa', 'fig', 'tab', 'thm', 'lem', 'prop', 'app', 'setsec', 'setsub',
           'addeq', 'stepsec', 'enum', 'stepu', 'addsec', 'par', 'itemenum', 'descenum', 'set0sec', 'set0eq', 'set0u']
    if cls == 'book':
        evs = ['ch', 'setch9'] + evs
    return evs


def enabled(cls, nd, ev):
    # a theorem numbered within section while sections are below the numbering depth: LaTeX does not step the
    # section counter there, plasTeX's option does -- outside the scope of the statement
    if ev in ('prop', 'stepu') and nd is not None and nd < 1:
        return False
    if ev == 'app' and nd is not None and nd < (0 if cls == 'book' else 1):
        return False
    return True


def event_source(cls, e):
    if e == 'app':
        # normal form: \\appendix is immediately followed by its first unit (\\Alph of 0 is outside the range of the property)
        return '\\appendix' + ('\\chapter{T}' if cls == 'book' else '\\section{T}')
    return EVENTS[e]


def document(cls, hist):
    return '\\documentclass{%s}%s\\begin{document}%s\\end{document}' % (cls, PREAMBLE,
                                                                       ''.join(event_source(cls, e) for e in hist))


NUMBERED = ('chapter', 'section', 'subsection', 'subsubsection', 'paragraph', 'equation', 'caption', 'thmenv', 'item')


def observe(cls, numdepth, hist, reset=True):
    from plasTeX.TeX import TeX
    if reset:
        state.reset()
    with core.time_limit(20):
        tex = TeX()
        doc = tex.ownerDocument
        doc.context.warnOnUnrecognized = False
        if numdepth is not None:
            doc.config['document']['sec-num-depth'] = numdepth
        tex.input(document(cls, hist))
        tex.parse()
    out = []

    def rec(n, in_eqnarray):
        if n.nodeType == n.TEXT_NODE:
            return
        name = n.nodeName
        r = getattr(n, 'ref', None)
        if name == 'ArrayRow' and in_eqnarray:
            if r is not None:
                out.append(('row', str(r.textContent)))
        elif name == 'item':
            # only the items of numbered lists carry a number the statement speaks about
            if getattr(n.parentNode, 'nodeName', None) == 'enumerate':
                out.append((name, str(r.textContent) if r is not None else None))
        elif name in NUMBERED:
            out.append((name, str(r.textContent) if r is not None else None))
        for c in n.childNodes:
            rec(c, in_eqnarray or name == 'eqnarray')
    rec(doc, False)
    counters = {k: doc.context.counters[k].value for k in ('section', 'subsection', 'subsubsection', 'paragraph', 'equation',
                                                            'figure', 'table', 'zzthm', 'zzprop', 'zzu')}
    if cls == 'book':
        counters['chapter'] = doc.context.counters['chapter'].value
    return out, counters


def expected(cls, numdepth, hist, dev=0):
    m = LModel(cls, 2 if numdepth is None else numdepth, dev)
    for e in hist:
        m.apply(e)
    cnt = {k: v for k, v in m.c.items() if k in ('section', 'subsection', 'subsubsection', 'paragraph', 'equation', 'figure',
                                                'table', 'zzthm', 'zzprop', 'chapter', 'zzu')}
    if cls != 'book':
        cnt.pop('chapter', None)
    if m.numdepth < 4:
        cnt.pop('paragraph', None)
    if m.numdepth < 3:
        cnt.pop('subsubsection', None)
    # counters of units that are below the numbering depth are not compared (LaTeX does not step them)
    if m.numdepth < 2:
        cnt.pop('subsection', None)
    if m.numdepth < 1:
        cnt.pop('section', None)
        cnt.pop('zzprop', None)
        cnt.pop('zzu', None)
    return m.out, cnt, m


def judge(cls, numdepth, hist):
    try:
        obs, ocnt = observe(cls, numdepth, hist)
    except core.Timeout:
        return 'violation', [], None, 'timeout', None
    except Exception as e:
        return 'violation', [], None, 'raises %s: %s' % (type(e).__name__, str(e)[:100]), None
    exp, ecnt, m = expected(cls, numdepth, hist)
    ocnt_c = {k: v for k, v in ocnt.items() if k in ecnt}
    if obs == exp and ocnt_c == ecnt:
        return 'ok', [], (exp, ecnt), (obs, ocnt_c), m
    for dev in (D_SET_RESETS, D_BOOK_EQ_PREFIX, D_SET_RESETS | D_BOOK_EQ_PREFIX):
        e2, c2, m2 = expected(cls, numdepth, hist, dev)
        o2 = {k: v for k, v in ocnt.items() if k in c2}
        if obs == e2 and o2 == c2:
            return 'known', [DEV_NAMES[d] for d in DEV_NAMES if d & dev], (exp, ecnt), (obs, ocnt_c), m
    return 'violation', [], (exp, ecnt), (obs, ocnt_c), m


def expand_chunk(hists):
    rep = core.Report()
    children = []
    if not hists:
        for cls in ('article', 'book'):
            for nd in ((None, 0, 3, 4) if cls == 'article' else (None, 0, 3)):
                m = LModel(cls, 2 if nd is None else nd)
                children.append((((cls, nd),), core.h64(m.key())))
        return rep, children
    for h in hists:
        (cls, nd), evs = h[0], h[1:]
        for ev in events_for(cls):
            if not enabled(cls, nd, ev):
                continue
            if ev == 'set0sec' and 'app' in evs and cls == 'article':
                continue        # \Alph of 0 is outside the range of the statement
            if len(evs) >= DEEP_FROM and ev not in DEEP_EVENTS:
                continue        # beyond this depth only the sectioning / reset-relevant events are extended
            h2 = evs + (ev,)
            v, fids, exp, obs, m = judge(cls, nd, h2)
            rep.traces += 1
            changing = any(e in ('app', 'setsec', 'setsub', 'addeq', 'stepsec', 'ch', 'sec', 'set0sec', 'set0eq', 'itemenum') for e in h2[:-1])
            rep.case(key=(cls, nd, h2), nontrivial=changing and ev not in ('app', 'setsec', 'setsub', 'addeq', 'stepsec'),
                     outcome=repr(obs)[:300])
            rep.count('ev_' + ev)
            case = {'kind': 'hist', 'cls': cls, 'numdepth': nd, 'hist': list(h2)}
            if v == 'violation':
                rep.violation(case, exp, obs, document(cls, h2))
                continue
            if v == 'known':
                for f in fids:
                    rep.known_finding(f, case, document(cls, h2))
            elif len(h2) >= 3:
                rep.sample({'document': document(cls, h2), 'numbers': obs[0] if obs else None})
            key = core.h64((m.key(), tuple(sorted(obs[1].items())) if obs else None))
            children.append((((cls, nd),) + h2, key))
    return rep, children


SEQ_HISTS = [('sec', 'sub', 'eq', 'thm', 'prop'), ('sec', 'eq', 'app', 'sub', 'eq'), ('sec', 'sub', 'fig', 'eqa')]


def judge_after(first_cls, cls, hist):
    """a document of class first_cls is processed first, then (same process, nothing reset in between) the document under
    test: its numbers must be those it gets alone"""
    warm = ('ch', 'sec', 'eq') if first_cls == 'book' else ('sec', 'sub', 'eq')
    try:
        observe(first_cls, None, warm)
        obs, ocnt = observe(cls, None, hist, reset=False)
    except Exception as e:
        return 'violation', None, 'raises %s: %s' % (type(e).__name__, str(e)[:100])
    exp, ecnt, m = expected(cls, None, hist)
    ocnt_c = {k: v for k, v in ocnt.items() if k in ecnt}
    if obs == exp and ocnt_c == ecnt:
        return 'ok', (exp, ecnt), (obs, ocnt_c)
    return 'violation', (exp, ecnt), (obs, ocnt_c)


def run_block_after(block):
    rep = core.Report()
    for first_cls in (block[1],):
        for cls in ('article', 'book'):
            for hist in SEQ_HISTS:
                h = (('ch',) + hist) if cls == 'book' else hist
                v, exp, obs = judge_after(first_cls, cls, h)
                rep.case(key=('after', first_cls, cls, h), nontrivial=True, outcome=repr(obs)[:300])
                rep.count('after_another_document')
                if v != 'ok':
                    rep.violation({'kind': 'after', 'first': first_cls, 'cls': cls, 'hist': list(h)}, exp, obs,
                                  'a %s document was processed before this %s document in the same interpreter: %s' % (
                                      first_cls, cls, document(cls, h)))
    return rep.close_block()


def replay(case):
    if case['kind'] == 'after':
        v, exp, obs = judge_after(case['first'], case['cls'], tuple(case['hist']))
        return {'verdict': v, 'expected': exp, 'observed': obs, 'detail': 'after a %s document' % case['first']}
    if case['kind'] == 'repr':
        r = run_block_repr((case['n'], case['n'] + 1, case['via_parser']))
        if r.violations:
            v = r.violations[0]
            return {'verdict': 'violation', 'expected': v['expected'], 'observed': v['observed'], 'detail': v['detail']}
        return {'verdict': 'ok', 'expected': None, 'observed': None, 'detail': ''}
    v, fids, exp, obs, m = judge(case['cls'], case['numdepth'], tuple(case['hist']))
    doc = document(case['cls'], tuple(case['hist']))
    if v == 'known':
        f = core.Findings()
        notopen = [x for x in fids if not f.is_open(x)]
        if notopen:
            return {'verdict': 'violation', 'expected': exp, 'observed': obs,
                    'detail': 'only explained by deviations not listed as open: %s; %s' % (notopen, doc)}
        return {'verdict': 'known', 'fid': fids[0], 'expected': exp, 'observed': obs, 'detail': doc}
    return {'verdict': v, 'expected': exp, 'observed': obs, 'detail': doc}


def run(tier, seed, rep):
    state.pristine()
    quick = tier == 'quick'
    blocks = [(lo, min(lo + 250, 5000), False) for lo in range(1, 5000, 250)]
    step = 100
    top = 5000
    blocks += [(lo, min(lo + step, top), True) for lo in range(1, top, step)]
    core.merge_all(run_block_repr, core.rotate(blocks, seed), rep)
    core.merge_all(run_block_after, [('after', c) for c in ('article', 'report', 'book')], rep)
    depth = 4 if quick else 6
    global DEEP_FROM
    DEEP_FROM = 3 if quick else 4
    info = core.bfs(expand_chunk, depth, rep, chunk=8, state_cap=(60000 if quick else 2000000))
    return {'exhaustive': not info['capped'],
            'bounds': {'values': '1..4999 (alph 1..26), objects and parser', 'history_depth': info['depth_completed'],
                       'levels': info['levels'], 'capped': info['capped'], 'events': len(EVENTS)},
            'floors': {'evaluations': 10000, 'repr_via_parser': 4000}}
