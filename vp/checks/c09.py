"""
C09 -- Every reference resolves to the object its label names, wherever the label is.
(a) Engine E2: BFS over histories of Context.label / Context.ref calls on real Macro nodes, lock-step with a label table.
(b) Engine E1: documents with k labelled objects and r references in every position (before / between / inside / after),
    plus dangling references; the labelled object is located structurally, independently of the label machinery.
"""
import itertools, re
from vp import core, state

ID = 'C09'
LEVEL = 'model_checking'
RULE = ('(a) states = histories over {ref(o,key,label) for 3 objects x 2 keys x labels {L1,L2,blank,padded L1}, label(L,node), '
        'label(L) with the current labelled object set / unset, set-current(node)}; each label and each node is labelled at most '
        'once (normal form); dedup by (model, implementation tables). (b) documents = sequences of <= 2 (quick) / 3 (thorough) '
        'labelled objects from {section, subsection, label after heading, equation, eqnarray row 1/2, item, figure, table, '
        'theorem} x <= 2 references (\\ref/\\pageref) each to any label or to a missing one, in every slot (before, between, '
        'inside, after). Non-trivial: at least one forward reference or dangling reference.')
ASSUMPTIONS = [
    'model: label table + pending list; a reference made before its label is back-patched when the label appears',
    'normal form: a label is defined at most once, a node carries at most one label',
    'the labelled object of a document is located by kind and ordinal in the tree (not through Context.labels)',
]

# ---------------------------------------------------------------------------
# (a) API level
# ---------------------------------------------------------------------------
OBJS = 3
KEYS = ('a', 'b')
LABELS = ('L1', 'L2')
NODES = 2


class Model(object):
    def __init__(self):
        self.labels = {}        # label -> node index
        self.labelled_nodes = set()
        self.idref = {}         # (obj, key) -> ('node', n) | ('ph', label)
        self.pending = {}       # label -> list of obj (in order, with multiplicity)
        self.current = None
        self.node_id = {}       # node index -> label (its identifier)

    def ref(self, o, k, label):
        label = label.strip()
        if not label:
            return
        if label in self.labels:
            self.idref[(o, k)] = ('node', self.labels[label])
            return
        self.pending.setdefault(label, []).append(o)
        self.idref[(o, k)] = ('ph', label)

    def label(self, label, node):
        label = label.strip()
        if not label:
            return
        if node is None:
            node = self.current
        if node is not None:
            self.labels[label] = node
            self.labelled_nodes.add(node)
            self.node_id[node] = label
        if label in self.pending and label in self.labels:
            for o in self.pending[label]:
                for k in KEYS:
                    if self.idref.get((o, k)) == ('ph', label):
                        self.idref[(o, k)] = ('node', self.labels[label])
            del self.pending[label]

    def enabled(self):
        evs = []
        for o in range(OBJS):
            for k in KEYS:
                for lab in LABELS + ('  ', ' L1 '):
                    evs.append(('ref', o, k, lab))
        for lab in LABELS + ('  ',):
            if lab.strip() in self.labels:
                continue
            for n in range(NODES):
                if n not in self.labelled_nodes:
                    evs.append(('label', lab, n))
            if self.current is None or self.current not in self.labelled_nodes:
                evs.append(('label', lab, None))
        for n in range(NODES):
            if self.current != n:
                evs.append(('current', n))
        return evs

    def apply(self, ev):
        if ev[0] == 'ref':
            self.ref(ev[1], ev[2], ev[3])
        elif ev[0] == 'label':
            self.label(ev[1], ev[2])
        elif ev[0] == 'current':
            self.current = ev[1]

    def dump(self):
        return (tuple(sorted(self.labels.items())), tuple(sorted(self.idref.items())),
                tuple(sorted((k, tuple(v)) for k, v in self.pending.items())), self.current,
                tuple(sorted(self.node_id.items())))


class Impl(object):
    def __init__(self):
        import plasTeX
        from plasTeX.Context import Context
        self.ctx = Context()
        self.ctx.addGlobal('Macro', plasTeX.Macro)
        self.objs = [plasTeX.Command() for _ in range(OBJS)]
        self.nodes = [plasTeX.Command() for _ in range(NODES)]

    def apply(self, ev):
        if ev[0] == 'ref':
            self.ctx.ref(self.objs[ev[1]], ev[2], ev[3])
        elif ev[0] == 'label':
            self.ctx.label(ev[1], None if ev[2] is None else self.nodes[ev[2]])
        elif ev[0] == 'current':
            self.ctx.currentlabel = self.nodes[ev[1]]

    def dump(self):
        nid = {id(n): i for i, n in enumerate(self.nodes)}
        oid = {id(o): i for i, o in enumerate(self.objs)}
        labels = tuple(sorted((l, nid.get(id(n), '?')) for l, n in self.ctx.labels.items()))
        idref = []
        for i, o in enumerate(self.objs):
            for k, v in o.idref.items():
                if id(v) in nid:
                    idref.append(((i, k), ('node', nid[id(v)])))
                else:
                    # a placeholder: must not be one of the real nodes; identified by its id
                    idref.append(((i, k), ('ph', getattr(v, 'id', None))))
        pending = tuple(sorted((l, tuple(oid.get(id(o), '?') for o in lst)) for l, lst in self.ctx.refs.items()))
        cur = nid.get(id(self.ctx.currentlabel)) if self.ctx.currentlabel is not None else None
        node_id = tuple(sorted((i, getattr(n, '@id')) for i, n in enumerate(self.nodes) if getattr(n, '@id', None)))
        persistent = tuple(sorted((l, nid.get(id(n), '?')) for l, n in self.ctx.persistentLabels.items()))
        return (labels, tuple(sorted(idref)), pending, cur, node_id), persistent


def replay_history(hist):
    m = Model()
    im = Impl()
    for i, ev in enumerate(hist):
        ev = tuple(ev)
        m.apply(ev)
        try:
            im.apply(ev)
            d, persistent = im.dump()
        except Exception as e:
            return 'violation', m, im, {'step': i, 'event': ev, 'expected': 'no exception',
                                        'observed': '%s: %s' % (type(e).__name__, e)}
        if d != m.dump() or persistent != d[0]:
            return 'violation', m, im, {'step': i, 'event': ev, 'expected': m.dump(), 'observed': [d, persistent]}
    return 'ok', m, im, None


def expand_chunk(hists):
    rep = core.Report()
    children = []
    if not hists:
        st, m, im, info = replay_history(())
        return rep, [((), core.h64(m.dump()))]
    for h in hists:
        st, m, im, info = replay_history(h)
        rep.traces += 1
        if st != 'ok':
            rep.error('parent history does not replay: %r' % (h,))
            continue
        for ev in m.enabled():
            h2 = tuple(h) + (ev,)
            st2, m2, im2, info2 = replay_history(h2)
            rep.traces += 1
            forward = any(e[0] == 'label' for e in h2) and any(e[0] == 'ref' for e in h2)
            rep.case(key=h2, nontrivial=forward, outcome=m2.dump() if st2 == 'ok' else repr(info2)[:200])
            rep.count('api_' + ev[0])
            if st2 != 'ok':
                rep.violation({'kind': 'api', 'history': [list(e) for e in h2]}, info2['expected'], info2['observed'],
                              'step %s event %s' % (info2['step'], info2['event']))
                continue
            if forward and len(h2) >= 4:
                rep.sample({'history': [list(e) for e in h2]})
            children.append((h2, core.h64((m2.dump(), im2.dump()))))
    return rep, children


# ---------------------------------------------------------------------------
# (b) documents
# ---------------------------------------------------------------------------
# kind -> (source template with {L} = label command and {I} = inside slot, locator kind)
KINDS = {
    'sec': '\\section{T{L}}{I}',
    'secafter': '\\section{T}{L}{I}',
    # a starred command without a counter between the unit and its label (it numbers nothing, so it is not the labelled object)
    'secvstar': '\\section{T}\\vspace*{1cm}{L}{I}',
    'secnlstar': '\\section{T}w\\\\*{L}{I}',
    'sub': '\\subsection{T}{L}{I}',
    'eq': '\\begin{equation}a{L}\\end{equation}',
    'row1': '\\begin{eqnarray}a&=&b{L}\\\\ c&=&d\\end{eqnarray}',
    'row2': '\\begin{eqnarray}a&=&b\\\\ c&=&d{L}\\end{eqnarray}',
    'item': '\\begin{enumerate}\\item x\\item{L} y{I}\\end{enumerate}',
    'fig': '\\begin{figure}x\\caption{c}{L}{I}\\end{figure}',
    'tab': '\\begin{table}\\caption{d{L}}{I}\\end{table}',
    'thm': '\\begin{zzthm}{L}t{I}\\end{zzthm}',
    # labels nested in the first (optional) argument of the numbered object itself
    'thmopt': '\\begin{zzthm}[T{L}]t{I}\\end{zzthm}',
    'itemopt': '\\begin{enumerate}\\item x\\item[u{L}] y{I}\\end{enumerate}',
    # a unit below the numbering depth: it still is the object its label names (no number to print)
    'ssub': '\\subsubsection{T}{L}{I}',
    'para': '\\paragraph{T}{L} z',
    # a starred eqnarray processed before the first numbered one (class-level caches must not carry over)
    'starrow2': '\\begin{eqnarray*}p&=&q\\\\ r&=&s\\end{eqnarray*}\\begin{eqnarray}a&=&b\\\\ c&=&d{L}\\end{eqnarray}',
}
HAS_INSIDE = {k for k, v in KINDS.items() if '{I}' in v}


def numbers(objs):
    """expected printed number of each object (article class, no counter manipulation)"""
    c = {'section': 0, 'subsection': 0, 'equation': 0, 'figure': 0, 'table': 0, 'thm': 0}
    out = []
    for k in objs:
        if k in ('sec', 'secafter', 'secvstar', 'secnlstar'):
            c['section'] += 1
            c['subsection'] = 0
            out.append(str(c['section']))
        elif k == 'sub':
            c['subsection'] += 1
            out.append('%d.%d' % (c['section'], c['subsection']))
        elif k == 'eq':
            c['equation'] += 1
            out.append(str(c['equation']))
        elif k == 'row1':
            c['equation'] += 2
            out.append(str(c['equation'] - 1))
        elif k in ('row2', 'starrow2'):
            c['equation'] += 2
            out.append(str(c['equation']))
        elif k in ('ssub', 'para'):
            out.append(None)
        elif k in ('item', 'itemopt'):
            out.append('2')
        elif k == 'fig':
            c['figure'] += 1
            out.append(str(c['figure']))
        elif k == 'tab':
            c['table'] += 1
            out.append(str(c['table']))
        elif k in ('thm', 'thmopt'):
            c['thm'] += 1
            out.append(str(c['thm']))
    return out


def build_doc(objs, refs, skip=0):
    """objs: tuple of kinds; refs: tuple of (cmd, target index or -1 (dangling), slot) ;
    slots: 0..k = before object i / after the last; ('in', i) = inside object i"""
    k = len(objs)
    slot_text = {}
    for j, (cmd, target, slot) in enumerate(refs):
        lab = 'zz%d' % target if target >= 0 else 'zznone'
        slot_text.setdefault(tuple(slot) if isinstance(slot, list) else slot, []).append('\\%s{%s}' % (cmd, lab))
    parts = []
    for i, kind in enumerate(objs):
        parts.append(' '.join(slot_text.get(i, [])))
        src = KINDS[kind].replace('{L}', '\\label{zz%d}' % i).replace('{I}', ' '.join(slot_text.get(('in', i), [])))
        if i >= skip:       # (the previous run of a re-run case did not have the first `skip` objects yet)
            parts.append(src)
    parts.append(' '.join(slot_text.get(k, [])))
    return ('\\documentclass{article}\\newtheorem{zzthm}{Theorem}\\begin{document}x ' + ' '.join(parts) + ' y\\end{document}')


def locate(doc, objs):
    """structural location of each labelled object: list of sets of acceptable nodes"""
    order = []

    def rec(n):
        if n.nodeType == n.TEXT_NODE:
            return
        order.append(n)
        for c in n.childNodes:
            rec(c)
    rec(doc)
    byname = {}
    for n in order:
        byname.setdefault(n.nodeName, []).append(n)
    cnt = {}

    def take(name):
        i = cnt.get(name, 0)
        cnt[name] = i + 1
        lst = byname.get(name, [])
        return lst[i] if i < len(lst) else None
    out = []
    for kind in objs:
        if kind in ('sec', 'secafter', 'secvstar', 'secnlstar'):
            out.append([take('section')])
        elif kind == 'sub':
            out.append([take('subsection')])
        elif kind == 'eq':
            out.append([take('equation')])
        elif kind == 'ssub':
            out.append([take('subsubsection')])
        elif kind == 'para':
            out.append([take('paragraph')])
        elif kind in ('row1', 'row2', 'starrow2'):
            env = take('eqnarray')
            rows = [c for c in env.childNodes if c.nodeName == 'ArrayRow'] if env is not None else []
            if kind == 'row1':
                out.append([env] + rows[:1])
            else:
                out.append(rows[1:2])
        elif kind in ('item', 'itemopt'):
            env = take('enumerate')
            items = [c for c in env.childNodes if c.nodeName == 'item'] if env is not None else []
            out.append(items[1:2])
        elif kind in ('fig', 'tab'):
            env = take('figure' if kind == 'fig' else 'table')
            caps = env.getElementsByTagName('caption') if env is not None else []
            out.append(list(caps[:1]))
        elif kind in ('thm', 'thmopt'):
            out.append([take('thmenv')])
    return out, set(id(n) for n in order)


# spellings of label names: (written form of zzN, name LaTeX registers for it)
STYLES = {
    'plain': ('zz%s', 'zz%s'),
    'under': ('z_z%s', 'z_z%s'),          # _ and ^ are ordinary characters in a label name, in math mode as well
    'caret': ('z^z%s', 'z^z%s'),
    'macro': ('zz\\zzp %s', 'zzq%s'),      # the name is expanded: \def\zzp{q}
    'blank': ('z z%s', 'z z%s'),            # a blank, a comma, a hyphen are ordinary characters of a label name too
    'comma': ('z,z%s', 'z,z%s'),
    'hyphen': ('z-z%s', 'z-z%s'),
}


def restyle(src, style):
    w = STYLES[style][0]
    src = re.sub(r'\\(label|ref|pageref)\{zz(\d+|none)\}', lambda m: '\\%s{%s}' % (m.group(1), w % m.group(2)), src)
    if style == 'macro':
        src = src.replace('\\begin{document}', '\\def\\zzp{q}\\begin{document}', 1)
    return src


def canon_name(name, style):
    """registered name -> the canonical zzN it stands for (unchanged if it is not of the styled form)"""
    if name is None or style == 'plain':
        return name
    pat = re.escape(STYLES[style][1]).replace('%s', r'(\d+|none)')
    m = re.match('^' + pat + '$', str(name))
    return 'zz' + m.group(1) if m else name


def parse_rerun(objs, refs, src):
    """the document is processed for the second time in its directory (plasTeX.Compile.parse, as the command line does):
    the first run, rendered with XHTML so that it leaves its .paux file behind, did not have the first two objects yet"""
    import os, shutil, tempfile
    from plasTeX.Config import defaultConfig
    import plasTeX.Compile
    tmp = tempfile.mkdtemp(prefix='vp-c09-')
    old = os.getcwd()
    try:
        os.chdir(tmp)
        for run_, text in enumerate((build_doc(objs, refs, skip=2), src)):
            with open('job.tex', 'w') as f:
                f.write(text)
            config = defaultConfig()
            config['images']['imager'] = 'none'
            config['images']['vector-imager'] = 'none'
            config['general']['renderer'] = 'XHTML'
            config['files']['log'] = False
            if run_ == 0:
                plasTeX.Compile.run('job.tex', config)
                os.chdir(tmp)
                if not os.path.exists('job.paux'):
                    raise RuntimeError('first run left no job.paux')
            else:
                tex = plasTeX.Compile.parse('job.tex', config)
                return tex.ownerDocument
    finally:
        os.chdir(old)
        shutil.rmtree(tmp, ignore_errors=True)


def judge_doc(objs, refs, style='plain'):
    from plasTeX.TeX import TeX
    rerun = style == 'rerun'
    if rerun:
        style = 'plain'
    src = restyle(build_doc(objs, refs), style)
    cn = lambda x: canon_name(x, style)
    state.reset()
    try:
        with core.time_limit(60 if rerun else 20):
            if rerun:
                doc = parse_rerun(objs, refs, src)
            else:
                tex = TeX()
                tex.ownerDocument.context.warnOnUnrecognized = False
                tex.input(src)
                doc = tex.parse()
    except core.Timeout:
        return 'violation', 'timeout', src
    except Exception as e:
        return 'violation', 'raises %s: %s' % (type(e).__name__, str(e)[:100]), src
    problems = []
    targets, indoc = locate(doc, objs)
    nums = numbers(objs)
    ids = []
    for i, cand in enumerate(targets):
        cand = [c for c in cand if c is not None]
        lab = 'zz%d' % i
        hit = [c for c in cand if cn(getattr(c, 'id', None)) == lab]
        if not hit:
            problems.append('label %s is not the identifier of object %d (%s): ids %s' % (
                lab, i, objs[i], [getattr(c, 'id', None) for c in cand]))
        elif nums[i] is None:
            if hit[0].ref is not None and hit[0].ref.textContent:
                problems.append('object %d (%s) below the numbering depth is numbered %r' % (i, objs[i], hit[0].ref.textContent))
        else:
            r = hit[0].ref
            if r is None or r.textContent != nums[i]:
                problems.append('object %d (%s) is numbered %r, expected %r' % (i, objs[i], r.textContent if r is not None else None, nums[i]))
        ids.append(lab)
    refnodes = []

    def rec(n):
        if n.nodeType == n.TEXT_NODE:
            return
        if n.nodeName in ('ref', 'pageref'):
            refnodes.append(n)
        for c in n.childNodes:
            rec(c)
        attrs = getattr(n, 'attributes', None) or {}
        for k, v in attrs.items():
            if k != 'self' and hasattr(v, 'childNodes'):
                for c in v.childNodes:
                    rec(c)
    rec(doc)
    want = {}
    for cmd, target, slot in refs:
        want.setdefault(('zz%d' % target) if target >= 0 else 'zznone', 0)
        want['zz%d' % target if target >= 0 else 'zznone'] += 1
    seen = {}
    for rn in refnodes:
        lab = cn(rn.attributes.get('label'))
        seen[lab] = seen.get(lab, 0) + 1
        t = rn.idref.get('label')
        if lab == 'zznone':
            if t is not None and id(t) in indoc:
                problems.append('dangling reference resolved to document node %s' % t.nodeName)
            continue
        i = int(lab[2:])
        cand = [c for c in targets[i] if c is not None]
        if t is None or not any(t is c for c in cand):
            problems.append('\\%s{%s} resolves to %s (id %s), expected object %d (%s)' % (
                rn.nodeName, lab, getattr(t, 'nodeName', None), getattr(t, 'id', None), i, objs[i]))
        elif nums[i] is None:
            pass
        elif t.ref is None or t.ref.textContent != nums[i]:
            problems.append('\\ref{%s} would print %r, expected %r' % (lab, t.ref.textContent if t.ref is not None else None, nums[i]))
    if seen != want:
        problems.append('reference nodes found %r, expected %r' % (seen, want))
    if doc.context.refs and set(cn(x) for x in doc.context.refs) - {'zznone'}:
        problems.append('unresolved references left: %s' % sorted(doc.context.refs))
    if problems:
        return 'violation', '; '.join(problems[:3]), src
    return 'ok', '', src


def slots_for(objs):
    k = len(objs)
    s = list(range(k + 1))
    for i, kind in enumerate(objs):
        if kind in HAS_INSIDE:
            s.append(('in', i))
    return s


def run_block_doc(block):
    objs, maxrefs = block[:2]
    style = block[2] if len(block) > 2 else 'plain'
    rep = core.Report()
    k = len(objs)
    slots = slots_for(objs)
    targets = list(range(k)) + [-1]
    one = [(cmd, t, s) for t in targets for s in slots for cmd in (('ref', 'pageref') if t == 0 else ('ref',))]
    for r in range(1, maxrefs + 1):
        combos = [(x,) for x in one] if r == 1 else \
            [c for pair in itertools.combinations_with_replacement(one, r)
             for c in ([pair, pair[::-1]] if pair[0] != pair[1] and pair[0][2] == pair[1][2] else [pair])]
        for refs in combos:
            v, info, src = judge_doc(objs, refs, style)
            forward = any((t >= 0 and (s if isinstance(s, int) else s[1]) <= t) or t < 0 for c, t, s in refs)
            rep.case(key=(objs, refs, style), nontrivial=forward, outcome=info or 'ok')
            rep.count('doc_refs_%d' % r)
            if v != 'ok':
                case = {'kind': 'doc', 'objs': list(objs), 'refs': [list(x) for x in refs]}
                if style != 'plain':
                    case['style'] = style
                rep.violation(case, 'all references resolve', info, src)
            elif r == 2:
                rep.sample({'document': src})
    return rep.close_block()


def run_block(block):
    return run_block_doc(block)


def replay(case):
    if case['kind'] == 'api':
        st, m, im, info = replay_history([tuple(e) for e in case['history']])
        if st == 'ok':
            return {'verdict': 'ok', 'expected': None, 'observed': None, 'detail': ''}
        return {'verdict': 'violation', 'expected': info['expected'], 'observed': info['observed'],
                'detail': 'step %s event %s' % (info['step'], info['event'])}
    refs = tuple((c, t, tuple(s) if isinstance(s, list) else s) for c, t, s in case['refs'])
    v, info, src = judge_doc(tuple(case['objs']), refs, case.get('style', 'plain'))
    return {'verdict': v, 'expected': 'all references resolve to the labelled objects', 'observed': info, 'detail': src}


def run(tier, seed, rep):
    state.pristine()
    quick = tier == 'quick'
    info = core.bfs(expand_chunk, 4 if quick else 6, rep, chunk=16, state_cap=(300000 if quick else 4000000))
    kinds = list(KINDS)
    blocks = []
    for k in (1, 2) if quick else (1, 2, 3):
        for objs in itertools.product(kinds, repeat=k):
            if objs[0] == 'sub' or ('sub' in objs and objs[objs.index('sub') - 1] not in ('sec', 'secafter', 'sub', 'secvstar', 'secnlstar')
                                    and not any(o in ('sec', 'secafter', 'secvstar', 'secnlstar') for o in objs[:objs.index('sub')])):
                continue    # a subsection needs a section before it for the expected number to be defined
            blocks.append((objs, 2 if k < 3 else 1))
    # second run in the same directory: two unlabelled-in-the-first-run objects in front shift every number
    for k_ in kinds:
        if k_ != 'sub':
            blocks.append((('sec', 'eq', k_), 1, 'rerun'))
    # spellings of the label name: every single object (and a few pairs) with one reference, each spelling
    for style in ('under', 'caret', 'macro', 'blank', 'comma', 'hyphen'):
        for objs in [(k_,) for k_ in kinds if k_ != 'sub'] + [('sec', 'eq'), ('eq', 'row2'), ('sec', 'sub')]:
            blocks.append((objs, 1 if quick else 2, style))
    blocks = core.rotate(blocks, seed)
    core.merge_all(run_block, blocks, rep, chunksize=2)
    return {'exhaustive': not info['capped'],
            'bounds': {'api_depth': info['depth_completed'], 'api_levels': info['levels'], 'capped': info['capped'],
                       'objects': '<=2' if quick else '<=3', 'references': '<=2 (<=1 with 3 objects)', 'kinds': kinds},
            'floors': {'evaluations': 10000}}
