"""
C10 -- Lists and tables keep their shape: items, rows, cells and spans as written.
Engine E1: every list tree / every tabular of the families below; the expected shape is folded from the generated AST
(vp/refs/c10_shape.py), the observed shape is read from the parsed DOM; rules are compared as sets of
(row boundary, column) / (column gap, row), i.e. independent of top/bottom or left/right storage.
"""
import itertools
from vp import core, state
from vp.refs import c10_shape as R

ID = 'C10'
LEVEL = 'exploration'
RULE = ('LISTS: (L1) every labelled list tree over {itemize,enumerate,description} with <= 3 items per list, depth <= D and '
        '<= T items in total, item content in {one paragraph, two paragraphs, text+quote, text+tabular, bare nested list, '
        'text+nested list+text} x optional [term], typed tight and (smaller bound) with blank lines around items; (L2) every unlabelled shape of depth <= D with <= m items per list '
        '(<= S items in total), labelled by 3 kind rotations x 6 leaf-content rotations (menu plus quote-holding-a-list) x term pattern. '
        '(LS) under the article class, for d = 2..4: every chain (6 kind patterns; thorough: all 3^(d-1)) of d-1 single-item lists '
        'whose innermost item holds two sibling lists of 1-3 items each, all 9 kind pairs, with or without text around '
        'them, an enumerate sibling also with \\setcounter{enum..}{4} before its first item; in every list of every family each '
        'item must carry position start+1.. in order (enumerate: a ref showing that number). '
        '(LE) items without a body: every sequence of <= 4 (depth 2: 3, depth 3: 2; thorough 5/4/3) items over {paragraph, empty} '
        'x optional [term] with >= 1 empty item, all kinds, at nesting depth 1-3, the empty \\item followed by blank / newline / '
        'blank line; expected: still one (empty) item per \\item. '
        '(LD) chains of depth 5 and 6 (3 kind rotations, 1-3 innermost items, every level with a following item), bare and article. '
        'TABLES: (T1) every preamble of n columns over column types x every subset of the n+1 bar positions x every '
        'spelling (plain, spaced, @{} at every gap on either side of a bar, >{..} before / <{..} after every column, every *{k}{unit} folding with 1- and 2-column units) x 3 bodies; '
        '(T2) every span layout of an n x r grid with <= 2 \\multicolumn cells (all spans, all positions, incl. span 1) x '
        'every subset of the r+1 row boundaries carrying \\hline x (no \\cline | one \\cline{i-j}, every boundary, every '
        'range that is a union of whole cells of both adjacent rows) x preamble/multicolumn-spec pairs; (T2C) the same layouts x '
        'every boundary x every ordered pair of disjoint aligned \\cline ranges on it x {no, all other} \\hline; (T2V) every span '
        'layout x every bar subset (column types cycle l,c,r so that a shifted column style is visible in text-align) x every choice of {c,|r,l|,|c|} per multicolumn; (T3) every n x r grid of cell contents '
        'from {word, two words, two paragraphs, empty, unbraced \\bfseries, {\\bf ..}, $..$, \\textbf, nested tabular, nested array in $ $, itemize, \\def+use, '
        'use of outer \\def} without all-empty rows, plus multicolumn contents; (T4) row terminator / whitespace / '
        'environment (tabular, tabular[t], tabular*, array in \\[ \\] and $ $) / wrapper (bare, article, list item, center) '
        'spellings x 10 bodies; (T5) 1-2 (thorough 3) content rows with <= 2 (3) rows without content (`& &` or nothing before \\\\) '
        'before, between and after them x every subset of the written boundaries carrying \\hline, + one aligned \\cline; '
        '(T6) \\vline at the start / end / both of every subset of the cells of a row x 3 preambles; rows wider than the '
        'preamble (\\multicolumn reaching beyond the last column, surplus ordinary cell) x every bar subset. Every text leaf is a unique marker word. Non-trivial: >= 2 items / >= 2 cells; distinct = '
        'distinct source text; outcomes = distinct observed shapes')
ASSUMPTIONS = [
    'oracle: fold over the generated AST using the LaTeX rules quoted in vp/refs/c10_shape.py; no TeX binary to cross-check',
    'rows are full (spans sum to the declared column count) except in family T6; rows without content (T5) are '
    'expected to vanish and a rule written next to them to lie on the boundary between the nearest surviving rows',
    'item numbers: plasTeX steps its enum counter for every \\item of every list kind (also \\item[..]); the oracle '
    'asks for position 1..n in writing order, which is what the DOM offers to renderers (LaTeX itself would not '
    'number itemize/description items nor \\item[..])',
    '>{..} and <{..} carry declarations invisible to the observation (\\raggedright, \\relax): only "not a column, '
    'argument consumed" is checked, not whether the material is inserted into the cells',
    '\\cline ranges are restricted to unions of whole cells of both adjacent rows, so that a per-cell border '
    'representation can express the rule exactly whichever adjacent row carries it',
    'borders are read from the border-(top|bottom|left|right)* keys of ArrayCell.style; the text-align key of every '
    'cell is compared with the alignment of its column type (l, c, r, p -> left) or of its \\multicolumn spec',
]

LISTS = ('itemize', 'enumerate', 'description', 'trivlist', 'list')
TABLES = ('tabular', 'array', 'tabular*', 'tabularx', 'tabulary')
ENVS = ('quote', 'quotation', 'center', 'verse')
FMT = ('bfseries', 'bf', 'textbf', 'math', 'displaymath', 'itshape', 'em', 'emph')


# ---------------------------------------------------------------------------
# observation
# ---------------------------------------------------------------------------
def segments(node):
    """paragraph-transparent, inline-transparent description of the children of `node`"""
    from plasTeX.DOM import Node
    segs = []
    chars = []      # (text, fmt)

    def flush():
        if chars:
            flat = ''.join(t for t, f in chars)
            fm = []
            for t, f in chars:
                fm.extend([f] * len(t))
            marks = []
            for mm in R.MARK.finditer(flat):
                fs = set(fm[mm.start():mm.end()])
                marks.append((mm.group(0), fm[mm.start()] if len(fs) == 1 else ('mixed',)))
            rest = R.MARK.sub('', flat).strip()
            if rest:
                marks.append(('stray-text:' + rest[:20], ()))
            if marks:
                segs.append(('t', tuple(marks)))
            del chars[:]

    def walk(n, fmt, depth):
        if depth > 60:
            segs.append(('too-deep',))
            return
        for c in n.childNodes:
            if c.nodeType == Node.TEXT_NODE:
                chars.append((str(c), fmt))
                continue
            name = c.nodeName
            if name == 'par':
                flush()
                walk(c, fmt, depth + 1)
                flush()
            elif name in LISTS:
                flush()
                segs.append(observe_list(c))
            elif name in TABLES:
                flush()
                segs.append(observe_table(c))
            elif name in ENVS:
                flush()
                segs.append(('env', name, segments(c)))
            elif name in ('item', 'ArrayRow', 'ArrayCell'):
                flush()
                segs.append(('misplaced', name, segments(c)))
            else:
                walk(c, fmt + (name,) if name in FMT else fmt, depth + 1)
    walk(node, (), 0)
    flush()
    return tuple(segs)


_WITHREF = [False]      # set per case by judge(): reference texts are compared only in documents that load a class


def observe_list(node):
    from plasTeX.DOM import Node
    items = []
    # item numbers exist when LaTeX's enum counters do (plasTeX's base macro set defines them)
    withpos = 'enumi' in node.ownerDocument.context.counters
    for c in node.childNodes:
        if c.nodeType == Node.TEXT_NODE:
            if str(c).strip():
                items.append(('stray-text', str(c)[:20]))
            continue
        if c.nodeName == 'item':
            term = c.attributes.get('term') if c.attributes else None
            if term is not None:
                tt = R.MARK.findall(term.textContent if hasattr(term, 'textContent') else str(term))
                term = tt[0] if len(tt) == 1 else tuple(tt)
            pos = None
            if withpos:
                ref = c.ref
                reftext = ''.join(ref.textContent.split()) if ref is not None and hasattr(ref, 'textContent') else None
                pos = (c.position, reftext if node.nodeName == 'enumerate' and _WITHREF[0] else None)
            items.append((term, pos, segments(c)))
        elif c.nodeName == 'par' and not c.textContent.strip():
            continue
        else:
            items.append(('stray', c.nodeName, segments(c)))
    return ('list', node.nodeName, tuple(items))


def observe_table(node):
    from plasTeX.DOM import Node
    rows = []
    problems = []
    H = set()
    V = set()
    i = 0
    for rn in node.childNodes:
        if rn.nodeType == Node.TEXT_NODE:
            if str(rn).strip():
                problems.append(('stray-text', str(rn)[:20]))
            continue
        if rn.nodeName != 'ArrayRow':
            problems.append(('stray', rn.nodeName))
            continue
        cells = []
        col = 0
        for cn in rn.childNodes:
            if cn.nodeType == Node.TEXT_NODE:
                if str(cn).strip():
                    problems.append(('stray-text-in-row', str(cn)[:20]))
                continue
            if cn.nodeName != 'ArrayCell':
                problems.append(('stray-in-row', cn.nodeName))
                continue
            span = 1
            if cn.attributes:
                span = cn.attributes.get('colspan', 1)
            if not isinstance(span, int) or span < 1:
                problems.append(('bad-span', repr(span)))
                span = 1
            for k in (cn.style or {}).keys():
                if k.startswith('border-top'):
                    H.update((i, j) for j in range(col, col + span))
                elif k.startswith('border-bottom'):
                    H.update((i + 1, j) for j in range(col, col + span))
                elif k.startswith('border-left'):
                    V.add((col, i))
                elif k.startswith('border-right'):
                    V.add((col + span, i))
            cells.append((span, (cn.style or {}).get('text-align'), segments(cn)))
            col += span
        rows.append(tuple(cells))
        i += 1
    declared = len(node.colspec) if node.colspec is not None else None
    return ('table', declared, tuple(rows), tuple(sorted(H)), tuple(sorted(V)), tuple(problems))


def observe(src):
    from plasTeX.TeX import TeX
    state.reset()       # also releases the previous case's document (state.release_generated_classes)
    try:
        with core.time_limit(15.0):
            tex = TeX()
            tex.ownerDocument.context.warnOnUnrecognized = False
            tex.input(src)
            doc = tex.parse()
            obs = segments(doc)
    except core.Timeout:
        return ('timeout',)
    except Exception as e:
        return ('raises', type(e).__name__, str(e)[:100])
    return obs


def judge(case):
    """-> (verdict, fids, expected, observed, source)"""
    src, exp = R.build(case)
    _WITHREF[0] = R.has_class(case)
    obs = observe(src)
    if obs == exp:
        return 'ok', [], exp, obs, src
    devs = R.DEVIATIONS
    for k in range(1, len(devs) + 1):
        for sub in itertools.combinations(devs, k):
            s2, e2 = R.build(case, sub)
            if e2 != exp and obs == e2:
                return 'known', list(sub), exp, obs, src
    return 'violation', [], exp, obs, src


def diff(exp, obs, path='doc'):
    """first point where two shapes differ (for the report)"""
    if exp == obs:
        return ''
    if isinstance(exp, tuple) and isinstance(obs, tuple):
        if len(exp) != len(obs):
            return '%s: expected %d parts %r, observed %d parts %r' % (path, len(exp), _short(exp), len(obs), _short(obs))
        for i, (a, b) in enumerate(zip(exp, obs)):
            if a != b:
                return diff(a, b, '%s[%d]' % (path, i))
    return '%s: expected %r, observed %r' % (path, _short(exp), _short(obs))


def _short(x):
    s = repr(x)
    return s if len(s) < 260 else s[:257] + '...'


def replay(case):
    v, fids, exp, obs, src = judge(case)
    detail = 'source: %s || %s' % (src, diff(exp, obs))
    if v == 'known':
        f = core.Findings()
        notopen = [x for x in fids if not f.is_open(x)]
        if notopen:
            return {'verdict': 'violation', 'expected': exp, 'observed': obs,
                    'detail': 'only explained by deviations not listed as open: %s; %s' % (notopen, detail)}
        return {'verdict': 'known', 'fid': fids[0], 'fids': fids, 'expected': exp, 'observed': obs, 'detail': detail}
    return {'verdict': v, 'expected': exp, 'observed': obs, 'detail': detail}


# ---------------------------------------------------------------------------
# enumeration: tables
# ---------------------------------------------------------------------------
def row_shapes(n):
    """every way to fill n columns with cells (span, is_multicolumn); span > 1 needs \\multicolumn"""
    res = []

    def rec(left, acc):
        if left == 0:
            res.append(tuple(acc))
            return
        rec(left - 1, acc + [(1, 0)])
        for s in range(1, left + 1):
            rec(left - s, acc + [(s, 1)])
    rec(n, [])
    return res


def layouts(n, r, maxmc):
    shapes = [(sh, sum(c[1] for c in sh)) for sh in row_shapes(n)]
    shapes = [x for x in shapes if x[1] <= maxmc]

    def rec(i, left, acc):
        if i == r:
            yield tuple(acc)
            return
        for sh, k in shapes:
            if k <= left:
                for x in rec(i + 1, left - k, acc + [sh]):
                    yield x
    return rec(0, maxmc, [])


def rule_sets(rows, n, clines=True):
    r = len(rows)
    cl_opts = [None]
    if clines:
        for b in range(r + 1):
            for lo in range(1, n + 1):
                for hi in range(lo, n + 1):
                    if R.cline_aligned(rows, b, lo, hi):
                        cl_opts.append((b, lo, hi))
    for hmask in range(1 << (r + 1)):
        for cl in cl_opts:
            rules = [[(hmask >> b) & 1, None] for b in range(r + 1)]
            if cl:
                rules[cl[0]][1] = [cl[1], cl[2]]
            yield rules


def gen_T2C(n, r, maxmc, pair):
    """two disjoint \\cline on one boundary (the usual way to rule off separate column groups)"""
    which, mcspec = T2_PAIRS[pair]
    cols, bars = _pair(n, which)
    ranges = [(lo, hi) for lo in range(1, n + 1) for hi in range(lo, n + 1)]
    for lay in layouts(n, r, maxmc):
        rows = [[[s, mcspec if mc else None, 'M'] for s, mc in sh] for sh in lay]
        for b in range(r + 1):
            for a in ranges:
                for c in ranges:
                    if c[0] <= a[1]:
                        continue
                    if not (R.cline_aligned(rows, b, *a) and R.cline_aligned(rows, b, *c)):
                        continue
                    for hall in (0, 1):
                        rules = [[hall if bb != b else 0] for bb in range(r + 1)]
                        rules[b] += [list(a), list(c)]
                        for order in (0, 1):
                            if order:
                                rules = [list(x) for x in rules]
                                rules[b] = [rules[b][0], rules[b][2], rules[b][1]]
                            yield {'fam': 'table', 'ast': t_ast(cols, bars, rows, rules)}


def gen_T5(n, r, maxempty):
    """rows without content (all cells empty `& &`, or nothing before \\\\) before, between and after the content rows,
    up to maxempty of them, x every subset of the written row boundaries carrying \\hline (+ one aligned \\cline)"""
    cols, bars = _pair(n, 'alt')
    forms = [[[1, None, 'E'] for _ in range(n)], []] if n > 1 else [[]]
    contents = [plain_rows(n, r)]
    if n == 2:
        contents.append([[[2, 'c|', 'M']]] + plain_rows(n, r - 1))

    def fills(gaps, budget):
        # every way to put <= budget empty rows (ordered, each in one of the forms) into `gaps` gaps
        if gaps == 0:
            yield []
            return
        for k in range(budget + 1):
            for fs in itertools.product(range(len(forms)), repeat=k):
                for rest in fills(gaps - 1, budget - k):
                    yield [list(fs)] + rest
    for content in contents:
        for fill in fills(r + 1, maxempty):
            if not any(fill):
                continue            # tables without empty rows belong to T2
            rows = []
            for g in range(r + 1):
                rows += [[list(c) for c in forms[f]] for f in fill[g]]
                if g < r:
                    rows.append(content[g])
            R = len(rows)
            final = 1 if R and R_is_empty(rows[-1]) else 0
            cl_opts = [None]
            seen_r = [set() for _ in range(R + 1)]
            if n >= 2:
                for b in range(R + 1):
                    for lo, hi in ((1, 1), (2, n), (1, n)):
                        if lo <= hi and _aligned(rows, b, lo, hi) and (lo, hi) not in seen_r[b]:
                            seen_r[b].add((lo, hi))
                            cl_opts.append((b, lo, hi))
            for hmask in range(1 << (R + 1)):
                for cl in (cl_opts if hmask == 0 else [None]):
                    rules = [[(hmask >> b) & 1, None] for b in range(R + 1)]
                    if cl:
                        rules[cl[0]][1] = [cl[1], cl[2]]
                    yield {'fam': 'table', 'ast': t_ast(cols, bars, rows, rules, final=final)}


def R_is_empty(row):
    return R.row_is_empty(row)


def _aligned(rows, b, lo, hi):
    return R.cline_aligned(rows, b, lo, hi)


def gen_T6(nmax):
    """\\vline at the start / end of cells; rows wider than the preamble (\\multicolumn beyond the declared columns,
    surplus cells)"""
    for n in range(2, nmax + 1):
        for which in ('none', 'all', 'alt'):
            cols, bars = _pair(n, which)
            for ks in itertools.product(['M', 'VL', 'VR', 'VB'], repeat=n):
                if all(k == 'M' for k in ks):
                    continue
                rows = [[[1, None, k] for k in ks], plain_rows(n, 1)[0]]
                yield {'fam': 'table', 'ast': t_ast(cols, bars, rows, [[0, None]] * 3)}
                rows = [plain_rows(n, 1)[0], [[1, None, k] for k in ks]]
                yield {'fam': 'table', 'ast': t_ast(cols, bars, rows, [[1, None], [0, None], [1, None]])}
    for n in (1, 2, 3):
        cols = ''.join(CYC[i % 3] for i in range(n))
        for mask in range(1 << (n + 1)):
            bars = bars_list(mask, n)
            for spec in MCSPECS:
                wide = [[[n + 1, spec, 'M']],                                         # one cell wider than the table
                        plain_rows(n - 1, 1)[0] + [[2, spec, 'M']]]                    # last cell sticks out by one
                for w in (wide if n > 1 else wide[:1]):
                    yield {'fam': 'table', 'ast': t_ast(cols, bars, [plain_rows(n, 1)[0], w, plain_rows(n, 1)[0]],
                                                        [[0, None]] * 4)}
            yield {'fam': 'table', 'ast': t_ast(cols, bars, [plain_rows(n + 1, 1)[0], plain_rows(n, 1)[0]],
                                                [[0, None]] * 3)}                        # a surplus ordinary cell


def bars_list(mask, n):
    return [(mask >> k) & 1 for k in range(n + 1)]


CYC = 'lcrp'


def t_ast(cols, bars, rows, rules, **kw):
    d = {'env': 'tabular', 'cols': cols, 'bars': bars, 'spell': ['plain'], 'rows': rows, 'rules': rules, 'final': 0}
    d.update(kw)
    return d


def plain_rows(n, r, kind='M'):
    return [[[1, None, kind] for _ in range(n)] for _ in range(r)]


def gen_T1(n, types):
    for cols in itertools.product(types, repeat=n):
        cols = ''.join(cols)
        for mask in range(1 << (n + 1)):
            bars = bars_list(mask, n)
            for spell in R.spec_spellings(cols, bars):
                k = min(2, n)
                bodies = [
                    (plain_rows(n, 2), [[0, None], [1, None], [0, None]]),
                    ([plain_rows(n, 1)[0], [[k, '|c|', 'M']] + plain_rows(n - k, 1)[0]], [[0, None]] * 3),
                    ([plain_rows(n - 1, 1)[0] + [[1, 'r|', 'M']]], [[0, None]] * 2),
                ]
                for rows, rules in bodies:
                    yield {'fam': 'table', 'ast': t_ast(cols, bars, rows, rules, spell=spell, final=1)}


T2_PAIRS = [('none', 'c'), ('all', '|c|'), ('all', 'c'), ('none', 'c|'), ('alt', '|c')]


def _pair(n, which):
    cols = ''.join(CYC[i % 3] for i in range(n))
    if which == 'none':
        return cols, [0] * (n + 1)
    if which == 'all':
        return cols, [1] * (n + 1)
    return cols, [(k + 1) % 2 for k in range(n + 1)]


def gen_T2(n, r, maxmc, pair, clines=True):
    which, mcspec = T2_PAIRS[pair]
    cols, bars = _pair(n, which)
    for lay in layouts(n, r, maxmc):
        if pair in (2, 3) and not any(mc for sh in lay for s, mc in sh):
            continue        # without a \\multicolumn the table equals the one of the pair with the same preamble
        rows = [[[s, mcspec if mc else None, 'M'] for s, mc in sh] for sh in lay]
        for rules in rule_sets(rows, n, clines):
            yield {'fam': 'table', 'ast': t_ast(cols, bars, rows, rules)}


MCSPECS = ['c', '|r', 'l|', '|c|']


def gen_T2V(n, r, maxmc):
    cols = ''.join(CYC[i % 3] for i in range(n))
    for lay in layouts(n, r, maxmc):
        nmc = sum(mc for sh in lay for s, mc in sh)
        for specs in itertools.product(MCSPECS, repeat=nmc):
            for mask in range(1 << (n + 1)):
                it = iter(specs)
                rows = [[[s, next(it) if mc else None, 'M'] for s, mc in sh] for sh in lay]
                rules = [[0, None] for _ in range(r + 1)]
                rules[0][0] = 1
                rules[r][0] = 1
                yield {'fam': 'table', 'ast': t_ast(cols, bars_list(mask, n), rows, rules, tight=1)}


KINDS_FULL = ['M', 'M2', 'P2', 'E', 'BF', 'G', 'MA', 'TB', 'NT', 'NA', 'LI', 'DF', 'US']
KINDS_SMALL = ['M', 'E', 'BF', 'NT', 'DF', 'US']
KINDS_TINY = ['M', 'E', 'BF', 'US']


def gen_T3(n, r, kinds):
    cols = ''.join('lpc'[i % 3] for i in range(n))
    bars = [1] * (n + 1)
    for ks in itertools.product(kinds, repeat=n * r):
        rows = [[[1, None, ks[i * n + j]] for j in range(n)] for i in range(r)]
        if any(R.row_is_empty(row) for row in rows):
            continue
        rules = [[0, None] for _ in range(r + 1)]
        if r > 1:
            rules[1][0] = 1
        yield {'fam': 'table', 'ast': t_ast(cols, bars, rows, rules, tight=1)}


def gen_T3mc(kinds):
    # multicolumn carrying every content kind, beside / above every content kind
    for a in kinds:
        for b in kinds:
            for c in kinds:
                if a == 'E' and b == 'E':
                    continue
                rows = [[[2, 'c|', a], [1, None, b]], [[1, None, c], [1, '|r', 'M'], [1, None, 'US']]]
                rules = [[1, None], [0, [3, 3]], [0, None]]
                yield {'fam': 'table', 'ast': t_ast('lcp', [1, 0, 1, 1], rows, rules)}


def t4_bodies():
    M = 'M'
    out = []
    out.append(('lc', [0, 1, 0], plain_rows(2, 2), [[0, None], [1, None], [0, None]]))
    out.append(('rc', [1, 1, 1], plain_rows(2, 2), [[1, None], [0, None], [1, None]]))
    out.append(('l', [0, 0], plain_rows(1, 3), [[0, None], [0, None], [1, None], [0, None]]))
    out.append(('lcr', [1, 1, 1, 0], [plain_rows(3, 1)[0], [[2, 'c', M], [1, None, M]]],
                [[1, None], [0, [3, 3]], [1, None]]))                       # design-time witness
    out.append(('lcr', [0, 0, 0, 0], [[[1, None, M], [2, '|c|', M]], plain_rows(3, 1)[0]],
                [[0, None], [0, [1, 1]], [0, [2, 3]]]))
    out.append(('lp', [0, 1, 0], [[[1, None, 'E'], [1, None, M]], [[1, None, 'BF'], [1, None, 'US']]],
                [[0, None], [1, None], [0, None]]))
    out.append(('ll', [0, 0, 0], [[[2, 'c', M]], [[1, None, 'DF'], [1, None, 'US']], [[1, 'r', M], [1, None, 'E']]],
                [[1, None], [1, None], [0, [1, 2]], [0, None]]))
    out.append(('rl', [1, 0, 1], [[[1, None, 'NT'], [1, None, M]]], [[0, None], [1, None]]))
    out.append(('pl', [0, 1, 0], [[[1, None, 'LI'], [1, None, M]], [[1, None, 'NA'], [1, None, 'P2']]],
                [[0, None], [0, [2, 2]], [0, None]]))
    out.append(('lc', [2, 1, 2], plain_rows(2, 2), [[2, None], [0, None], [2, [1, 1]]]))       # || and \\hline\\hline
    return out


def gen_T4():
    seen = set()
    for cols, bars, rows, rules in t4_bodies():
        mathok = all(c[2] in ('M', 'E') for row in rows for c in row)
        for env, wrap in [('tabular', 'bare'), ('tabular', 'article'), ('tabular', 'item'), ('tabular', 'center'),
                          ('tabular_t', 'bare'), ('tabular*', 'bare'), ('array', 'display'), ('array', 'inline')]:
            if env == 'array' and not mathok:
                continue
            for term in sorted(R.TERMINATORS):
                for tight in (0, 1):
                    if (env, wrap, term, tight) == ('tabular', 'bare', 'bs', 0):
                        continue        # the default spelling is what every other family uses
                    for final in (0, 1):
                        case = {'fam': 'table', 'wrap': wrap,
                                'ast': t_ast(cols, bars, rows, rules, env=env, term=term, tight=tight, final=final)}
                        src = R.build(case)[0]      # descriptors that print the same text are one case
                        if src not in seen:
                            seen.add(src)
                            yield case


# ---------------------------------------------------------------------------
# enumeration: lists
# ---------------------------------------------------------------------------
LEAVES = ['P1', 'P2', 'EQ', 'ET']
NESTS = ['NB', 'NT']


def gen_lists(depth, maxitems, total):
    """every labelled list (kind, items) with depth <= depth, 1..maxitems items per list, <= total items overall"""
    def lists(d, budget):
        # yields (ast, items used)
        for kind in R.LIST_KINDS:
            for items, used in item_seqs(d, budget, maxitems):
                yield [kind, items], used

    def item_seqs(d, budget, room):
        if budget < 1 or room < 1:
            return
        for it, u in one_item(d, budget):
            yield [it], u
            for rest, u2 in item_seqs(d, budget - u, room - 1):
                yield [it] + rest, u + u2

    def one_item(d, budget):
        for term in (0, 1):
            for c in LEAVES:
                yield [term, c, None], 1
            if d > 1 and budget >= 2:
                for c in NESTS:
                    for sub, u in lists(d - 1, budget - 1):
                        yield [term, c, sub], 1 + u
    for ast, used in lists(depth, total):
        yield {'fam': 'list', 'ast': ast}


def shapes(depth, maxitems, total):
    """unlabelled shapes: a list is a tuple of items, an item is None (leaf) or a nested list"""
    def lists(d, budget):
        for seq, u in seqs(d, budget, maxitems):
            yield seq, u

    def seqs(d, budget, room):
        if budget < 1 or room < 1:
            return
        for it, u in item(d, budget):
            yield (it,), u
            for rest, u2 in seqs(d, budget - u, room - 1):
                yield (it,) + rest, u + u2

    def item(d, budget):
        yield None, 1
        if d > 1 and budget >= 2:
            for sub, u in lists(d - 1, budget - 1):
                yield sub, 1 + u
    for s, u in lists(depth, total):
        yield s


LEAF_ROT = ['P1', 'P2', 'EQ', 'EL', 'ET', 'P2']


def label_shape(shape, krot, lrot, tpat):
    cnt = [0, 0]

    def lab(lst, level):
        kind = R.LIST_KINDS[(level + krot) % 3]
        items = []
        for it in lst:
            cnt[1] += 1
            term = [0, 1, cnt[1] % 2][tpat]
            if it is None:
                c = LEAF_ROT[(cnt[0] + lrot) % len(LEAF_ROT)]
                cnt[0] += 1
                items.append([term, c, None])
            else:
                c = NESTS[(cnt[1] + lrot) % 2]
                items.append([term, c, lab(it, level + 1)])
        return [kind, items]
    return lab(shape, 0)


def gen_LS(d, full):
    """two sibling lists at depth d inside one item: a chain of d-1 single-item lists, whose innermost item holds two
    lists of 1-3 one-paragraph items each (with text around them, or nothing but the two lists); all kinds; an
    enumerate sibling also with \\setcounter{enum..}{4} before its first item.  Run under the article class so that
    item numbers exist"""
    K = R.LIST_KINDS
    if full:
        chains = list(itertools.product(K, repeat=d - 1))
    else:
        chains = sorted(set([(k,) * (d - 1) for k in K] + [tuple(K[(i + j) % 3] for j in range(d - 1)) for i in range(3)]))
    for chain in chains:
        for k1 in K:
            for k2 in K:
                for n1 in (1, 2, 3):
                    for n2 in (1, 2, 3):
                        for st1 in ((0, 4) if k1 == 'enumerate' else (0,)):
                            for st2 in ((0, 4) if k2 == 'enumerate' else (0,)):
                                for ctype in ('N2', 'N2B'):
                                    l1 = [k1, [[0, 'P1', None] for _ in range(n1)], st1]
                                    l2 = [k2, [[0, 'P1', None] for _ in range(n2)], st2]
                                    ast = [chain[-1], [[0, ctype, [l1, l2]], [0, 'P1', None]]]
                                    for k in reversed(chain[:-1]):
                                        ast = [k, [[0, 'NB', ast], [0, 'P1', None]]]
                                    yield {'fam': 'list', 'ast': ast, 'article': 1}


def gen_LE(depth, maxlen):
    """items without a body: every sequence of 1..maxlen items over {one paragraph, empty} x optional [term] with at least
    one empty item (so: first, middle, last, several in a row), all three kinds, as the list at nesting depth `depth`
    (inside a chain of lists whose items hold it bare or between text); case field esep = what follows the empty
    \\item: blank, newline or blank line"""
    K = R.LIST_KINDS
    for kind in K:
        for n in range(1, maxlen + 1):
            for cs in itertools.product(('P1', 'EM'), repeat=n):
                if 'EM' not in cs:
                    continue
                for ts in itertools.product((0, 1), repeat=n):
                    inner = [kind, [[t, c, None] for t, c in zip(ts, cs)]]
                    for ctype in (('NB', 'NT') if depth > 1 else (None,)):
                        for rot in (range(3) if depth > 1 else (0,)):
                            ast = inner
                            for level in range(depth - 2, -1, -1):
                                ast = [K[(level + rot) % 3], [[0, 'P1', None], [0, ctype, ast], [0, 'P1', None]]]
                            for esep in (0, 1, 2):
                                yield {'fam': 'list', 'ast': ast, 'esep': esep}


def gen_LD(dmax):
    """lists nested deeper than 4 (LaTeX allows 6 levels when the kinds are mixed): a chain of depth 5..dmax, every level
    with a second item after the nested list, innermost list with 1-3 items; 3 kind rotations, nest bare or with text"""
    K = R.LIST_KINDS
    for d in range(5, dmax + 1):
        for rot in range(3):
            for ninner in (1, 2, 3):
                for ctype in ('NB', 'NT'):
                    def kind(level):        # levels 5 and 6 never enumerate: LaTeX has no fifth enumerate format
                        return K[(level + rot) % 3] if level < 4 else ('itemize', 'description')[(level + rot) % 2]
                    ast = [kind(d - 1), [[0, 'P1', None] for _ in range(ninner)]]
                    for level in range(d - 2, -1, -1):
                        ast = [kind(level), [[0, ctype, ast], [0, 'P1', None]]]
                    yield {'fam': 'list', 'ast': ast}


def _sh_depth(sh):
    return 1 + max([_sh_depth(x) for x in sh if x is not None] or [0])


def _sh_total(sh):
    return sum(1 if x is None else 1 + _sh_total(x) for x in sh)


def _sh_width(sh):
    return max([len(sh)] + [_sh_width(x) for x in sh if x is not None])


def gen_L2(depth, maxitems, total, min_total, min_width=1, min_depth=1, diag=0):
    """shapes not already covered with all labellings by L1 (min_total) or by another L2 family (min_width/min_depth)"""
    for sh in shapes(depth, maxitems, total):
        if _sh_total(sh) < min_total or _sh_width(sh) < min_width or _sh_depth(sh) < min_depth:
            continue
        for krot in range(3):
            for lrot in ((2 * krot,) if diag else range(6)):
                yield {'fam': 'list', 'ast': label_shape(sh, krot, lrot, (krot + lrot) % 3)}


# ---------------------------------------------------------------------------
FAMILIES = {
    'T1': gen_T1, 'T2': gen_T2, 'T2C': gen_T2C, 'T2V': gen_T2V, 'T5': gen_T5, 'T6': gen_T6, 'LS': gen_LS, 'LD': gen_LD, 'LE': gen_LE, 'T3': gen_T3, 'T3mc': gen_T3mc, 'T4': gen_T4,
    'L1': gen_lists, 'L2': gen_L2,
}


def plan(tier):
    """-> list of (family, args, nstrides, extra case fields)"""
    q = tier == 'quick'
    p = []
    if q:
        for n in (1, 2, 3):
            p.append(('T1', (n, 'lcp' if n == 3 else 'lcrp'), 8 if n == 3 else 1, {}))
        for n in (1, 2, 3):
            for r in (1, 2, 3):
                for pair in (0, 1):
                    if n == 3 and r == 3:
                        p.append(('T2', (n, r, 1 if pair else 2, pair), 16, {}))
                    else:
                        p.append(('T2', (n, r, 2, pair), 4 if n * r >= 4 else 1, {}))
        for n, r in ((2, 1), (2, 2), (3, 1), (3, 2)):
            p.append(('T2V', (n, r, 2), 8 if n * r >= 6 else 2, {}))
        # a spanning cell followed by >= 2 ordinary cells under a non-uniform preamble needs >= 4 columns
        p.append(('T2V', (4, 1, 2), 8, {}))
        p.append(('T2V', (5, 1, 1), 4, {}))
        # ... and so does a \cline that has to be counted past a spanning cell and the ordinary cell after it
        p.append(('T2', (4, 1, 1, 0), 4, {}))
        p.append(('T2', (4, 2, 1, 1), 8, {}))
        for n, r in ((1, 1), (1, 2), (2, 1), (2, 2), (3, 1), (3, 2)):
            p.append(('T5', (n, r, 2), 4 if n * r >= 4 else 1, {}))
        p.append(('T6', (3,), 1, {}))
        for d in (2, 3, 4):
            p.append(('LS', (d, 0), 4, {}))
        p.append(('LD', (6,), 1, {}))
        p.append(('LD', (6,), 1, {'article': 1}))
        p.append(('LE', (1, 4), 2, {}))
        p.append(('LE', (2, 3), 4, {}))
        p.append(('LE', (3, 2), 2, {}))
        p.append(('LE', (1, 3), 1, {'article': 1}))
        for n, r in ((2, 1), (2, 2), (3, 1), (3, 2)):
            p.append(('T2C', (n, r, 2, 0), 2, {}))
        p.append(('T3', (1, 1, KINDS_FULL), 1, {}))
        p.append(('T3', (2, 1, KINDS_FULL), 1, {}))
        p.append(('T3', (1, 2, KINDS_FULL), 1, {}))
        p.append(('T3', (3, 1, KINDS_FULL), 4, {}))
        p.append(('T3', (2, 2, KINDS_SMALL), 4, {}))
        p.append(('T3', (3, 2, KINDS_TINY), 8, {}))
        p.append(('T3', (2, 3, KINDS_TINY), 8, {}))
        p.append(('T3mc', (KINDS_FULL,), 4, {}))
        p.append(('T4', (), 4, {}))
        p.append(('T2', (2, 2, 2, 1), 2, {'wrap': 'article'}))
        p.append(('T2', (2, 2, 2, 1), 2, {'wrap': 'item'}))
        p.append(('L1', (3, 3, 3), 8, {}))
        p.append(('L1', (2, 2, 2), 1, {'article': 1}))
        p.append(('L1', (3, 3, 2), 1, {'loose': 1}))
        p.append(('L2', (3, 2, 99, 4), 4, {}))
        p.append(('L2', (3, 3, 6, 4, 3), 8, {}))
    else:
        for n in (1, 2, 3):
            p.append(('T1', (n, 'lcrp'), {1: 1, 2: 2, 3: 16}[n], {}))
        p.append(('T1', (4, 'lcp'), 64, {}))
        p.append(('T1', (5, 'lp'), 64, {}))
        for n in (1, 2, 3, 4):
            for r in (1, 2, 3):
                for pair in range(5):
                    if n == 4 and r == 3:
                        p.append(('T2', (n, r, 1 if pair else 2, pair), 64, {}))
                    else:
                        p.append(('T2', (n, r, 2, pair), 32 if n * r >= 8 else (8 if n * r >= 4 else 1), {}))
        for n in (1, 2, 3, 4, 5):
            p.append(('T2', (n, 4, 1, 1), 32, {}))
        p.append(('T2', (5, 3, 1, 0), 32, {}))
        for n, r in ((2, 1), (2, 2), (3, 1), (3, 2), (4, 1), (4, 2), (3, 3), (5, 1)):
            p.append(('T2V', (n, r, 2), 32 if n * r >= 6 else 2, {}))
        for n, r in ((2, 1), (2, 2), (3, 1), (3, 2), (3, 3), (4, 1), (4, 2), (5, 1)):
            for pair in (0, 1):
                p.append(('T2C', (n, r, 2, pair), 16 if n * r >= 8 else 2, {}))
        for n, r, e in ((1, 1, 3), (1, 2, 3), (1, 3, 3), (2, 1, 3), (2, 2, 3), (2, 3, 2), (3, 1, 3), (3, 2, 2), (3, 3, 2)):
            p.append(('T5', (n, r, e), 16 if n * r >= 4 else 2, {}))
        p.append(('T6', (4,), 4, {}))
        for d in (2, 3, 4):
            p.append(('LS', (d, 1), 16, {}))
        p.append(('LD', (6,), 1, {}))
        p.append(('LD', (6,), 1, {'article': 1}))
        p.append(('LE', (1, 5), 8, {}))
        p.append(('LE', (2, 4), 16, {}))
        p.append(('LE', (3, 3), 16, {}))
        p.append(('LE', (1, 4), 4, {'article': 1}))
        p.append(('T3', (1, 1, KINDS_FULL), 1, {}))
        p.append(('T3', (2, 1, KINDS_FULL), 1, {}))
        p.append(('T3', (1, 2, KINDS_FULL), 1, {}))
        p.append(('T3', (3, 1, KINDS_FULL), 4, {}))
        p.append(('T3', (1, 3, KINDS_FULL), 4, {}))
        p.append(('T3', (2, 2, KINDS_FULL), 32, {}))
        p.append(('T3', (3, 2, KINDS_SMALL), 64, {}))
        p.append(('T3', (2, 3, KINDS_SMALL), 64, {}))
        p.append(('T3', (3, 3, KINDS_TINY[:3]), 32, {}))
        p.append(('T3', (5, 2, ['M', 'E']), 4, {}))
        p.append(('T3', (4, 3, ['M', 'E']), 8, {}))
        p.append(('T3mc', (KINDS_FULL,), 8, {}))
        p.append(('T4', (), 8, {}))
        for w in ('article', 'item', 'center'):
            p.append(('T2', (2, 2, 2, 1), 4, {'wrap': w}))
            p.append(('T2', (3, 2, 2, 0), 16, {'wrap': w}))
        p.append(('L1', (4, 3, 4), 128, {}))
        p.append(('L1', (3, 3, 3), 8, {'article': 1}))
        p.append(('L1', (3, 3, 3), 8, {'loose': 1}))
        p.append(('L2', (4, 2, 99, 5, 1, 1, 1), 128, {}))
        p.append(('L2', (3, 3, 8, 5, 3), 64, {}))
        p.append(('L2', (4, 3, 7, 5, 3, 4), 64, {}))
    return p


SUMMARY = {
    'quick': ('lists: all labelled trees depth<=3, <=3 items/list, <=3 items in total (article class and blank-line spelling: '
              '<=2 in total); all shapes depth<=3 with <=2 items/list (any size) and with <=3 items/list up to 6 items, 18 '
              'labellings each. tables: preambles of 1-3 columns (types lcrp, lcp for 3 columns); span/rule grids 1-3 x 1-3 '
              'with <=2 multicolumns (3x3 with all bars: <=1), 4x1 and 4x2 with <=1 multicolumn; cline pairs up to 3x2; vertical-bar/alignment family up to 3x2 '
              'plus 4x1 (<=2 multicolumns) and 5x1 (<=1), all 2^(n+1) bar subsets; cell '
              'contents 1x1..3x1 full menu of 13, 2x2 menu of 6, 3x2 and 2x3 menu of 4; content-less rows: grids 1-3 x 1-2 '
              'with <=2 such rows; vline / over-wide rows up to 3 columns; sibling-list family depth 2-4 (article class)'),
    'thorough': ('lists: all labelled trees depth<=4, <=3 items/list, <=4 items in total (article / blank-line spelling: <=3); '
                 'all shapes depth<=4 with <=2 items/list (3 labellings), depth<=3 with <=3 items/list up to 8 items and '
                 'depth 4 with <=3 items/list up to 7 items (18 labellings). tables: preambles of 1-5 columns (types lcrp up '
                 'to 3, lcp for 4, lp for 5); span/rule grids 1-4 x 1-3 with <=2 multicolumns and 5 preamble/spec pairs '
                 '(4x3: <=1 for pairs 2-5), 1-5 x 4 and 5x3 with <=1 multicolumn; cline pairs up to 3x3, 4x2, 5x1; '
                 'vertical-bar family up to 3x3, 4x2, 5x1; cell contents up to 2x2 full menu of 13, 3x2/2x3 menu of 6, '
                 '3x3 menu of 3, 5x2/4x3 menu of 2; content-less rows: grids 1-3 x 1-3 with <=3 (larger grids <=2) such rows; '
                 'vline / over-wide rows up to 4 columns; sibling-list family depth 2-4 with all kind chains (article class)'),
}


def cases_of(block):
    fam, args, idx, nstr, extra = block
    gen = FAMILIES[fam](*args)
    for case in itertools.islice(gen, idx, None, nstr):
        if extra:
            case = dict(case)
            case.update(extra)
        yield case


def nontrivial(case):
    ast = case['ast']
    if case['fam'] == 'list':
        return len(ast[1]) >= 2 or any(it[2] for it in ast[1])
    return sum(len(r) for r in ast['rows']) >= 2


def run_block(block):
    rep = core.Report()
    fam = block[0]
    for case in cases_of(block):
        v, fids, exp, obs, src = judge(case)
        rep.case(key=src, nontrivial=nontrivial(case), outcome=obs)
        rep.count('fam_' + fam)
        if case['fam'] == 'table':
            ast = case['ast']
            if any(c[1] is not None for row in ast['rows'] for c in row):
                rep.count('tables_with_multicolumn')
            if any(any(x[1:]) for x in ast['rules']):
                rep.count('tables_with_cline')
            if any(x[0] for x in ast['rules']):
                rep.count('tables_with_hline')
        if v == 'ok':
            if rep.evaluations % 97 == 5:
                rep.sample({'source': src})
            continue
        if v == 'known':
            for f in fids:
                rep.known_finding(f, case, 'source: %s || %s' % (src, diff(exp, obs)))
        else:
            rep.violation(case, exp, obs, 'source: %s || %s' % (src, diff(exp, obs)))
    return rep.close_block()


def run(tier, seed, rep):
    state.pristine()
    blocks = []
    bounds = {}
    for fam, args, nstr, extra in plan(tier):
        for i in range(nstr):
            blocks.append((fam, args, i, nstr, extra))
        bounds.setdefault(fam, []).append({'args': core.jsonable(args), 'extra': extra})
    bounds['summary'] = SUMMARY[tier]
    blocks = core.rotate(blocks, seed)
    core.merge_all(run_block, blocks, rep)
    return {'exhaustive': True, 'bounds': bounds, 'blocks': len(blocks),
            'floors': {'evaluations': 50000 if tier == 'quick' else 500000,
                       'tables_with_cline': 5000, 'tables_with_multicolumn': 5000, 'fam_L1': 5000,
                       'fam_T5': 3000, 'fam_T6': 500, 'fam_LS': 3000}}
