"""
C11 -- Verbatim text and mathematics pass through character-for-character.
Engine E1, two exhaustive families:
 (a) every verbatim body (string of symbols over the design alphabet) up to a length bound as content of
     verbatim, verbatim* and \\verb<d>...<d>;
 (b) every formula tree of a math grammar up to a depth bound in six contexts; the reconstructed LaTeX source
     (node.source / node.mathjax_source) is re-tokenized with the C01 reference lexer and compared with the
     tokens of the printed formula (user macro expanded on the AST), blanks dropped.
"""
import itertools, re
from vp import core, state
from vp.refs import tex_lexer as LX

ID = 'C11'
LEVEL = 'exploration'
RULE = ''          # filled in below
ASSUMPTIONS = []   # filled in below

DASH = '–'
PRE = '\\begin{document}\n\n'      # one paragraph break: see C07.NO_PAR_NO_CHARSUB
HEAD = 'x--'
TAIL = 'y--%c\n'
HEAD_TXT = 'x' + DASH
TAIL_TXT = 'y' + DASH

# ---------------------------------------------------------------------------------------------------------
# (a) verbatim bodies
# ---------------------------------------------------------------------------------------------------------
SYM16 = ['\\', '{', '}', '%', '#', '&', '$', '^', '~', ' ', '\n', '`', '-', 'e', 'n', 'd']
RED8 = ['\\', '{', '}', '%', ' ', '\n', '-', 'e']


def symbols(env, alpha):
    """alphabet: 'full' = 16 characters + 4 composite symbols (partial end markers of `env`, ^^M);
    'red' = 8 characters + the same 4 composites; 'ext' = full + the end marker without its escape character + the
    command form of the end marker"""
    comp = ['\\end', '\\end{' + env, '\\end{' + env[:-1] + '}', '^^M']
    if alpha == 'full':
        return SYM16 + comp
    if alpha == 'red':
        return RED8 + comp
    if alpha == 'ext':
        return SYM16 + comp + ['end{%s}' % env, '\\end' + env]
    raise ValueError(alpha)


# delimiters of \verb: every printable ASCII character except letters, blank and '*'
DELIMS = [chr(c) for c in range(33, 127) if not chr(c).isalpha() and chr(c) != '*']
SPECIAL_DELIMS = '\\{}%#&$~^'          # delimiters whose normal category is not "other" (and that misbehave)
RUNAWAY_DELIMS = '#&$~'

FID_DELIM = 'C11.VERB_DELIM_PRETOKENIZED'
FID_ENDCMD = 'C11.ENDCMD_IN_BODY'
FID_USERENV = 'C11.VERBATIM_IN_NEWENVIRONMENT'


def greedy(s, syms):
    """canonical (longest-match) decomposition of s into symbols; None if impossible"""
    out = []
    i = 0
    n = len(s)
    by_len = sorted(range(len(syms)), key=lambda k: -len(syms[k]))
    while i < n:
        for k in by_len:
            if s.startswith(syms[k], i):
                out.append(k)
                i += len(syms[k])
                break
        else:
            return None
    return tuple(out)


def is_env(kind):
    """verbatim, verbatim* and zzv (= \\newenvironment{zzv}{\\verbatim}{\\endverbatim}) are environments; verb, verb* commands"""
    return kind.startswith('verbatim') or kind == 'zzv'


def a_pre(kind):
    return ('\\newenvironment{zzv}{\\verbatim}{\\endverbatim}' + PRE) if kind == 'zzv' else PRE


def a_alphabet(kind, d, alpha):
    env = kind if kind.startswith('verbatim') else 'verbatim'
    syms = symbols(env, alpha)
    if d:
        syms = [s for s in syms if d not in s]
    return syms


def a_unit(kind, d, body):
    if is_env(kind):
        return '%s\\begin{%s}%s\\end{%s}%s' % (HEAD, kind, body, kind, TAIL)
    return '%s\\%s%s%s%s%s' % (HEAD, kind, d, body, d, TAIL)


def a_nodename(kind):
    return 'verbatim' if kind == 'zzv' else kind if is_env(kind) else 'verb'


_ADDR = re.compile(r'at 0x[0-9a-f]+')


def plain(x):
    """DOM Text / Token objects are str subclasses that drag the whole document along"""
    return x.encode('utf-8', 'surrogatepass').decode('utf-8', 'surrogatepass')


def parse_doc(src, limit=20.0):
    from plasTeX.TeX import TeX
    state.reset()
    with core.time_limit(limit):
        tex = TeX()
        tex.ownerDocument.context.warnOnUnrecognized = False
        tex.input(src)
        return tex.parse()


def a_observe(kind, d, bodies):
    """parse one document holding one unit per body -> (contents, text, depth, sources) or 'raises:..'/'timeout'"""
    src = a_pre(kind) + ''.join(a_unit(kind, d, b) for b in bodies)
    try:
        doc = parse_doc(src, 20.0 + 0.01 * len(bodies))
        nodes = doc.getElementsByTagName(a_nodename(kind))
        contents = [n.textContent for n in nodes]
        srcs = []
        if not is_env(kind):
            for n in nodes:
                try:
                    srcs.append(_ADDR.sub('at 0x?', plain(str(n.source))))
                except Exception as e:
                    srcs.append('raises:%s' % type(e).__name__)
        return [plain(c) for c in contents], plain(doc.textContent), len(doc.context.contexts), srcs
    except core.Timeout:
        return 'timeout'
    except Exception as e:
        return 'raises:%s' % type(e).__name__


def a_expected(kind, d, bodies):
    contents = list(bodies)
    text = ''.join(HEAD_TXT + b + TAIL_TXT for b in bodies)
    srcs = [] if is_env(kind) else ['\\%s%s%s%s' % (kind, d, b, d) for b in bodies]
    return contents, text, 2, srcs


def caret_artifact(kind, d, body):
    """\\verb^^... : the two carets directly after the control word form a ^^X sequence that TeX (and plasTeX) decode
    while the name \\verb is being scanned, before the macro runs -- outside the scope of the statement"""
    return kind in ('verb', 'verb*') and d == '^' and (body == '' or body.startswith('^')) and kind == 'verb'


def a_judge(kind, d, body):
    """-> (verdict, fid, expected, observed, detail) for a single body (document with one unit)"""
    if caret_artifact(kind, d, body):
        return 'ok', None, None, None, 'outside the alphabet (^^X after the control word)'
    exp = a_expected(kind, d, [body])
    obs = a_observe(kind, d, [body])
    if obs == exp:
        return 'ok', None, exp, obs, ''
    # --- named deviation: the opening delimiter of unstarred \verb is read before verbatim catcodes are installed
    if kind == 'verb' and d in SPECIAL_DELIMS:
        rest = body + d + TAIL
        if d in RUNAWAY_DELIMS:
            pred = ([rest], HEAD_TXT + rest, 2)
            if not isinstance(obs, str) and tuple(obs[:3]) == pred:
                return 'known', FID_DELIM, exp, obs, ('opening delimiter %r tokenized with its normal category; the closing '
                                                      'one (category 12) never matches: content runs to end of input' % d)
            return 'violation', None, exp, obs, 'differs from strict oracle and from the prediction of ' + FID_DELIM
        if d == '{':
            cut = rest[:rest.index('}')] if '}' in rest else rest
            if '}' not in body:
                pred = ([cut], HEAD_TXT + cut, 2)
                good = not isinstance(obs, str) and tuple(obs[:3]) == pred
            else:       # closed inside the body: the rest of the body is executed (not modelled)
                good = isinstance(obs, str) or obs[0][:1] == [cut]
            if good:
                return 'known', FID_DELIM, exp, obs, 'opening { (normal category 1) is closed by the next } instead of the next {'
            return 'violation', None, exp, obs, 'differs from strict oracle and from the prediction of ' + FID_DELIM
        if d == '^' and body != '':
            return 'violation', None, exp, obs, 'content/tail/depth/source differ'
        # d in '\\', '%', '}' (or ^^y): the pre-read token is an escape sequence, a comment,
        # a group end: the following input is then *executed*; not modelled
        return 'known', FID_DELIM, exp, obs, ('opening delimiter %r read under normal category codes (escape/comment/group '
                                              'token): input after it is interpreted, outcome not modelled' % d)
    # --- named deviation: \verbatim used as the begin code of a user environment does not look for that environment's end
    if kind == 'zzv':
        rest = body + '\\end{zzv}' + TAIL
        if not isinstance(obs, str) and obs[0] == [rest] and obs[1] == HEAD_TXT + rest:
            return 'known', FID_USERENV, exp, obs, ('\\begin{zzv} with \\newenvironment{zzv}{\\verbatim}{\\endverbatim}: the scan looks for '
                                                    '\\end{verbatim} / \\endverbatim, not \\end{zzv}: content runs to end of input')
        return 'violation', None, exp, obs, 'differs from strict oracle and from the prediction of ' + FID_USERENV
    # --- named deviation: the command form \end<env> inside the body terminates the environment
    if kind.startswith('verbatim'):
        marker = '\\end' + kind
        i = body.find(marker)
        if i >= 0:
            if isinstance(obs, str) or (obs[0] and obs[0][0] == body[:i]):
                return 'known', FID_ENDCMD, exp, obs, ('the literal text %s in the body ends the environment: content is cut '
                                                       'there, the rest of the body is executed' % marker)
    return 'violation', None, exp, obs, 'content/tail/depth/source differ'


def a_bodies(block):
    """generator of the bodies of a block (canonical decompositions only)"""
    _, kind, d, alpha, prefix, maxlen, minlen, must = block
    syms = a_alphabet(kind, d, alpha)
    full_end = '\\end{%s}' % ('verbatim' if kind == 'zzv' else kind) if is_env(kind) else None
    mustsyms = syms[-2:] if must else None
    pre = ''.join(syms[k] for k in prefix)
    for L in range(max(minlen, len(prefix)), maxlen + 1):
        for tail in itertools.product(range(len(syms)), repeat=L - len(prefix)):
            tup = tuple(prefix) + tail
            body = pre + ''.join([syms[k] for k in tail])
            if mustsyms is not None and mustsyms[0] not in body and mustsyms[1] not in body:
                continue
            if caret_artifact(kind, d, body):
                continue
            yield tup, body, syms, full_end


BATCH = 250
ABANDON = 25       # a block that has produced this many violations is not explored further (the run fails anyway)


def a_run_block(block):
    rep = core.Report()
    _, kind, d, alpha, prefix, maxlen, minlen, must = block
    batch = []

    def flush():
        if not batch:
            return
        exp = a_expected(kind, d, batch)
        obs = a_observe(kind, d, batch)
        if obs == exp:
            for b in batch:
                rep.case(key=(kind, d, b), nontrivial=len(b) > 0, outcome=(kind, b))
            if len(rep.samples) < 2:
                rep.sample({'kind': kind, 'delimiter': d, 'body': batch[-1], 'textContent': obs[0][-1]})
        else:
            for b in batch:
                if rep.nviolations >= ABANDON:
                    break
                v, fid, e, o, detail = a_judge(kind, d, b)
                rep.case(key=(kind, d, b), nontrivial=len(b) > 0 or v != 'ok',
                         outcome=(kind, b) if v == 'ok' else (kind, d, repr(o)))
                case = {'part': 'a', 'kind': kind, 'd': d, 'body': b}
                if v == 'ok':
                    rep.count('a_single_ok_after_batch_mismatch')
                elif v == 'known':
                    rep.known_finding(fid, case, detail)
                    rep.count('a_known')
                else:
                    rep.violation(case, e, o, detail)
        del batch[:]

    for tup, body, syms, full_end in a_bodies(block):
        if full_end and full_end in body:
            rep.count('a_excluded_full_end_delimiter')
            continue
        if len(tup) > 1 and greedy(body, syms) != tup:
            rep.count('a_duplicate_spelling_skipped')
            continue
        rep.count('a_' + kind)
        if '\\end' in body:
            rep.count('a_with_partial_end_marker')
        batch.append(body)
        if len(batch) >= BATCH:
            flush()
            if rep.nviolations >= ABANDON:
                break
    flush()
    if rep.nviolations >= ABANDON:
        rep.count('blocks_abandoned_after_%d_violations' % ABANDON)
    return rep.close_block()


# ---------------------------------------------------------------------------------------------------------
# (a') two verbatim-like constructs in sequence: the second body must not depend on what came before
# ---------------------------------------------------------------------------------------------------------
SEQ_KINDS = ['verbatim', 'verbatim*', 'verb', 'verb*', 'alltt', 'zzv']
SEQ_PRE = '\\usepackage{alltt}\\newenvironment{zzv}{\\verbatim}{\\endverbatim}' + PRE
SEQ_FIRST = {'alltt': ('p\\textbf{q}%s\n t', 'pq%s\n t')}      # alltt keeps \ { } special: (body, its text)
SEQ_FIRST_VERB = 'p\\q{r}%s'
SEQ_TAGS = ('verbatim', 'verbatim*', 'verb', 'alltt')
ALLTT_SPECIAL = '\\{}`-'     # alltt: \ { } stay special; ` and - are left out (plasTeX applies the text ligatures in alltt)


def s_tag(kind):
    return 'verb' if kind in ('verb', 'verb*') else 'verbatim' if kind == 'zzv' else kind


def s_construct(kind, body):
    if kind in ('verb', 'verb*'):
        return '\\%s|%s|' % (kind, body)
    return '\\begin{%s}%s\\end{%s}' % (kind, body, kind)


def s_alphabet(second):
    syms = symbols('verbatim*' if second == 'verbatim*' else 'verbatim', 'full')
    if second == 'alltt':
        syms = [x for x in syms if not any(c in x for c in ALLTT_SPECIAL)]
    if second in ('verb', 'verb*'):
        syms = [x for x in syms if '|' not in x]
    return syms


def s_unit(first, second, body):
    fb = SEQ_FIRST.get(first, (SEQ_FIRST_VERB, SEQ_FIRST_VERB))[0]
    return '%s%sm--%s%s' % (HEAD, s_construct(first, fb), s_construct(second, body), TAIL)


def s_expected(first, second, bodies):
    ft = SEQ_FIRST.get(first, (SEQ_FIRST_VERB, SEQ_FIRST_VERB))[1]
    per = dict((t, []) for t in SEQ_TAGS)
    for b in bodies:
        per[s_tag(first)].append(ft)
        per[s_tag(second)].append(b)
    text = ''.join(HEAD_TXT + ft + 'm' + DASH + b + TAIL_TXT for b in bodies)
    return [per[t] for t in SEQ_TAGS], text, 2


def s_observe(first, second, bodies):
    src = SEQ_PRE + ''.join(s_unit(first, second, b) for b in bodies)
    try:
        doc = parse_doc(src, 20.0 + 0.01 * len(bodies))
        return ([[plain(n.textContent) for n in doc.getElementsByTagName(t)] for t in SEQ_TAGS], plain(doc.textContent),
                len(doc.context.contexts))
    except core.Timeout:
        return 'timeout'
    except Exception as e:
        return 'raises:%s' % type(e).__name__


def s_judge(first, second, body):
    exp = s_expected(first, second, [body])
    obs = s_observe(first, second, [body])
    if obs == exp:
        return 'ok', None, exp, obs, ''
    return 'violation', None, exp, obs, 'a body, the text around it or the group depth differs in a sequence of two verbatim-like constructs'


def s_run_block(block):
    """block = ('s', first, second, maxlen)"""
    _, first, second, maxlen = block
    rep = core.Report()
    syms = s_alphabet(second)
    full_end = '\\end{%s}' % ('verbatim' if second == 'zzv' else second) if second not in ('verb', 'verb*') else None
    batch = []

    def flush():
        if not batch:
            return
        if s_observe(first, second, batch) == s_expected(first, second, batch):
            for b in batch:
                rep.case(key=(first, second, b), nontrivial=len(b) > 0, outcome=(second, b))
        else:
            for b in batch:
                if rep.nviolations >= ABANDON:
                    break
                v, fid, e, o, detail = s_judge(first, second, b)
                rep.case(key=(first, second, b), nontrivial=True, outcome=(second, b) if v == 'ok' else (first, second, repr(o)))
                if v != 'ok':
                    rep.violation({'part': 's', 'first': first, 'second': second, 'body': b}, e, o, detail)
        del batch[:]

    for L in range(0, maxlen + 1):
        for tup in itertools.product(range(len(syms)), repeat=L):
            body = ''.join(syms[k] for k in tup)
            if full_end and (full_end in body or (second == 'zzv' and '\\end{zzv}' in body)):
                continue
            if len(tup) > 1 and greedy(body, syms) != tup:
                continue
            rep.count('s_sequences')
            if first == 'alltt':
                rep.count('s_after_alltt')
            batch.append(body)
            if len(batch) >= BATCH:
                flush()
                if rep.nviolations >= ABANDON:
                    break
    flush()
    if rep.nviolations >= ABANDON:
        rep.count('blocks_abandoned_after_%d_violations' % ABANDON)
    return rep.close_block()


# ---------------------------------------------------------------------------------------------------------
# (b) formula source
# ---------------------------------------------------------------------------------------------------------
# own copy of the default category table (TeXbook / LaTeX defaults)
DEFAULT = {'\\': 0, '{': 1, '}': 2, '$': 3, '&': 4, '\n': 5, '#': 6, '^': 7, '_': 8, '\x00': 9,
           ' ': 10, '\t': 10, '\r': 10, '\x0c': 10, '~': 13, '%': 14}
for _c in 'abcdefghijklmnopqrstuvwxyzABCDEFGHIJKLMNOPQRSTUVWXYZ':
    DEFAULT[_c] = 11

PRE_B = ('\\newcommand{\\zzm}[1]{\\gamma #1\\delta }\\newcommand{\\zzR}{\\ifmmode\\beta \\else$\\beta $\\fi}'
         '\\newcommand{\\zzx}{ab}\\newtheorem{zzt}{Theorem}\\def\\zzp(#1){\\langle #1\\rangle }\\begin{document}\n\n')
PRE_B_AMS = '\\usepackage{amsmath}' + PRE_B

LEAVES = ['x', '\\alpha ', '<', '>', "y'", '\\,', '\\quad ', '2', '\\sqrt x']
SIBS = ['x', '\\alpha ']                   # representative siblings of the deep child of a binary node
UNARY = ['sup', 'sub', 'sqrt', 'lr', 'mbox', 'text', 'zzm', 'grp', 'arrh']
BINARY = ['supsub', 'subsup', 'frac', 'sqrtn', 'arr', 'jux']
CONTEXTS = ['dollar', 'paren', 'bracket', 'equation', 'textbf', 'ddollar']
# further containers, explored one level less deep: \begin{math}, \begin{displaymath}, a cell of eqnarray*, a cell of align
# plus \ensuremath{..} in text, two adjacent inline formulas $..$$x$, and the per-cell source of eqnarray (image generator)
# Position dimension: the formula container directly after a command / environment opening that takes an optional [..]
# argument (the formula must not be read as that argument).  name -> (text before, text after, inline containers only)
AFTER = {
    'item': ('\\begin{itemize}\\item', '\\end{itemize}', False),
    'item_sp': ('\\begin{itemize}\\item ', '\\end{itemize}', False),
    'item_nl': ('\\begin{enumerate}\\item\n', '\\end{enumerate}', False),
    'descitem': ('\\begin{description}\\item ', '\\end{description}', False),
    'br': ('We have\\\\\n', '', False),
    'brstar': ('We have\\\\*\n', '', False),
    'linebreak': ('w\\linebreak ', '', False),
    'nolinebreak': ('w\\nolinebreak\n', '', False),
    'pagebreak': ('w\\pagebreak ', '', False),
    'nopagebreak': ('w\\nopagebreak ', '', False),
    'figure': ('\\begin{figure}', '\\end{figure}', False),
    'table': ('\\begin{table}', '\\end{table}', False),
    'theorem': ('\\begin{zzt}', '\\end{zzt}', False),
    'center': ('\\begin{center}a\\\\ ', '\\end{center}', False),
    'tabular': ('\\begin{tabular}{l}a\\\\ ', '\\\\ b\\end{tabular}', True),
}
AFTER_CONTAINERS = ['bracket', 'paren', 'dollar', 'envdisplay', 'envmath', 'equation', 'ddollar', 'textbf']
INLINE_CONTAINERS = ('paren', 'dollar', 'envmath', 'textbf')


def after_contexts():
    return ['after/%s/%s' % (p, c) for p in AFTER for c in AFTER_CONTAINERS if c in INLINE_CONTAINERS or not AFTER[p][2]]


def split_ctx(ctx):
    """'after/<position>/<container>' -> (position, container); a plain container -> (None, container)"""
    if ctx.startswith('after/'):
        _, p_, c_ = ctx.split('/')
        return p_, c_
    return None, ctx


CONTEXTS2 = ['envmath', 'envdisplay', 'eqnarray', 'align', 'ensure', 'dollar2', 'eqncell']
CELL_CONTEXTS = ('eqnarray', 'align', 'eqncell')
EMPTY_CONTEXTS = ('paren', 'bracket', 'equation', 'envmath', 'envdisplay')     # containers that can hold an empty formula

# Second leaf family: unbraced-argument spellings.  An argument is a brace group that ends in a non-letter, a single
# letter or a single digit; every combination for two-argument commands, one-argument commands (with and without an
# optional argument for \sqrt), scripts in both orders, and the user macro called as \zzm x.
ARGS = ['{y+1}', 'a', '2']


def _spell():
    out = []
    for cmd in ('\\frac', '\\stackrel'):
        for a in ARGS:
            for b in ARGS:
                out.append('%s%s%s%s' % (cmd, ' ' if a[0].isalpha() else '', a, b))
    for cmd in ('\\sqrt', '\\hat', '\\bar', '\\mathbf'):
        for a in ARGS:
            f = '%s%s%s' % (cmd, ' ' if a[0].isalpha() else '', a)
            if f != '\\sqrt x':
                out.append(f)
    for opt in ('[3]', '[n]'):
        for a in ARGS:
            out.append('\\sqrt%s%s' % (opt, a))
    for a in ARGS:
        for b in ARGS:
            out.append('z^%s_%s' % (a, b))
            out.append('z_%s^%s' % (a, b))
    for a in ARGS:
        out.append(('zzmu', a))
    return out


SPELL = _spell()

# Third leaf family: mode-sensitive material, a user macro as unbraced argument, ligature triggers, empty array rows.
#  ('ml', k)        k in R (user macro \zzR = \ifmmode\beta\else$\beta$\fi), i (bare \ifmmode a\else b\fi), e (\ensuremath{c})
#                   standing in a formula: TeX is in math mode
#  ('tb', box, k)   the same inside a text box that stands in a formula: TeX is in text mode again.  The unary operators
#                   mbox / text (box > formula) put both kinds at every depth of the alternation formula > box > formula > box
#  ('zx', i)        the multi-token user macro \zzx (= ab) as unbraced argument: expansion keeps it one argument ({ab})
#  ('arre', i)      arrays with a row that has no content
MODE_KINDS = ['R', 'i', 'e']
BOXES = ['mbox', 'text', 'textbf', 'textrm']
ML_SRC = {'R': '\\zzR ', 'i': '\\ifmmode a\\else b\\fi ', 'e': '\\ensuremath{c}'}
ML_MATH = {'R': '\\beta ', 'i': 'a', 'e': 'c'}
ML_TEXT = {'R': '$\\beta $', 'i': 'b', 'e': '$c$'}
ZX = ['\\frac%s2', '\\frac2%s', '\\sqrt%s', '\\sqrt[3]%s', 'z^%s', 'z_%s^2', '\\hat%s', '\\mathbf%s', '\\frac{%s}2']
ARRE = [('a\\\\', '\\\\', 'b'), ('', '\\\\', 'a'), ('a\\\\[2pt]', '\\\\', 'b')]      # (before, row end of the empty row, after)
XTRA = ([('ml', k) for k in MODE_KINDS] + [('tb', b, k) for b in BOXES for k in MODE_KINDS]
        + [('zx', i) for i in range(len(ZX))] + [('arre', i) for i in range(len(ARRE))] + [('lang', 0), ('lang', 1)]
        + ['a--b', 'a---b', "f''", 'a~b'])
LANG = ['\\left%s x \\right%s', '\\big%s x \\big%s']      # < > after \left, \big ... are documented to become \langle \rangle
#  ('dp', i)        \def\zzp(#1){\langle #1\rangle} applied to a delimited argument: TeX strips the braces only when the whole
#                   argument is one brace group
DP_ARGS = ['{x}y{z}', '{x}_{i}+{y}^{2}', '{x}{y}', '{{x}}', '{x}', 'x{y}']
DP_STRIPPED = ['{x}y{z}', '{x}_{i}+{y}^{2}', '{x}{y}', '{x}', 'x', 'x{y}']
XTRA += [('dp', i) for i in range(len(DP_ARGS))]
ATOM_OPS = ('zzmu', 'ml', 'tb', 'zx', 'arre', 'lang', 'dp')

# own copy of the document's text-mode character substitutions, in the order they are tried
CHARSUBS = [('``', chr(8220)), ("''", chr(8221)), ('"`', chr(8222)), ('"\'', chr(8220)), ('`', chr(8216)), ("'", chr(8217)),
            ('---', chr(8212)), ('--', chr(8211))]


def charsub(s):
    for a, b in CHARSUBS:
        s = s.replace(a, b)
    return s


def leaves(fam):
    return {'L': LEAVES, 'S': SPELL, 'X': XTRA, 'E': ['']}[fam]

FID_CHARSUB = 'C11.MATH_GROUP_CHARSUB'
FID_TEXT = 'C11.TEXT_DOLLAR_CLOSES_MATH'
FID_RULE = 'C11.ARRAY_TRAILING_RULE'
APOS = '’'


def pr(t, expand=False, dev='', sub=False):
    """Print a formula tree.
    expand -- print user macros and mode tests expanded (done on the AST, by the mode TeX is in at that place)
    dev    -- letters of the deviation rules switched on:
      c  MATH_GROUP_CHARSUB: text that is a child node of a bare brace group or of an array cell has gone through the
         text-mode character substitution; `sub` is the inherited state.  Arguments of commands are rebuilt from their
         tokens and are not affected (a brace group inside one is)
      t  ARRAY_TRAILING_RULE: a row without cell content (only an \\hline after the last \\\\, or nothing at all) is not
         reproduced
      e  ENSUREMATH_IN_TEXT: \\ensuremath{c} in text mode is reconstructed as c (no $ $)
      u  MACRO_ARG_UNBRACED: a multi-token macro used as unbraced argument is reconstructed without braces"""
    if isinstance(t, str):
        return charsub(t) if ('c' in dev and sub) else t
    op = t[0]

    def P(c, s):
        return pr(c, expand, dev, s)
    if op == 'ml':
        return ML_MATH[t[1]] if expand else ML_SRC[t[1]]
    if op == 'tb':
        k = t[2]
        inner = ML_SRC[k]
        if expand:
            inner = 'c' if (k == 'e' and 'e' in dev) else ML_TEXT[k]
        return '\\%s{t %s}' % (t[1], inner)
    if op == 'zx':
        tpl = ZX[t[1]]
        if not expand:
            return tpl % '\\zzx '
        return tpl % ('ab' if '{%s}' in tpl else ' ab' if 'u' in dev else '{ab}')
    if op == 'dp':
        return ('\\langle %s\\rangle ' % DP_STRIPPED[t[1]]) if expand else ('\\zzp(%s)' % DP_ARGS[t[1]])
    if op == 'lang':
        return LANG[t[1]] % (('\\langle ', '\\rangle ') if expand else ('<', '>'))
    if op == 'arre':
        a, e, b = ARRE[t[1]]
        return '\\begin{array}{c}%s%s%s\\end{array}' % (a, '' if 't' in dev else e, b)
    if op == 'sup':
        return 'z^{%s}' % P(t[1], False)
    if op == 'sub':
        return 'z_{%s}' % P(t[1], False)
    if op == 'sqrt':
        return '\\sqrt{%s}' % P(t[1], False)
    if op == 'lr':
        return '\\left( %s \\right]' % P(t[1], sub)
    if op == 'mbox':
        return '\\mbox{t $%s$}' % P(t[1], False)
    if op == 'text':
        return '\\text{u $%s$ v}' % P(t[1], False)
    if op == 'zzm':
        return ('\\gamma %s\\delta ' % P(t[1], sub)) if expand else ('\\zzm{%s}' % P(t[1], sub))
    if op == 'zzmu':                        # \\zzm x / \\zzm 2 / \\zzm{y+1}: the argument loses its braces on expansion
        a = t[1]
        if expand:
            return '\\gamma %s\\delta ' % (a[1:-1] if a.startswith('{') else a)
        return '\\zzm%s%s' % (' ' if a[0].isalpha() else '', a)
    if op == 'grp':
        return '{%s}' % P(t[1], True)
    if op == 'arrh':
        return '\\begin{array}{|c|}\\hline %s\\\\\\hline a\\\\%s\\end{array}' % (P(t[1], True), '' if 't' in dev else '\\hline ')
    if op == 'supsub':
        return 'z^{%s}_{%s}' % (P(t[1], False), P(t[2], False))
    if op == 'subsup':
        return 'z_{%s}^{%s}' % (P(t[1], False), P(t[2], False))
    if op == 'frac':
        return '\\frac{%s}{%s}' % (P(t[1], False), P(t[2], False))
    if op == 'sqrtn':
        a = P(t[1], False)
        if ']' in a:                        # the author protects a ] in the optional argument by a brace group
            a = '{%s}' % P(t[1], True)
        return '\\sqrt[%s]{%s}' % (a, P(t[2], False))
    if op == 'arr':
        return '\\begin{array}{c@{\\quad x~}c}%s&a\\\\b&%s\\end{array}' % (P(t[1], True), P(t[2], True))
    if op == 'jux':
        return '%s%s' % (P(t[1], sub), P(t[2], sub))
    raise ValueError(op)


def depth(t):
    return 1 if (isinstance(t, str) or t[0] in ATOM_OPS) else 1 + max(depth(c) for c in t[1:])


def as_tree(x):
    """JSON round trip turns tuples into lists"""
    return x if isinstance(x, (str, int)) else tuple(as_tree(c) for c in x)


def trees_op(d, op, fam='L'):
    """trees of depth exactly d whose root is `op` ('leaf' for d == 1), in enumeration order: unary nodes over every
    tree of depth d-1; binary nodes over every pair of leaves (d == 2, family L) or (deep child of depth d-1, sibling in
    SIBS) in both orders (d > 2, and d == 2 for the spelling family S)"""
    if d == 1:
        if op == 'leaf':
            for l in leaves(fam):
                yield l
    elif op in UNARY:
        for c in trees(d - 1, fam):
            yield (op, c)
    elif op in BINARY:
        if d == 2 and fam == 'L':
            for a in LEAVES:
                for b in LEAVES:
                    yield (op, a, b)
        else:
            for c in trees(d - 1, fam):
                for s in SIBS:
                    yield (op, c, s)
                    yield (op, s, c)


def trees(d, fam='L'):
    """all trees of depth exactly d"""
    for op in (['leaf'] if d == 1 else UNARY + BINARY):
        for t in trees_op(d, op, fam):
            yield t


def count_op(d, op, fam='L'):
    n = {1: len(leaves(fam))}
    for k in range(2, d):
        pairs = len(LEAVES) ** 2 if (k == 2 and fam == 'L') else 2 * len(SIBS) * n[k - 1]
        n[k] = len(UNARY) * n[k - 1] + len(BINARY) * pairs
    if d == 1:
        return n[1] if op == 'leaf' else 0
    if op in UNARY:
        return n[d - 1]
    return len(LEAVES) ** 2 if (d == 2 and fam == 'L') else 2 * len(SIBS) * n[d - 1]


def wrap(ctx, f):
    pos, c = split_ctx(ctx)
    if pos:
        return AFTER[pos][0] + wrap(c, f) + AFTER[pos][1]
    if ctx == 'dollar':
        return '$%s$' % f
    if ctx == 'paren':
        return '\\(%s\\)' % f
    if ctx == 'bracket':
        return '\\[%s\\]' % f
    if ctx == 'ddollar':
        return '$$%s$$' % f
    if ctx == 'equation':
        return '\\begin{equation}%s\\end{equation}' % f
    if ctx == 'textbf':
        return '\\textbf{u $%s$ v}' % f
    if ctx == 'envmath':
        return '\\begin{math}%s\\end{math}' % f
    if ctx == 'envdisplay':
        return '\\begin{displaymath}%s\\end{displaymath}' % f
    if ctx in ('eqnarray', 'eqncell'):
        return '\\begin{eqnarray}%s&=&x\\nonumber\\\\ \\lefteqn{y<2}\\\\ &&z\\end{eqnarray}' % f
    if ctx == 'ensure':
        return '\\ensuremath{%s}' % f
    if ctx == 'dollar2':
        return '$%s$$x$' % f
    if ctx == 'align':
        return '\\begin{align}%s&=x\\\\ y&<2\\end{align}' % f
    raise ValueError(ctx)


def toks(s):
    """reference token stream (C01 reference lexer, default category table) with blanks dropped"""
    r = LX.lex(s, DEFAULT)
    if isinstance(r, str):
        return r
    return [t for t in r if t[0] != 10]


def expected_from_print(ctx, f):
    """(source tokens, mathjax_source tokens) for the printed formula f: inline formulas are reconstructed between
    $ $ (mathjax: \\( \\)), displays between \\[ \\], equation keeps its \\begin/\\end; mathjax maps < > to \\lt \\gt"""
    ctx = split_ctx(ctx)[1]
    if ctx in ('dollar', 'paren', 'textbf', 'envmath', 'dollar2'):
        src = '$%s$' % f
        mj = '\\(%s\\)' % f
    elif ctx == 'ensure':
        src = mj = f
    elif ctx == 'eqncell':
        src = mj = '$\\displaystyle %s $' % f
    elif ctx in ('bracket', 'ddollar', 'envdisplay'):
        src = mj = '\\[%s\\]' % f
    elif ctx in CELL_CONTEXTS:
        src = mj = wrap(ctx, f)
    else:
        src = mj = '\\begin{equation}%s\\end{equation}' % f
    es = toks(src)
    if ctx == 'eqncell':            # a cell has no mathjax_source; its source is observed twice
        return es, es
    em = [((0, 'lt') if k == (12, '<') else (0, 'gt') if k == (12, '>') else k) for k in toks(mj)]
    return es, em


def prx(ctx, t, dev=''):
    """expanded print of t as it stands in container ctx (a cell of eqnarray / align is an array cell; the content of
    \\ensuremath in running text is normalized with the paragraph: same exposure to rule c)"""
    ctx = split_ctx(ctx)[1]
    return pr(t, True, dev, ctx in CELL_CONTEXTS or ctx == 'ensure')


def b_expected(ctx, t):
    return expected_from_print(ctx, prx(ctx, t))


B_TAG = {'dollar': 'math', 'paren': 'math', 'bracket': 'displaymath', 'ddollar': 'displaymath', 'equation': 'equation',
         'textbf': 'textbf', 'envmath': 'math', 'envdisplay': 'displaymath', 'eqnarray': 'eqnarray', 'align': 'align',
         'ensure': 'ensuremath', 'dollar2': 'math', 'eqncell': 'eqnarray'}
MATHTAGS = ('math', 'displaymath', 'equation', 'eqnarray', 'align', 'ensuremath')


def b_observe(ctx, ts):
    """one document with one paragraph per formula -> ([(source tokens, mathjax tokens)...], context depth) or 'raises:..'"""
    src = (PRE_B_AMS if ctx == 'align' else PRE_B) + ''.join('x %s y\n\n' % wrap(ctx, pr(t)) for t in ts)
    ctx = split_ctx(ctx)[1]
    try:
        doc = parse_doc(src, 20.0 + 0.02 * len(ts))
        out = []
        for n in doc.getElementsByTagName(B_TAG[ctx]):
            p = n.parentNode
            nested = False
            while p is not None:
                if p.nodeName in MATHTAGS:
                    nested = True
                    break
                p = p.parentNode
            if nested:
                continue
            if ctx == 'textbf':
                ms = n.getElementsByTagName('math')
                if not ms:
                    out.append(('no math node', None))
                    continue
                n = ms[0]
            if ctx == 'eqncell':
                cs_ = n.getElementsByTagName('ArrayCell')
                if not cs_:
                    out.append(('no cell', None))
                    continue
                one = toks(plain(str(cs_[0].source)))
                out.append((one, one))
                continue
            out.append((toks(plain(str(n.source))), toks(plain(str(n.mathjax_source)))))
        if ctx == 'dollar2':        # every formula is followed by the adjacent $x$
            if len(out) % 2 == 0 and all(o == (toks('$x$'), toks('\\(x\\)')) for o in out[1::2]):
                out = out[::2]
            else:
                out.append(('adjacent formula missing or wrong', None))
        return out, len(doc.context.contexts)
    except core.Timeout:
        return 'timeout'
    except Exception as e:
        return 'raises:%s' % type(e).__name__


def text_in_dollar(t, inline):
    """does the tree hold a \\text{.. $..$ ..} whose nearest enclosing math opener is a $ (inline = opener state)"""
    if isinstance(t, str) or t[0] in ATOM_OPS:
        return False
    op = t[0]
    if op == 'text':
        if inline:
            return True
        return text_in_dollar(t[1], True)
    if op == 'mbox':
        return text_in_dollar(t[1], True)
    return any(text_in_dollar(c, inline) for c in t[1:])


FID_ENS = 'C11.ENSUREMATH_IN_TEXT'
FID_EMPTY = 'C11.EMPTY_FORMULA_SOURCE'
FID_UNBRACED = 'C11.MACRO_ARG_UNBRACED'
DEVS = [('c', FID_CHARSUB, 'text-mode character substitution inside a brace group / array cell of a formula: the '
                           'reconstructed source has the substituted character (U+2019 for a prime, a dash for --)'),
        ('t', FID_RULE, 'a row without cell content (the \\hline after the last \\\\ of an array, an empty row) is missing from '
                        'the reconstructed source'),
        ('e', FID_ENS, '\\ensuremath{c} inside a text box is reconstructed as c, without math shifts'),
        ('u', FID_UNBRACED, 'a multi-token user macro used as unbraced argument is reconstructed without braces (\\frac\\zzx 2 '
                            '-> \\frac ab2)')]


def b_classify(ctx, t, item):
    """item = (source tokens, mathjax tokens) observed for tree t in a document whose structure is intact
    -> (verdict, fids, detail)"""
    strict = prx(ctx, t)
    if item == expected_from_print(ctx, strict):
        return 'ok', [], ''
    if t == '':
        opening = {'paren': '$', 'envmath': '$', 'bracket': '\\[', 'envdisplay': '\\[', 'equation': '\\begin{equation}'}[ctx]
        if item == (toks(opening), [] if opening == '$' else toks(opening)):
            return 'known', [FID_EMPTY], ('an empty formula is reconstructed as its opening delimiter only (mathjax_source of an '
                                          'empty inline formula is empty)')
    # deviation rules that change the print of this tree at all, then every non-empty combination of them
    active = [d for d in DEVS if prx(ctx, t, d[0]) != strict]
    for n in range(1, len(active) + 1):
        for sub in itertools.combinations(active, n):
            f = prx(ctx, t, ''.join(d[0] for d in sub))
            if item == expected_from_print(ctx, f):
                return 'known', [d[1] for d in sub], '; '.join(d[2] for d in sub)
    return 'violation', [], 'source / mathjax_source token stream differs from the printed formula'


def b_judge(ctx, t):
    """-> (verdict, fids, expected, observed, detail) on a document holding only this formula"""
    exp = ([b_expected(ctx, t)], 2)
    obs = b_observe(ctx, [t])
    if obs == exp:
        return 'ok', [], exp, obs, ''
    if not isinstance(obs, str) and len(obs[0]) == 1 and obs[1] == 2:
        v, fids, detail = b_classify(ctx, t, obs[0][0])
        return v, fids, exp, obs, detail
    if text_in_dollar(t, split_ctx(ctx)[1] in ('dollar', 'textbf')):
        return 'known', [FID_TEXT], exp, obs, ('\\text is not a box command: a $ inside \\text{} that is itself inside $...$ '
                                               'closes the outer formula; resulting structure not modelled')
    return 'violation', [], exp, obs, 'formula node missing / document structure or group depth wrong'


BATCH_B = 100


def b_run_block(block):
    """block = ('b', ctx, depth, op, lo, hi, fam): trees of exactly that depth with that root operator ('leaf' for
    depth 1) over leaf family fam ('L' = LEAVES, 'S' = unbraced spellings), index range [lo, hi) of the enumeration"""
    _, ctx, d, op, lo, hi, fam = block
    rep = core.Report()
    ts = list(itertools.islice(trees_op(d, op, fam), lo, hi))
    inline = split_ctx(ctx)[1] in ('dollar', 'textbf')
    suspects = [t for t in ts if text_in_dollar(t, inline)]
    normal = [t for t in ts if not text_in_dollar(t, inline)]

    def record(t, v, fids, e, o, detail, outcome):
        rep.case(key=(ctx, pr(t)), nontrivial=not isinstance(t, str), outcome=outcome)
        rep.count('b_' + ctx)
        if fam == 'S':
            rep.count('b_unbraced_spelling')
        if fam == 'X':
            rep.count('b_mode_and_extra')
        if ctx.startswith('after/'):
            rep.count('b_after_optional_argument')
        case = {'part': 'b', 'ctx': ctx, 'tree': t}
        if v == 'known':
            for fid in fids:
                rep.known_finding(fid, case, detail)
            rep.count('b_known')
        elif v == 'violation':
            rep.violation(case, e, o, detail)

    def single(t):
        v, fids, e, o, detail = b_judge(ctx, t)
        rep.count('b_single_documents')
        record(t, v, fids, e, o, detail, (ctx, tuple(o[0][0][0])) if v == 'ok' else (ctx, repr(o)))

    def run(batch, bisect):
        if not batch or rep.nviolations >= ABANDON:
            return
        if len(batch) == 1:
            single(batch[0])
            return
        obs = b_observe(ctx, batch)
        if not isinstance(obs, str) and len(obs[0]) == len(batch) and obs[1] == 2:
            for t, item in zip(batch, obs[0]):
                v, fids, detail = b_classify(ctx, t, item)
                if v == 'violation':
                    single(t)           # confirm on its own document (this is what replay does)
                else:
                    record(t, v, fids, None, None, detail, (ctx, tuple(item[0])))
                    if v == 'ok':
                        for o_ in set(_ops(t)):
                            rep.count('b_op_' + o_)
                        if len(rep.samples) < 2 and depth(t) >= 3:
                            rep.sample({'ctx': ctx, 'formula': pr(t), 'source_tokens': len(item[0])})
            return
        if bisect:
            h = len(batch) // 2
            run(batch[:h], True)
            run(batch[h:], True)
        else:
            for t in batch:
                if rep.nviolations < ABANDON:
                    single(t)

    for ch in core.chunks(normal, BATCH_B):
        run(ch, True)
    for ch in core.chunks(suspects, BATCH_B):
        run(ch, False)
    if rep.nviolations >= ABANDON:
        rep.count('blocks_abandoned_after_%d_violations' % ABANDON)
    return rep.close_block()


def _ops(t):
    if isinstance(t, str):
        return []
    if t[0] in ATOM_OPS:
        return [t[0]]
    r = [t[0]]
    for c in t[1:]:
        r += _ops(c)
    return r


# ---------------------------------------------------------------------------------------------------------
def run_block(block):
    return a_run_block(block) if block[0] == 'a' else s_run_block(block) if block[0] == 's' else b_run_block(block)


def _all_open(fids):
    f = core.Findings()
    return [x for x in fids if not f.is_open(x)]


def replay(case):
    if case['part'] == 's':
        v, fid, exp, obs, detail = s_judge(case['first'], case['second'], case['body'])
        fids = []
        src = SEQ_PRE + s_unit(case['first'], case['second'], case['body'])
    elif case['part'] == 'a':
        v, fid, exp, obs, detail = a_judge(case['kind'], case['d'], case['body'])
        fids = [fid] if fid else []
        src = a_pre(case['kind']) + a_unit(case['kind'], case['d'], case['body'])
    else:
        t = as_tree(case['tree'])
        v, fids, exp, obs, detail = b_judge(case['ctx'], t)
        src = (PRE_B_AMS if case['ctx'] == 'align' else PRE_B) + 'x %s y\n\n' % wrap(case['ctx'], pr(t))
    detail = '%s | document: %r' % (detail, src)
    if v == 'known':
        notopen = _all_open(fids)
        if notopen:
            return {'verdict': 'violation', 'expected': exp, 'observed': obs,
                    'detail': 'only explained by deviations not listed as open: %s | %s' % (notopen, detail)}
        return {'verdict': 'known', 'fid': fids[0], 'fids': fids, 'expected': exp, 'observed': obs, 'detail': detail}
    return {'verdict': v, 'expected': exp, 'observed': obs, 'detail': detail}


def run(tier, seed, rep):
    state.pristine()
    quick = tier == 'quick'
    blocks = []
    bounds = {}

    # ---- (a)
    L = 4 if quick else 5
    main = [('verbatim', ''), ('verbatim*', ''), ('verb', '|'), ('verb*', '|')]

    def add_a(kind, d, alpha, maxlen, minlen=0, must=False):
        n = len(a_alphabet(kind, d, alpha))
        if maxlen <= 3:
            if must:
                for k in range(n):
                    blocks.append(('a', kind, d, alpha, (k,), maxlen, max(minlen, 1), must))
            else:
                blocks.append(('a', kind, d, alpha, (), maxlen, minlen, must))
            return
        if minlen <= 1:
            blocks.append(('a', kind, d, alpha, (), 1, minlen, must))
        for k1 in range(n):
            for k2 in range(n):
                blocks.append(('a', kind, d, alpha, (k1, k2), maxlen, max(minlen, 2), must))

    for kind, d in main:
        add_a(kind, d, 'full', L)
    bounds['a_full_alphabet'] = {'symbols': 20, 'max_len': L, 'constructs': ['verbatim', 'verbatim*', '\\verb|..|', '\\verb*|..|']}
    red_kinds = [('verbatim', ''), ('verb', '|')]
    for kind, d in red_kinds:
        add_a(kind, d, 'red', L + 1, minlen=L + 1)
    bounds['a_reduced_alphabet'] = {'symbols': 12, 'len': L + 1, 'constructs': ['verbatim', '\\verb|..|']}
    Ld = 2 if quick else 3
    for d in DELIMS:
        if d == '|':
            continue
        for kind in ('verb', 'verb*'):
            if Ld <= 2:
                blocks.append(('a', kind, d, 'full', (), Ld, 0, False))
            else:
                blocks.append(('a', kind, d, 'full', (), 1, 0, False))
                for k in range(len(a_alphabet(kind, d, 'full'))):
                    blocks.append(('a', kind, d, 'full', (k,), Ld, 2, False))
    Lz = 2 if quick else 3
    for k in range(20):
        blocks.append(('a', 'zzv', '', 'full', (k,), Lz, 1, False))
    blocks.append(('a', 'zzv', '', 'full', (), 0, 0, False))
    bounds['a_user_environment'] = {'definition': '\\newenvironment{zzv}{\\verbatim}{\\endverbatim}', 'symbols': 20, 'max_len': Lz}
    bounds['a_delimiters'] = {'delimiters': len(DELIMS), 'max_len': Ld, 'forms': ['\\verb', '\\verb*']}
    Le = 3 if quick else 4
    for kind in ('verbatim', 'verbatim*'):
        n = len(a_alphabet(kind, '', 'ext'))
        if Le <= 3:
            for k in range(n):
                blocks.append(('a', kind, '', 'ext', (k,), Le, 1, True))
        else:
            blocks.append(('a', kind, '', 'ext', (n - 1,), 1, 1, True))
            blocks.append(('a', kind, '', 'ext', (n - 2,), 1, 1, True))
            for k1 in range(n):
                for k2 in range(n):
                    blocks.append(('a', kind, '', 'ext', (k1, k2), Le, 2, True))
    bounds['a_extended_alphabet'] = {'symbols': 22, 'max_len': Le, 'must_contain': 'end{NAME} or \\endNAME'}

    Ls = 2 if quick else 3
    for first in SEQ_KINDS:
        for second in SEQ_KINDS:
            blocks.append(('s', first, second, Ls))
    bounds['a_sequences'] = {'first': SEQ_KINDS, 'second': SEQ_KINDS, 'second_body_max_len': Ls, 'symbols': 20,
                             'alltt_as_second': 'alphabet without \\ { } ` -'}

    # ---- (b)
    D = 3 if quick else 4
    for ctx in CONTEXTS + CONTEXTS2:
        dmax = D if ctx in CONTEXTS[:5] else (3 if ctx == 'ddollar' else D - 1)
        for fam, fmax in (('L', dmax), ('S', dmax - 1), ('X', dmax - 1)):
            blocks.append(('b', ctx, 1, 'leaf', 0, len(leaves(fam)), fam))
            for d in range(2, fmax + 1):
                for op in UNARY + BINARY:
                    n = count_op(d, op, fam)
                    for lo in range(0, n, 2000):
                        blocks.append(('b', ctx, d, op, lo, min(n, lo + 2000), fam))
    for ctx in EMPTY_CONTEXTS:
        blocks.append(('b', ctx, 1, 'leaf', 0, 1, 'E'))
    actx = after_contexts()
    for ctx in actx:
        for fam in ('L', 'S', 'X'):
            blocks.append(('b', ctx, 1, 'leaf', 0, len(leaves(fam)), fam))
        if not quick:
            for op in UNARY + BINARY:
                blocks.append(('b', ctx, 2, op, 0, count_op(2, op, 'L'), 'L'))
    bounds['b_after_optional_argument'] = {'positions': sorted(AFTER), 'containers': AFTER_CONTAINERS, 'contexts': len(actx),
                                           'max_depth': 1 if quick else 2}
    bounds['b_formulas'] = {'max_depth': D, 'contexts': CONTEXTS, 'extra_context_ddollar_max_depth': 3,
                            'leaves': len(LEAVES), 'unary': len(UNARY), 'binary': len(BINARY),
                            'unbraced_spelling_atoms': len(SPELL), 'unbraced_spelling_max_depth': D - 1,
                            'mode_and_extra_atoms': len(XTRA), 'mode_and_extra_max_depth': D - 1,
                            'further_contexts': CONTEXTS2, 'further_contexts_max_depth': D - 1}
    blocks = core.rotate(blocks, seed)
    core.merge_all(run_block, blocks, rep, chunksize=1)
    abandoned = rep.counters.get('blocks_abandoned_after_%d_violations' % ABANDON, 0)
    return {'exhaustive': not abandoned, 'bounds': bounds, 'blocks': len(blocks),
            'floors': {'evaluations': 900000 if quick else 15000000, 'a_with_partial_end_marker': 100000,
                       'b_op_arr': 1000, 'b_op_mbox': 1000, 'b_op_zzm': 1000, 'b_op_sqrtn': 1000,
                       'b_unbraced_spelling': 5000, 'b_mode_and_extra': 5000, 'b_after_optional_argument': 5000, 's_after_alltt': 1500}}


RULE = ('(a) bodies = strings over 16 characters (\\ { } % # & $ ^ ~ blank newline ` - e n d) + 4 composite symbols (\\end, '
        '\\end{NAME without }, \\end{NAME minus last letter}, ^^M), every symbol sequence of length <= L (quick 4, thorough 5), each '
        'string once (longest-match spelling), never containing the full end delimiter, as body of verbatim, verbatim*, '
        '\\verb|..| and \\verb*|..|; length L+1 over a reduced 8+4 alphabet for verbatim and \\verb; every other printable '
        'non-letter delimiter (40) for \\verb and \\verb* with all bodies of length <= 2 (3) not containing it; bodies of '
        'length <= 3 (4) over the alphabet extended by end{NAME} (no escape character) and the command form \\endNAME that contain one of the two; every ordered pair of {verbatim, verbatim*, \\verb, \\verb*, alltt, user environment} in sequence, the first with a fixed body, the second with every body of length <= 2 (3) (alltt as second: alphabet without \\ { } ` -), every body reproduced exactly whatever came before; bodies of length <= 2 (3) in a user environment \\newenvironment{zzv}{\\verbatim}{\\endverbatim}. Observed: node.textContent, text after the construct '
        '(x--..y--%c: dash ligature applied, comment skipped), context depth, verb.source. (b) formula trees of depth '
        '<= 3 (4): 9 leaves, 9 unary and 6 binary operators (binary: all leaf pairs at depth 2, deeper one full child and '
        'one representative sibling, both orders), plus the same operators to depth 2 (3) over 57 unbraced-argument spellings (\\frac, \\stackrel x {braced, letter, digit}^2; \\sqrt, \\hat, \\bar, \\mathbf, \\sqrt[3], \\sqrt[n] x 3; scripts z^a_b both orders x 9; \\zzm x), plus the same operators to depth 2 (3) over 34 further atoms: mode-sensitive material (user macro with \\ifmmode, bare \\ifmmode, \\ensuremath) standing in the formula and inside \\mbox/\\text/\\textbf/\\textrm within it -- the operators box>formula put them at every depth of formula>box>formula>box and the oracle expands them by the mode TeX is in --, a multi-token user macro as unbraced argument (9 positions), arrays with an empty row (3), \\left< \\big<, ligature triggers a--b a---b f\'\' and a~b; in $ $, \\( \\), \\[ \\], equation, \\textbf{..$ $..} (and $$ $$ to depth 3); one level less deep in \\begin{math}, \\begin{displaymath}, a cell of eqnarray (whole source and per-cell source) and of align, \\ensuremath{..} in text, adjacent $..$$x$; the empty formula in 5 containers; every atom of the three leaf families (thorough: also every depth-2 tree) in each of 8 containers placed directly after a command or environment opening that takes an optional [..] argument (15 positions: \\item with nothing / blank / newline before the formula, description \\item, \\\\ and \\\\* in text, center and tabular, \\linebreak, \\nolinebreak, \\pagebreak, \\nopagebreak, figure, table, a \\newtheorem environment; display containers not in tabular): the formula node must exist with the printed source; '
        'source and mathjax_source re-tokenized with the reference lexer, blanks dropped, compared with the printed formula '
        '(user macro expanded on the tree). Non-trivial: non-empty body / depth >= 2; distinct = distinct (construct, '
        'delimiter, body) or (context, formula); outcomes = distinct observed contents / token streams')
ASSUMPTIONS = [
    'documents have no \\documentclass (\\begin{document} directly; measured identical behaviour, 3x cheaper); many cases share one '
    'document (one unit per case) and are re-run alone only when the shared document disagrees with the prediction',
    'the text after a construct is "processed normally" when the -- ligature is substituted, a % comment is skipped and the '
    'context stack is back at the document level at end of input',
    'inline formulas are reconstructed between $ $ (mathjax_source: \\( \\)), displays between \\[ \\]; < and > map to \\lt, \\gt',
    'token comparison uses vp/refs/tex_lexer.py with the default LaTeX category table; blank (category 10) tokens dropped',
    'binary formula nodes deeper than 2 take one arbitrary child and one of two representative leaves (x, \\alpha)',
    'deviations VERB_DELIM_PRETOKENIZED (delimiters \\ % } and { with } in the body), ENDCMD_IN_BODY (after the cut) and '
    'TEXT_DOLLAR_CLOSES_MATH leave the rest of the observation unconstrained: the remaining input is executed, not scanned',
]
