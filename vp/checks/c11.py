"""
C11 -- Verbatim text and mathematics pass through character-for-character.
Engine E1, two exhaustive families:
 (a) every verbatim body (string of symbols over the design alphabet) up to a length bound as content of
     verbatim, verbatim* and \\verb<d>...<d>;
 (b) every formula tree of a math grammar up to a depth bound in five contexts; the reconstructed LaTeX source
     (node.source / node.mathjax_source) is re-tokenized with the C01 reference lexer and compared with the
     tokens of the printed formula (user macro expanded on the AST), blanks dropped.
"""
import itertools
from vp import core, state
from vp.refs import tex_lexer as LX

ID = 'C11'
LEVEL = 'exploration'
RULE = ''          # filled in below
ASSUMPTIONS = []   # filled in below

DASH = '–'
PRE = '\\begin{document}\n\n'      # one paragraph break: see C07.NO_PAR_NO_CHARSUB
HEAD = 'x--'
TAIL = 'y--%c\n'
HEAD_TXT = 'x' + DASH
TAIL_TXT = 'y' + DASH

# ---------------------------------------------------------------------------------------------------------
# (a) verbatim bodies
# ---------------------------------------------------------------------------------------------------------
SYM16 = ['\\', '{', '}', '%', '#', '&', '$', '^', '~', ' ', '\n', '`', '-', 'e', 'n', 'd']
RED8 = ['\\', '{', '}', '%', ' ', '\n', '-', 'e']


def symbols(env, alpha):
    """alphabet: 'full' = 16 characters + 4 composite symbols (partial end markers of `env`, ^^M);
    'red' = 8 characters + the same 4 composites; 'endcmd' = full + the command form of the end marker"""
    comp = ['\\end', '\\end{' + env, '\\end{' + env[:-1] + '}', '^^M']
    if alpha == 'full':
        return SYM16 + comp
    if alpha == 'red':
        return RED8 + comp
    if alpha == 'endcmd':
        return SYM16 + comp + ['\\end' + env]
    raise ValueError(alpha)


# delimiters of \verb: every printable ASCII character except letters, blank and '*'
DELIMS = [chr(c) for c in range(33, 127) if not chr(c).isalpha() and chr(c) != '*']
SPECIAL_DELIMS = '\\{}%#&$~^'          # delimiters whose normal category is not "other" (and that misbehave)
RUNAWAY_DELIMS = '#&$~'

FID_DELIM = 'C11.VERB_DELIM_PRETOKENIZED'
FID_ENDCMD = 'C11.ENDCMD_IN_BODY'


def greedy(s, syms):
    """canonical (longest-match) decomposition of s into symbols; None if impossible"""
    out = []
    i = 0
    n = len(s)
    by_len = sorted(range(len(syms)), key=lambda k: -len(syms[k]))
    while i < n:
        for k in by_len:
            if s.startswith(syms[k], i):
                out.append(k)
                i += len(syms[k])
                break
        else:
            return None
    return tuple(out)


def a_alphabet(kind, d, alpha):
    env = kind if kind.startswith('verbatim') else 'verbatim'
    syms = symbols(env, alpha)
    if d:
        syms = [s for s in syms if d not in s]
    return syms


def a_unit(kind, d, body):
    if kind.startswith('verbatim'):
        return '%s\\begin{%s}%s\\end{%s}%s' % (HEAD, kind, body, kind, TAIL)
    return '%s\\%s%s%s%s%s' % (HEAD, kind, d, body, d, TAIL)


def a_nodename(kind):
    return kind if kind.startswith('verbatim') else 'verb'


def parse_doc(src, limit=20.0):
    from plasTeX.TeX import TeX
    state.reset()
    with core.time_limit(limit):
        tex = TeX()
        tex.ownerDocument.context.warnOnUnrecognized = False
        tex.input(src)
        return tex.parse()


def a_observe(kind, d, bodies):
    """parse one document holding one unit per body -> (contents, text, depth, sources) or 'raises:..'/'timeout'"""
    src = PRE + ''.join(a_unit(kind, d, b) for b in bodies)
    try:
        doc = parse_doc(src, 20.0 + 0.01 * len(bodies))
        nodes = doc.getElementsByTagName(a_nodename(kind))
        contents = [n.textContent for n in nodes]
        srcs = []
        if not kind.startswith('verbatim'):
            for n in nodes:
                try:
                    srcs.append(str(n.source))
                except Exception as e:
                    srcs.append('raises:%s' % type(e).__name__)
        return [str(c) for c in contents], str(doc.textContent), len(doc.context.contexts), srcs
    except core.Timeout:
        return 'timeout'
    except Exception as e:
        return 'raises:%s' % type(e).__name__


def a_expected(kind, d, bodies):
    contents = list(bodies)
    text = ''.join(HEAD_TXT + b + TAIL_TXT for b in bodies)
    srcs = [] if kind.startswith('verbatim') else ['\\%s%s%s%s' % (kind, d, b, d) for b in bodies]
    return contents, text, 2, srcs


def a_judge(kind, d, body):
    """-> (verdict, fid, expected, observed, detail) for a single body (document with one unit)"""
    exp = a_expected(kind, d, [body])
    obs = a_observe(kind, d, [body])
    if obs == exp:
        return 'ok', None, exp, obs, ''
    # --- named deviation: the opening delimiter of unstarred \verb is read before verbatim catcodes are installed
    if kind == 'verb' and d in SPECIAL_DELIMS:
        rest = body + d + TAIL
        if d in RUNAWAY_DELIMS:
            pred = ([rest], HEAD_TXT + rest, 2)
            if not isinstance(obs, str) and tuple(obs[:3]) == pred:
                return 'known', FID_DELIM, exp, obs, ('opening delimiter %r tokenized with its normal category; the closing '
                                                      'one (category 12) never matches: content runs to end of input' % d)
            return 'violation', None, exp, obs, 'differs from strict oracle and from the prediction of ' + FID_DELIM
        if d == '{' and '}' not in body:
            cut = rest[:rest.index('}')] if '}' in rest else rest
            pred = ([cut], HEAD_TXT + cut, 2)
            if not isinstance(obs, str) and tuple(obs[:3]) == pred:
                return 'known', FID_DELIM, exp, obs, 'opening { (normal category 1) is closed by the next } instead of the next {'
            return 'violation', None, exp, obs, 'differs from strict oracle and from the prediction of ' + FID_DELIM
        if d == '^' and body != '':
            return 'violation', None, exp, obs, 'content/tail/depth/source differ'
        # d in '\\', '%', '}' (or '{' with } in body, or ^^y): the pre-read token is an escape sequence, a comment,
        # a group end: the following input is then *executed*; not modelled
        return 'known', FID_DELIM, exp, obs, ('opening delimiter %r read under normal category codes (escape/comment/group '
                                              'token): input after it is interpreted, outcome not modelled' % d)
    # --- named deviation: the command form \end<env> inside the body terminates the environment
    if kind.startswith('verbatim'):
        marker = '\\end' + kind
        i = body.find(marker)
        if i >= 0:
            if isinstance(obs, str) or (obs[0] and obs[0][0] == body[:i]):
                return 'known', FID_ENDCMD, exp, obs, ('the literal text %s in the body ends the environment: content is cut '
                                                       'there, the rest of the body is executed' % marker)
    return 'violation', None, exp, obs, 'content/tail/depth/source differ'


def a_bodies(block):
    """generator of the bodies of a block (canonical decompositions only)"""
    _, kind, d, alpha, prefix, maxlen, minlen, must = block
    syms = a_alphabet(kind, d, alpha)
    full_end = '\\end{%s}' % kind if kind.startswith('verbatim') else None
    mustsym = syms[-1] if must else None
    pre = ''.join(syms[k] for k in prefix)
    for L in range(max(minlen, len(prefix)), maxlen + 1):
        for tail in itertools.product(range(len(syms)), repeat=L - len(prefix)):
            tup = tuple(prefix) + tail
            body = pre + ''.join([syms[k] for k in tail])
            if mustsym is not None and mustsym not in body:
                continue
            yield tup, body, syms, full_end


BATCH = 250


def a_run_block(block):
    rep = core.Report()
    _, kind, d, alpha, prefix, maxlen, minlen, must = block
    batch = []

    def flush():
        if not batch:
            return
        exp = a_expected(kind, d, batch)
        obs = a_observe(kind, d, batch)
        if obs == exp:
            for b in batch:
                rep.case(key=(kind, d, b), nontrivial=len(b) > 0, outcome=(kind, b))
            if len(rep.samples) < 2:
                rep.sample({'kind': kind, 'delimiter': d, 'body': batch[-1], 'textContent': obs[0][-1]})
        else:
            for b in batch:
                v, fid, e, o, detail = a_judge(kind, d, b)
                rep.case(key=(kind, d, b), nontrivial=True, outcome=(kind, d, repr(o)))
                case = {'part': 'a', 'kind': kind, 'd': d, 'body': b}
                if v == 'ok':
                    rep.count('a_single_ok_after_batch_mismatch')
                elif v == 'known':
                    rep.known_finding(fid, case, detail)
                    rep.count('a_known')
                else:
                    rep.violation(case, e, o, detail)
        del batch[:]

    for tup, body, syms, full_end in a_bodies(block):
        if full_end and full_end in body:
            rep.count('a_excluded_full_end_delimiter')
            continue
        if len(tup) > 1 and greedy(body, syms) != tup:
            rep.count('a_duplicate_spelling_skipped')
            continue
        rep.count('a_' + kind)
        if '\\end' in body:
            rep.count('a_with_partial_end_marker')
        batch.append(body)
        if len(batch) >= BATCH:
            flush()
    flush()
    return rep.close_block()


# ---------------------------------------------------------------------------------------------------------
# (b) formula source
# ---------------------------------------------------------------------------------------------------------
# own copy of the default category table (TeXbook / LaTeX defaults)
DEFAULT = {'\\': 0, '{': 1, '}': 2, '$': 3, '&': 4, '\n': 5, '#': 6, '^': 7, '_': 8, '\x00': 9,
           ' ': 10, '\t': 10, '\r': 10, '\x0c': 10, '~': 13, '%': 14}
for _c in 'abcdefghijklmnopqrstuvwxyzABCDEFGHIJKLMNOPQRSTUVWXYZ':
    DEFAULT[_c] = 11

PRE_B = ('\\documentclass{article}\\newcommand{\\zzm}[1]{\\gamma #1\\delta }\\begin{document}\n\n')

LEAVES = ['x', '\\alpha ', '<', '>', "y'", '\\,', '\\quad ', '2']
SIBS = ['x', '\\alpha ']                   # representative siblings of the deep child of a binary node
UNARY = ['sup', 'sub', 'sqrt', 'lr', 'mbox', 'text', 'zzm', 'grp']
BINARY = ['supsub', 'subsup', 'frac', 'sqrtn', 'arr', 'jux']
CONTEXTS = ['dollar', 'paren', 'bracket', 'equation', 'textbf']


def pr(t, expand=False):
    """print a formula tree; expand=True prints the user macro \\zzm expanded (on the AST)"""
    if isinstance(t, str):
        return t
    op = t[0]
    a = pr(t[1], expand)
    b = pr(t[2], expand) if len(t) > 2 else None
    if op == 'sup':
        return 'z^{%s}' % a
    if op == 'sub':
        return 'z_{%s}' % a
    if op == 'sqrt':
        return '\\sqrt{%s}' % a
    if op == 'lr':
        return '\\left( %s \\right]' % a
    if op == 'mbox':
        return '\\mbox{t $%s$}' % a
    if op == 'text':
        return '\\text{u $%s$ v}' % a
    if op == 'zzm':
        return ('\\gamma %s\\delta ' % a) if expand else ('\\zzm{%s}' % a)
    if op == 'grp':
        return '{%s}' % a
    if op == 'supsub':
        return 'z^{%s}_{%s}' % (a, b)
    if op == 'subsup':
        return 'z_{%s}^{%s}' % (a, b)
    if op == 'frac':
        return '\\frac{%s}{%s}' % (a, b)
    if op == 'sqrtn':
        return '\\sqrt[%s]{%s}' % (('{%s}' % a) if ']' in a else a, b)
    if op == 'arr':
        return '\\begin{array}{cc}%s&a\\\\b&%s\\end{array}' % (a, b)
    if op == 'jux':
        return '%s%s' % (a, b)
    raise ValueError(op)


def depth(t):
    return 1 if isinstance(t, str) else 1 + max(depth(c) for c in t[1:])


def trees(d):
    """all trees of depth exactly d: unary nodes over every tree of depth d-1; binary nodes over every pair of
    leaves (d == 2) or (deep child of depth d-1, sibling in SIBS) in both orders (d > 2)"""
    if d == 1:
        for l in LEAVES:
            yield l
        return
    for op in UNARY:
        for c in trees(d - 1):
            yield (op, c)
    for op in BINARY:
        if d == 2:
            for a in LEAVES:
                for b in LEAVES:
                    yield (op, a, b)
        else:
            for c in trees(d - 1):
                for s in SIBS:
                    yield (op, c, s)
                    yield (op, s, c)


def wrap(ctx, f):
    if ctx == 'dollar':
        return '$%s$' % f
    if ctx == 'paren':
        return '\\(%s\\)' % f
    if ctx == 'bracket':
        return '\\[%s\\]' % f
    if ctx == 'equation':
        return '\\begin{equation}%s\\end{equation}' % f
    if ctx == 'textbf':
        return '\\textbf{u $%s$ v}' % f
    raise ValueError(ctx)


def toks(s):
    """reference token stream with blanks dropped"""
    r = LX.lex(s, DEFAULT)
    if isinstance(r, str):
        return r
    return [t for t in r if t[0] != 10]


def b_expected(ctx, t):
    return _expected_from_print(ctx, pr(t, True))


B_TAG = {'dollar': 'math', 'paren': 'math', 'bracket': 'displaymath', 'equation': 'equation', 'textbf': 'textbf'}
MATHTAGS = ('math', 'displaymath', 'equation')


def b_observe(ctx, ts):
    """-> list of (source tokens, mathjax tokens) per formula, document text depth; or 'raises:..'"""
    src = PRE_B + ''.join('x %s y\n\n' % wrap(ctx, pr(t)) for t in ts)
    try:
        doc = parse_doc(src, 20.0 + 0.02 * len(ts))
        out = []
        for n in doc.getElementsByTagName(B_TAG[ctx]):
            p = n.parentNode
            nested = False
            while p is not None:
                if p.nodeName in MATHTAGS:
                    nested = True
                    break
                p = p.parentNode
            if nested:
                continue
            if ctx == 'textbf':
                ms = n.getElementsByTagName('math')
                if not ms:
                    out.append(('no math node', None))
                    continue
                n = ms[0]
            out.append((toks(str(n.source)), toks(str(n.mathjax_source))))
        return out, len(doc.context.contexts)
    except core.Timeout:
        return 'timeout'
    except Exception as e:
        return 'raises:%s' % type(e).__name__


FID_CHARSUB = 'C11.MATH_GROUP_CHARSUB'
FID_TEXT = 'C11.TEXT_DOLLAR_CLOSES_MATH'
APOS = '’'


def pr_charsub(t, sub=False):
    """expanded print under deviation MATH_GROUP_CHARSUB: text that is a child node (not argument source) of a bare
    brace group or of an array cell has gone through the text-mode character substitution (' -> U+2019)"""
    if isinstance(t, str):
        return t.replace("'", APOS) if sub else t
    op = t[0]
    if op in ('lr', 'zzm', 'jux'):          # siblings of the surrounding material: inherit
        args = [pr_charsub(c, sub) for c in t[1:]]
    elif op == 'grp' or op == 'arr':
        args = [pr_charsub(c, True) for c in t[1:]]
    else:                                   # argument source: rebuilt from tokens
        args = [pr_charsub(c, False) for c in t[1:]]
    return pr((op,) + tuple(args), True)


def text_in_dollar(t, inline):
    """does the tree hold a \\text{.. $..$ ..} whose nearest enclosing math opener is a $ (inline = opener state)"""
    if isinstance(t, str):
        return False
    op = t[0]
    if op == 'text':
        if inline:
            return True
        return text_in_dollar(t[1], True)
    if op == 'mbox':
        return text_in_dollar(t[1], True)
    return any(text_in_dollar(c, inline) for c in t[1:])


def b_judge(ctx, t):
    es, em = b_expected(ctx, t)
    exp = ([(es, em)], 2)
    obs = b_observe(ctx, [t])
    if obs == exp:
        return 'ok', None, exp, obs, ''
    if text_in_dollar(t, ctx in ('dollar', 'textbf')):
        return 'known', FID_TEXT, exp, obs, ('\\text is not a box command: a $ inside \\text{} that is itself inside $...$ '
                                             'closes the outer formula; resulting structure not modelled')
    if not isinstance(obs, str) and len(obs[0]) == 1 and obs[1] == 2:
        f = pr_charsub(t)
        if f != pr(t, True):
            ds, dm = _expected_from_print(ctx, f)
            if obs[0][0] == (ds, dm):
                return 'known', FID_CHARSUB, exp, obs, ('text-mode character substitution applied inside a brace group / '
                                                        'array cell of a formula: source has U+2019 for the prime')
    return 'violation', None, exp, obs, 'source / mathjax_source token stream differs from the printed formula'


def _expected_from_print(ctx, f):
    if ctx in ('dollar', 'paren', 'textbf'):
        src = '$%s$' % f
        mj = '\\(%s\\)' % f
    elif ctx == 'bracket':
        src = mj = '\\[%s\\]' % f
    else:
        src = mj = '\\begin{equation}%s\\end{equation}' % f
    es = toks(src)
    em = [((0, 'lt') if k == (12, '<') else (0, 'gt') if k == (12, '>') else k) for k in toks(mj)]
    return es, em
