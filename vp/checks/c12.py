"""
C12 -- Rendered HTML never turns document text into markup.
Engine E1, differential oracle: the same document is rendered once with a benign marker word and once with an
adversarial payload in the same text-bearing position; both outputs are parsed with html.parser and must have the same
element / attribute structure, with every text node and attribute value equal after substituting marker -> payload.
"""
import re
from html.parser import HTMLParser
from vp import core, state, render

ID = 'C12'
LEVEL = 'exploration'
RULE = ('every (position, payload, configuration): 14 text-bearing positions (paragraph, section title, caption, footnote, list '
        'item, description term, table cell, verbatim, \\verb, quote, theorem title, \\emph argument, document title, index '
        'entry) x 15 payloads (tags, end tags, script, entity-like strings incl. the image-size pattern, attribute breakout, '
        'CDATA end, comment start, non-ASCII, U+2028) x {HTML5 default, HTML5 minimal, XHTML} x escape-high-chars on/off; '
        'thorough adds every ordered pair of positions with two different payloads. Non-trivial: payload contains a markup '
        'metacharacter; distinct = distinct (positions, payloads, configuration); outcomes = distinct difference signatures.')
ASSUMPTIONS = [
    'oracle: html.parser event streams of marker run and payload run agree modulo marker -> displayed payload; no hand-written HTML',
    'displayed payload = the characters typed, after LaTeX character substitutions (-- to en dash) outside verbatim',
    'attribute values are compared modulo runs of white space; text nodes exactly',
]

MARK = 'Mqxyz'
MARK2 = 'Mqabc'
EN = chr(8211)

PAYLOADS = ['caf\u00e9 \u00fc<x>', '&fig-width;&px;', 'e\u0301x\u212a\u2126', '\u0338slashed', '&lt-width;', '&amp-height;', '<a href="x?a=1&b=2">t</a>', 'a < b && c > d', 'x\U0001d518y<', '<b>x</b>', '</p>', '<script>alert(1)</script>', '&amp;', '&lt;', '&#60;', '&x-width;', '" onmouseover="x',
            ']]>', '<!--', 'a<b>c', '\u00e9\u20ac', 'u\u2028v', '&copy', '<a href="x">y</a>']


def tex(s, verbatim=False):
    if verbatim:
        return s
    out = []
    for c in s:
        if c in '&#%_$':
            out.append('\\' + c)
        else:
            out.append(c)
    return ''.join(out)


def display(s, verbatim=False):
    if verbatim:
        return s
    return s.replace('--', EN)


# position -> (template with {X}, is_verbatim)
POSITIONS = {
    'para': ('body {X} text', False),
    'sectitle': ('\\section{{T {X}}} body', False),
    'subtitle': ('\\section{{A}}\\subsection{{B {X}}} body', False),
    'parenttitle': ('\\section{{P {X}}}\\subsection{{child}} body\\subsection{{child two}} more', False),
    'caption': ('\\begin{{figure}}fig\\caption{{C {X}}}\\end{{figure}}', False),
    'footnote': ('text\\footnote{{F {X}}} more', False),
    'item': ('\\begin{{itemize}}\\item I {X}\\end{{itemize}}', False),
    'term': ('\\begin{{description}}\\item[{{D {X}}}] d\\end{{description}}', False),
    'cell': ('\\begin{{tabular}}{{ll}}a&{X}\\\\ c&d\\end{{tabular}}', False),
    'verbatim': ('\\begin{{verbatim}}\nV {X}\n\\end{{verbatim}}', True),
    'verb': ('v \\verb|{X}| w', True),
    'verbstar': ('v \\verb*|{X}| w', True),
    'verbatimstar': ('\\begin{{verbatim*}}\nV {X}\n\\end{{verbatim*}}', True),
    'quote': ('\\begin{{quote}}Q {X}\\end{{quote}}', False),
    'thmtitle': ('\\begin{{zzthm}}[{{H {X}}}]t\\end{{zzthm}}', False),
    'emph': ('e \\emph{{E {X}}} f', False),
    'doctitle': ('\\title{{W {X}}}\\author{{au}}\\maketitle body', False),
    # the note of a citation and the label of a bibliography entry
    'citenote': ('see \\cite[N {X}]{{zka}} more \\begin{{thebibliography}}{{9}}\\bibitem{{zka}} A\\end{{thebibliography}}', False),
    'biblabel': ('see \\cite{{zkb}} more \\begin{{thebibliography}}{{9}}\\bibitem[{{L {X}}}]{{zkb}} B\\end{{thebibliography}}', False),
    # text that stands alone in its node, after a raw-markup passage (html package) spelled with the very same characters
    'afterraw': ('\\begin{{rawhtml}}<i class="r">raw</i>\\end{{rawhtml}} r \\texttt{{{X}}} s \\begin{{rawhtml}}&lt;\\end{{rawhtml}} '
                 '\\textbf{{{X}}}', False),
}
RAW_TWINS = ['<i class="r">raw</i>', '&lt;']
CONFIGS = {
    'h5': ('HTML5', {('general', 'theme'): 'default'}),
    'h5min': ('HTML5', {('general', 'theme'): 'minimal'}),
    'xh': ('XHTML', {('general', 'theme'): 'default'}),
    # output encoding different from the (utf-8) input encoding; only payloads that latin-1 can encode
    # (the HTML5 default theme itself contains characters outside latin-1, so the minimal theme is used here)
    'h5l1': ('HTML5', {('general', 'theme'): 'minimal', ('files', 'output-encoding'): 'iso-8859-1'}),
    'xhl1': ('XHTML', {('general', 'theme'): 'default', ('files', 'output-encoding'): 'iso-8859-1'}),
}


def document(fills):
    """fills: {position: text to insert (already LaTeX-spelled)}; unfilled positions are absent"""
    body = []
    order = ['doctitle', 'afterraw', 'citenote', 'biblabel', 'para', 'sectitle', 'subtitle', 'parenttitle', 'caption', 'footnote', 'item', 'term', 'cell', 'verbatim', 'verb', 'verbstar', 'verbatimstar',
             'quote', 'thmtitle', 'emph']
    for p in order:
        if p in fills:
            body.append(POSITIONS[p][0].format(X=fills[p]))
    pre = '\\usepackage{html}' if 'afterraw' in fills else ''
    return ('\\documentclass{article}' + pre + '\\newtheorem{zzthm}{Theorem}\\begin{document}' + '\n\n'.join(body) +
            '\n\n\\section{Z}end\\end{document}')


class Events(HTMLParser):
    def __init__(self):
        HTMLParser.__init__(self, convert_charrefs=True)
        self.ev = []

    def _data(self, d):
        if self.ev and self.ev[-1][0] == 'data':
            self.ev[-1] = ('data', self.ev[-1][1] + d)
        else:
            self.ev.append(('data', d))

    def handle_starttag(self, tag, attrs):
        self.ev.append(('start', tag, tuple(attrs)))

    def handle_startendtag(self, tag, attrs):
        self.ev.append(('start', tag, tuple(attrs)))
        self.ev.append(('end', tag))

    def handle_endtag(self, tag):
        self.ev.append(('end', tag))

    def handle_data(self, d):
        self._data(d)

    def handle_comment(self, d):
        self.ev.append(('comment', d))

    def handle_decl(self, d):
        self.ev.append(('decl', d))

    def unknown_decl(self, d):
        self.ev.append(('decl', d))

    def handle_pi(self, d):
        self.ev.append(('pi', d))


def events(text):
    p = Events()
    p.feed(text)
    p.close()
    return p.ev


def diff_streams(a, b, subs, loose_ws=False):
    """a = marker run, b = payload run; subs = [(marker, displayed payload)].  -> list of difference records.
    loose_ws: text is compared with white space removed (positions whose template puts every item of the argument on a
    line of its own, so that the white space depends on how many nodes the payload parses into)"""
    def sub(s):
        for m, d in subs:
            s = s.replace(m, d)
        return s
    ws = (lambda t: ''.join(t.split())) if loose_ws else (lambda t: t)
    diffs = []
    n = min(len(a), len(b))
    i = 0
    while i < n:
        x, y = a[i], b[i]
        if x[0] != y[0]:
            diffs.append(('structure', i, repr(x)[:120], repr(y)[:120]))
            return diffs
        if x[0] == 'data':
            if ws(sub(x[1])) != ws(y[1]):
                diffs.append(('text', i, sub(x[1])[:160], y[1][:160]))
        elif x[0] == 'start':
            if x[1] != y[1]:
                diffs.append(('structure', i, repr(x)[:120], repr(y)[:120]))
                return diffs
            an = [k for k, v in x[2]]
            bn = [k for k, v in y[2]]
            if an != bn:
                diffs.append(('attrnames', i, '%s %s' % (x[1], x[2]), '%s %s' % (y[1], y[2])))
                return diffs
            for (k, v), (k2, v2) in zip(x[2], y[2]):
                # attribute values are compared modulo runs of white space (templates pass titles through striptags)
                if ' '.join(sub(v or '').split()) != ' '.join((v2 or '').split()):
                    diffs.append(('attrvalue', i, '%s %s=%r' % (x[1], k, sub(v or '')), '%s %s=%r' % (y[1], k2, v2)))
        elif x[0] == 'end':
            if x[1] != y[1]:
                diffs.append(('structure', i, repr(x)[:120], repr(y)[:120]))
                return diffs
        else:
            if sub(x[1]) != y[1]:
                diffs.append((x[0], i, x[1][:120], y[1][:120]))
        i += 1
    if len(a) != len(b):
        diffs.append(('structure', n, 'stream lengths %d vs %d' % (len(a), len(b)),
                      repr((a[n:n + 1] or b[n:n + 1]))[:160]))
    return diffs


_BASE = {}


def render_case(fills, cfgname, escape):
    rname, cfg = CONFIGS[cfgname]
    cfg = dict(cfg)
    cfg[('files', 'escape-high-chars')] = bool(escape)
    cfg[('files', 'split-level')] = 2
    return render.render(document(fills), rname, cfg)


def judge(case):
    fills_p = {}
    fills_m = {}
    subs = []
    marks = [MARK, MARK2]
    for j, (pos, payload) in enumerate(case['fills']):
        verb = POSITIONS[pos][1]
        fills_p[pos] = tex(payload, verb)
        fills_m[pos] = marks[j]
        subs.append((marks[j], display(payload, verb)))
    base = render_case(fills_m, case['config'], False)
    out = render_case(fills_p, case['config'], case['escape'])
    src = document(fills_p)
    if base['error']:
        return 'error', [('harness', 0, 'marker document failed', base['error'])], src
    if out['error']:
        return 'violation', [('raises', 0, 'renders', out['error'])], src
    diffs = []
    if sorted(base['files']) != sorted(out['files']):
        diffs.append(('files', 0, sorted(base['files']), sorted(out['files'])))
        return 'violation', diffs, src
    for fn in sorted(base['files']):
        if case['escape']:
            raw = out['raw'][fn]
            bad = [b for b in raw if b > 127]
            if bad:
                diffs.append(('nonascii', 0, 'pure ASCII bytes with escape-high-chars', '%d bytes > 127 in %s' % (len(bad), fn)))
        try:
            ea = events(base['files'][fn])
            eb = events(out['files'][fn])
        except Exception as e:
            diffs.append(('parse', 0, fn, '%s: %s' % (type(e).__name__, e)))
            continue
        for d in diff_streams(ea, eb, subs, loose_ws=any(p_ == 'citenote' for p_, _x in case['fills'])):
            diffs.append(d + (fn,))
        judge.digest = core.h64((getattr(judge, 'digest', 0), fn, [e[:2] for e in eb if e[0] != 'data'],
                                 [e[1] for e in eb if e[0] == 'data' and any(d in e[1] for m, d in subs)]))
    return ('violation' if diffs else 'ok'), diffs, src


# ---- open findings as masks --------------------------------------------------------------------------------
def explain(case, d):
    """-> finding id if this single difference record is exactly what an open finding describes, else None"""
    kind = d[0]
    payloads = [p for pos, p in case['fills']]
    for fid, fn in MASKS:
        if fn(case, d, payloads):
            return fid
    return None


MASKS = []


def classify(case, diffs):
    fids = set()
    for d in diffs:
        f = explain(case, d)
        if f is None:
            return None
        fids.add(f)
    return sorted(fids)


def run_block(block):
    rep = core.Report()
    for case in block:
        judge.digest = 0
        v, diffs, src = judge(case)
        meta = any(c in p for pos, p in case['fills'] for c in '<>&"')
        sig = tuple(sorted(set((d[0], re.sub(r'\d+', 'N', str(d[2]))[:60]) for d in diffs)))
        rep.case(key=repr(case), nontrivial=meta, outcome=(sig, judge.digest))
        rep.count('cfg_' + case['config'])
        if v == 'ok':
            if meta and len(rep.samples) < 3:
                rep.sample({'case': case, 'source': src[:400]})
            continue
        if v == 'error':
            rep.error('marker document does not render: %s' % (diffs,))
            continue
        fids = classify(case, diffs)
        if fids:
            for f in fids:
                rep.known_finding(f, case, repr(diffs[:2])[:400])
        else:
            rep.violation(case, 'same structure, payload shown as text', [list(map(str, d)) for d in diffs[:4]], src)
    return rep.close_block()


def replay(case):
    v, diffs, src = judge(case)
    if v == 'ok':
        return {'verdict': 'ok', 'expected': None, 'observed': None, 'detail': src}
    fids = classify(case, diffs) if v == 'violation' else None
    if fids:
        f = core.Findings()
        if all(f.is_open(x) for x in fids):
            return {'verdict': 'known', 'fid': fids[0], 'expected': None, 'observed': [list(map(str, d)) for d in diffs[:4]],
                    'detail': src}
    return {'verdict': 'violation', 'expected': 'same structure, payload shown as text',
            'observed': [list(map(str, d)) for d in diffs[:6]], 'detail': src}


def run(tier, seed, rep):
    state.pristine()
    quick = tier == 'quick'
    cases = []
    for cfgname in CONFIGS:
        for pos in POSITIONS:
            for pl in (PAYLOADS if pos != 'afterraw' else RAW_TWINS + PAYLOADS[:4]):
                if pos == 'citenote' and ']' in pl:
                    continue        # the note is written without protecting braces
                for esc in (0, 1):
                    if quick and esc and not (cfgname == 'h5' or any(ord(c) > 127 for c in pl)):
                        continue
                    if cfgname.endswith('l1'):
                        try:
                            # what is written is the displayed form (-- has become a dash): it must exist in latin-1,
                            # otherwise the configuration itself is inconsistent with the document
                            display(pl).encode('iso-8859-1')
                        except UnicodeEncodeError:
                            continue
                        if quick and not any(ord(c) > 127 for c in pl):
                            continue
                    cases.append({'fills': [[pos, pl]], 'config': cfgname, 'escape': esc})
    if not quick:
        plist = list(POSITIONS)
        for cfgname in ('h5', 'xh'):
            for i, p1 in enumerate(plist):
                for p2 in plist:
                    if p1 == p2:
                        continue
                    k = (plist.index(p1) * 7 + plist.index(p2)) % len(PAYLOADS)
                    for off in (0, 3, 7):
                        a = PAYLOADS[(k + off) % len(PAYLOADS)]
                        b = PAYLOADS[(k + off + 5) % len(PAYLOADS)]
                        if (p1 == 'citenote' and ']' in a) or (p2 == 'citenote' and ']' in b):
                            continue        # the note is written without protecting braces
                        cases.append({'fills': [[p1, a], [p2, b]], 'config': cfgname, 'escape': 0})
    cases = core.rotate(cases, seed)
    blocks = core.chunks(cases, 8)
    core.merge_all(run_block, blocks, rep)
    return {'exhaustive': True, 'bounds': {'positions': len(POSITIONS), 'payloads': len(PAYLOADS), 'configs': list(CONFIGS),
                                           'pairs': not quick, 'cases': len(cases)},
            'floors': {'evaluations': 800}}
