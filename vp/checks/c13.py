"""
C13 -- Rendering splits the document into files without losing or repeating content.
Engine E1: every ordered sectioning forest up to n units x every split level -10..6 x filename templates x bad-chars x
renderer/theme; oracle = file-ownership partition computed from the heading levels.
"""
import itertools, re
from vp import core, state, render

ID = 'C13'
LEVEL = 'exploration'
RULE = ('documents = every sequence of <= n headings over the class levels (chapter..subsubsection, arbitrary level jumps), each '
        'unit with a unique body marker (plus text before the first heading), variants {plain, footnote + label + colliding '
        'titles with forbidden characters, identical twin units, heading-only last / first unit, a label spelling a numbered name already given / still to come}; also rendered after toXML() and as the second document of one renderer object / of one configuration object whose first document used a single-file template; plus section + every sequence over '
        'subsubsection..subsubparagraph and the full 7-level chain; x split-level -10..6 x filename templates x bad-chars (x substitute: hyphen, empty, two underscores) x renderer/theme. '
        'Oracle: a unit owns a file iff its level <= split level (one file for a single-name template); body markers are '
        'partitioned over the files exactly as ownership predicts, each exactly once, in document order, footnote text after '
        'the body text of its file; file names free of forbidden characters and identical on a second render. '
        'Non-trivial: at least two files expected; distinct = distinct (document, configuration).')
ASSUMPTIONS = [
    'ownership model: nearest heading at or above (in the heading hierarchy) whose level <= split level, else the document file',
    'markers are unique words, so "appears once in main text" is measured as one occurrence in all output files',
]

LEVELS = {'chapter': 0, 'section': 1, 'subsection': 2, 'subsubsection': 3, 'paragraph': 4, 'subparagraph': 5,
          'subsubparagraph': 6}
DEEP_UNITS = ['subsubsection', 'paragraph', 'subparagraph', 'subsubparagraph']
CLASS_UNITS = {'book': ['chapter', 'section', 'subsection', 'subsubsection'], 'article': ['section', 'subsection', 'subsubsection']}
TEMPLATES = {
    'default': 'index [$id, sect$num(4)]',
    'idtitle': '[$id, $title(2), sect$num]',
    'num3': 'index sect$num(3)',
    'single_var': '$name-$num',
    'single': 'one',
    'short_static': 'index second',
    'wide': 'index [$id, $title(12), sect$num(10)]',       # widths of two digits
    'ext': 'index.html [$id, sect$num(4)]',                 # one name spells the extension out, the others get it added
}
SINGLE = ('single_var', 'single')
THEMES = {'HTML5': ('HTML5', 'default'), 'HTML5min': ('HTML5', 'minimal'), 'XHTML': ('XHTML', 'default'),
          'Text': ('Text', None)}
DEFAULT_BAD = ': #$%^&*!~`"\'=?/{}[]()|<>;\\,.'


def marker(kind, i):
    return '%sq%sz' % (kind, chr(97 + i // 16) + chr(97 + i % 16))


def twin_units(units, variant):
    """indexes of the units without a body marker of their own: the two identically written last units of variant 'twins',
    the heading-only last unit of variant 'bare'"""
    if variant == 'bare' and units:
        return (len(units) - 1,)
    if variant == 'bare0' and len(units) >= 2:
        return (0,)
    if variant == 'twins' and len(units) >= 2 and units[-1] == units[-2]:
        return (len(units) - 2, len(units) - 1)
    return ()


def document(cls, units, variant):
    body = [marker('b', 0) + ' ']
    twins = twin_units(units, variant)
    for i, u in enumerate(units):
        if i in twins and variant == 'twins':
            # two structurally identical units: same title, same text, same footnote
            body.append('\\%s{Twin}Same bqppz\\footnote{fqppz}\n\n' % u)
            continue
        if i in twins and variant in ('bare', 'bare0'):
            # a heading-only unit: directly followed by the end of the document / the next heading
            body.append('\\%s{%s}\n' % (u, marker('t', i)))
            continue
        if variant in ('plain', 'twins', 'bare', 'bare0', 'numlast', 'numfirst'):
            title = marker('t', i)
        else:
            title = 'Same: title/x'           # colliding titles with forbidden characters
        s = '\\%s{%s}' % (u, title)
        if variant == 'rich' and i == len(units) - 1:
            # the label of a file-producing unit spells the static name of the default template
            s += '\\label{%s}' % ('index' if len(units) >= 2 else 'lb:x%d' % i)
        # a label that spells a numbered name of the default template: the one an earlier unlabelled unit already got
        # (numlast) / the one a later unlabelled unit would get (numfirst)
        if variant == 'numlast' and i == len(units) - 1 and len(units) >= 2:
            s += '\\label{sect0001}'
        if variant == 'numfirst' and i == 0 and len(units) >= 2:
            s += '\\label{sect0002}'
        s += ' ' + marker('b', i + 1)
        if variant == 'rich' and i == 0:
            s += '\\footnote{%s}' % marker('f', 0)
            # a list nested in a list: its words belong to this unit like the rest of its text
            s += ' \\begin{itemize}\\item %s\\begin{itemize}\\item %s\\end{itemize}\\end{itemize}' % (marker('l', 0), marker('l', 1))
        body.append(s + '\n\n')
    return '\\documentclass{%s}\\begin{document}%s\\end{document}' % (cls, ''.join(body))


def owners(units, split, single):
    """owner index (-1 = document file) of the text before the first heading (index 0) and of each unit body"""
    own = [-1]
    stack = []      # (level, index)
    for i, u in enumerate(units):
        lvl = LEVELS[u]
        while stack and stack[-1][0] >= lvl:
            stack.pop()
        stack.append((lvl, i))
        o = -1
        if not single:
            for l, j in reversed(stack):
                if l <= split:
                    o = j
                    break
        own.append(o)
    return own


def judge(case, second=False):
    cls, units, variant, split, tname, bad, theme = (case['cls'], tuple(case['units']), case['variant'], case['split'],
                                                      case['template'], case['bad'], case['theme'])
    rname, th = THEMES[theme]
    src = document(cls, units, variant)
    cfg = {('files', 'split-level'): split, ('files', 'filename'): TEMPLATES[tname]}
    if th is not None:
        cfg[('general', 'theme')] = th
    if bad is not None:
        cfg[('files', 'bad-chars')] = bad
    if case.get('sub') is not None:
        cfg[('files', 'bad-chars-sub')] = case['sub']
    pre = (lambda doc: doc.toXML()) if case.get('prexml') else None
    if case.get('reuse') or case.get('cfgreuse'):
        out = render_second(case, rname, cfg, src)
    else:
        out = render.render(src, rname, cfg, pre_render=pre)
    single = tname in SINGLE
    own = owners(units, split, single)
    nfiles_expected = len(set(own))
    if out['error']:
        if tname == 'short_static' and nfiles_expected > 2:
            return 'ok', {'error_when_names_run_out': out['error']}, None, src
        return 'violation', None, out['error'], src
    files = out['files']
    problems = []
    # where is every marker?
    where = {}
    for fn, text in files.items():
        for mm in re.finditer(r'[bfl]q[a-p][a-p]z', text):
            where.setdefault(mm.group(0), []).append((fn, mm.start()))
    twins = twin_units(units, variant)
    bm = [marker('b', i) for i in range(len(units) + 1)]
    groups = {}
    if twins and variant == 'twins':
        # identical units: the shared body word must occur once per twin, distributed over the files as ownership says,
        # and the shared footnote text exactly as often as the body word in every file
        import collections
        want = sorted(collections.Counter(own[t + 1] for t in twins).values())
        have_b = collections.Counter(fn for fn, pos in where.get('bqppz', []))
        have_f = collections.Counter(fn for fn, pos in where.get('fqppz', []))
        if sorted(have_b.values()) != want:
            problems.append('text of the identical units occurs %s times per file, expected %s' % (sorted(have_b.values()), want))
        if have_f != have_b:
            problems.append('footnote of the identical units occurs %s per file, its text %s' % (dict(have_f), dict(have_b)))
    for i, m in enumerate(bm):
        if i - 1 in twins:
            continue
        occ = where.get(m, [])
        if len(occ) != 1:
            problems.append('body marker %s of unit %d occurs %d times %s' % (m, i - 1, len(occ), [o[0] for o in occ]))
            continue
        groups.setdefault(occ[0][0], []).append((occ[0][1], i))
    if not problems:
        part_obs = sorted(tuple(i for pos, i in sorted(g)) for g in groups.values())
        part_exp = {}
        for i, o in enumerate(own):
            if i - 1 in twins:
                continue
            part_exp.setdefault(o, []).append(i)
        part_exp = sorted(tuple(v) for v in part_exp.values())
        if part_obs != part_exp:
            problems.append('markers per file %s, expected %s' % (part_obs, part_exp))
        for fn, g in groups.items():
            idx = [i for pos, i in sorted(g)]
            if idx != sorted(idx):
                problems.append('order inside %s is %s' % (fn, idx))
        if twins:
            pass        # owners that hold only twin units have no unique marker; the file count is checked below
        if tname != 'short_static' and len(files) != nfiles_expected:
            problems.append('%d files produced %s, expected %d' % (len(files), sorted(files), nfiles_expected))
    if variant == 'rich' and units and not problems:
        host = [fn for fn, g in groups.items() if any(i == 1 for pos, i in g)]
        for j in (0, 1):
            occ = where.get(marker('l', j), [])
            if len(occ) != 1 or not host or occ[0][0] != host[0]:
                problems.append('word %s of the nested list occurs in %s, its unit is in %s' % (marker('l', j), [o[0] for o in occ], host))
    if variant == 'rich' and units:
        f = marker('f', 0)
        occ = where.get(f, [])
        if len(occ) != 1:
            problems.append('footnote marker occurs %d times' % len(occ))
        elif not problems:
            host = [fn for fn, g in groups.items() if any(i == 1 for pos, i in g)]
            if not host or occ[0][0] != host[0]:
                docfile = [fn for fn, g in groups.items() if any(i == 0 for pos, i in g)]
                problems.append('footnote text is in %s%s, its unit in %s' % (
                    occ[0][0], ' (the document file)' if docfile and docfile[0] == occ[0][0] else '', host))
            else:
                last = max(pos for pos, i in groups[host[0]])
                if occ[0][1] < last:
                    problems.append('footnote text precedes body text in %s' % host[0])
    badset = DEFAULT_BAD if bad is None else bad
    for fn in files:
        stem = fn[:-5] if fn.endswith('.html') else fn[:-4] if fn.endswith('.txt') else fn
        hit = [c for c in stem if c in badset]
        if hit:
            problems.append('file name %r contains forbidden %r' % (fn, hit))
    names = sorted(files)
    if problems:
        return 'violation', None, '; '.join(problems[:3]), src
    return 'ok', names, None, src


def render_second(case, rname, cfg, src):
    """one renderer object renders another document first (three labelled sections, into a directory of its own) and
    then this one: -> the files found in this document's directory"""
    import os, shutil, tempfile, importlib
    from plasTeX.TeX import TeX
    from plasTeX.DOM import Node
    other = ('\\documentclass{article}\\begin{document}oqaz \\section{Oa}\\label{oa} oqbz \\section{Ob} oqcz '
             '\\section{Oc} oqdz \\subsection{Od} oqez\\footnote{oqfz}\\end{document}')
    out = {'files': {}, 'error': None}
    cwd = os.getcwd()
    base = tempfile.mkdtemp(prefix='vp-c13-')
    try:
        with core.time_limit(120):
            R = importlib.import_module(render.RENDERERS[rname][0]).Renderer()
            shared = None
            if case.get('cfgreuse'):
                # one configuration object serves both documents; the first is written with a single-file template
                from plasTeX.Config import defaultConfig
                shared = defaultConfig()
            for sub, text in (('one', other), ('two', src)):
                d = os.path.join(base, sub)
                os.makedirs(d)
                os.chdir(d)
                state.reset()
                if shared is not None:
                    import plasTeX
                    tex = TeX(plasTeX.TeXDocument(config=shared))
                    R = importlib.import_module(render.RENDERERS[rname][0]).Renderer()
                else:
                    tex = TeX()
                doc = tex.ownerDocument
                doc.context.warnOnUnrecognized = False
                c = doc.config
                c['images']['imager'] = 'none'
                c['images']['vector-imager'] = 'none'
                c['general']['renderer'] = rname
                c['general']['copy-theme-extras'] = False
                doc.userdata['jobname'] = 'doc'
                doc.userdata['working-dir'] = d
                if shared is None or sub == 'one':
                    for (sec, key), val in cfg.items():
                        c[sec][key] = val
                if shared is not None:
                    # the user configured everything once; only the template differs between the two renderings
                    c['files']['filename'] = 'whole' if sub == 'one' else cfg[('files', 'filename')]
                tex.jobname = 'doc'
                tex.input(text)
                tex.parse()
                R.render(doc)
            for root, dirs, files in os.walk(os.path.join(base, 'two')):
                for f in files:
                    if f.endswith(render.RENDERERS[rname][1]):
                        pth = os.path.join(root, f)
                        with open(pth, 'rb') as fh:
                            out['files'][os.path.relpath(pth, os.path.join(base, 'two'))] = fh.read().decode('utf-8', 'replace')
    except core.Timeout:
        out['error'] = 'timeout'
    except Exception as e:
        out['error'] = 'raises %s: %s' % (type(e).__name__, str(e)[:200])
    finally:
        try:
            if hasattr(Node, 'renderer'):
                from plasTeX.Renderers import unmix, Renderable
                del Node.renderer
                unmix(Node, Renderable)
        except Exception:
            pass
        os.chdir(cwd)
        shutil.rmtree(base, ignore_errors=True)
    return out


def run_block(block):
    cls, units, variant, tname, bad, theme, splits, twice = block
    sub = None
    if isinstance(bad, tuple):
        bad, sub = bad
    rep = core.Report()
    flag = None
    if '+' in variant:
        variant, flag = variant.split('+')
    for split in splits:
        case = {'cls': cls, 'units': list(units), 'variant': variant, 'split': split, 'template': tname, 'bad': bad,
                'theme': theme}
        if sub is not None:
            case['sub'] = sub
        if flag:
            case[flag] = True
        v, names, info, src = judge(case)
        if flag == 'prexml' and v == 'ok':
            # serializing the tree before rendering (what --xml does) must not change any file name
            v0, names0, info0, src0 = judge({k: x for k, x in case.items() if k != 'prexml'})
            if v0 == 'ok' and names0 != names:
                v, info = 'violation', 'file names after toXML() %s differ from the names without it %s' % (names, names0)
        own = owners(units, split, tname in SINGLE)
        rep.case(key=(cls, units, variant, flag, split, tname, bad, sub, theme), nontrivial=len(set(own)) >= 2,
                 outcome=(tuple(names) if isinstance(names, list) else repr(names), info))
        rep.count('theme_' + theme)
        if v != 'ok':
            fid = classify(case, info)
            if fid:
                rep.known_finding(fid, case, info)
            else:
                rep.violation(case, 'content partitioned by ownership; clean, stable file names', info, src)
            continue
        if len(units) >= 2 and split in (0, 1):
            rep.sample({'config': {k: case[k] for k in ('split', 'template', 'theme')}, 'files': names, 'source': src})
        if twice and split == 1 and isinstance(names, list):
            # determinism: same input rendered again in a fresh forked process
            st, res = core.run_isolated(_render_names, case, timeout=120)
            rep.count('second_render')
            if st != 'ok' or res != names:
                rep.violation(dict(case, second=True), names, res if st == 'ok' else st, 'second render differs; ' + src)
    return rep.close_block()


def _render_names(case):
    v, names, info, src = judge(case)
    return names if v == 'ok' else info


def classify(case, info):
    # Text renderer: footnote texts are collected at the end of the document file, not of the unit's file
    if case.get('theme') == 'Text' and isinstance(info, str):
        probs = info.split('; ')
        if probs and all(re.match(r"^footnote text is in \S* \(the document file\), its unit in \['", p_) for p_ in probs):
            return 'C13.TEXT_FOOTNOTES_IN_DOCUMENT_FILE'
    return None


def replay(case):
    case = dict(case)
    second = case.pop('second', False)
    v, names, info, src = judge(case)
    if second and v == 'ok':
        st, res = core.run_isolated(_render_names, case, timeout=120)
        if st != 'ok' or res != names:
            return {'verdict': 'violation', 'expected': names, 'observed': res, 'detail': 'second render differs; ' + src}
    fid = classify(case, info) if v != 'ok' else None
    if fid:
        return {'verdict': 'known', 'fid': fid, 'expected': None, 'observed': info, 'detail': src}
    return {'verdict': v, 'expected': 'content partitioned by ownership; clean, stable file names',
            'observed': info if v != 'ok' else names, 'detail': src}


def shapes(cls, n):
    us = CLASS_UNITS[cls]
    out = [()]
    for k in range(1, n + 1):
        out += list(itertools.product(us, repeat=k))
    return out


def extra_blocks(n):
    """forbidden characters deleted (empty substitute) or replaced by two characters; heading-only last unit; the three
    sectioning levels below subsubsection"""
    blocks = []
    splits = list(range(-10, 7))
    for units in shapes('article', 2):
        if units:
            blocks.append(('article', units, 'rich', 'idtitle', (None, ''), 'XHTML', [-10, 1, 2, 3], False))
            blocks.append(('article', units, 'rich', 'idtitle', (' :', ''), 'HTML5min', [1, 2], False))
            blocks.append(('article', units, 'rich', 'idtitle', (None, '__'), 'HTML5min', [1, 2], False))
    for units in shapes('book', n):
        if units:
            blocks.append(('book', units, 'bare', 'default', None, 'XHTML', [-10, 0, 1, 2, 3, 6], False))
            if len(units) <= 2:
                blocks.append(('book', units, 'bare', 'idtitle', None, 'HTML5', [0, 1, 2, 3], False))
            if len(units) >= 2:
                blocks.append(('book', units, 'bare0', 'default', None, 'XHTML', [0, 1, 2, 3], False))
    deep = [()]
    for k in range(1, n + 1):
        deep += list(itertools.product(DEEP_UNITS, repeat=k))
    for units in deep:
        if units:
            blocks.append(('article', ('section',) + units, 'plain', 'default', None, 'XHTML', splits, False))
    for units in shapes('article', 2):
        if units:
            blocks.append(('article', units, 'rich', 'default', None, 'Text', [-10, 0, 1, 2], False))
            blocks.append(('article', units, 'rich+reuse', 'idtitle', None, 'Text', [1, 2], False))
            blocks.append(('article', units, 'plain', 'default', None, 'Text', [1, 2, 3], len(units) == 2))
    for units in shapes('article', 2):
        if units:
            # forbidden characters that are letters (the titles and ids consist of letters only)
            blocks.append(('article', units, 'plain', 'idtitle', 'qz', 'XHTML', [1, 2], False))
            blocks.append(('article', units, 'rich', 'idtitle', ('xS :', ''), 'HTML5min', [1, 2], False))
    for units in shapes('book', 3):
        if len(units) >= 2:
            sp = [0, 1, 2, 3] if (len(units) == 2 or n > 2) else [1, 3]
            blocks.append(('book', units, 'numlast', 'default', None, 'XHTML', sp, False))
            blocks.append(('book', units, 'numfirst', 'default', None, 'XHTML', sp, False))
        if 1 <= len(units) <= 2:
            blocks.append(('book', units, 'plain+prexml', 'default', None, 'HTML5', [0, 1, 2], False))
            blocks.append(('book', units, 'rich+prexml', 'idtitle', None, 'XHTML', [1, 2], False))
            blocks.append(('book', units, 'plain+reuse', 'default', None, 'XHTML', [0, 1, 2], False))
            blocks.append(('book', units, 'rich+reuse', 'idtitle', None, 'HTML5', [1], False))
            blocks.append(('book', units, 'plain+cfgreuse', 'default', None, 'XHTML', [0, 1, 2], False))
            blocks.append(('book', units, 'plain', 'wide', None, 'XHTML', [0, 1, 2], False))
            blocks.append(('book', units, 'twins' if len(units) == 2 and units[0] == units[1] else 'rich', 'wide', None, 'HTML5', [1, 2], False))
            blocks.append(('book', units, 'plain+cfgreuse', 'idtitle', None, 'HTML5', [1], False))
    chain = ('chapter', 'section', 'subsection', 'subsubsection', 'paragraph', 'subparagraph', 'subsubparagraph')
    for theme in THEMES:
        blocks.append(('book', chain, 'plain', 'default', None, theme, splits, False))
        blocks.append(('book', chain, 'bare', 'default', None, theme, splits, False))
    return blocks


def run(tier, seed, rep):
    state.pristine()
    quick = tier == 'quick'
    splits = list(range(-10, 7))
    blocks = []
    if quick:
        for units in shapes('book', 3):
            blocks.append(('book', units, 'plain', 'default', None, 'HTML5', splits, len(units) == 2))
        for units in shapes('article', 2):
            blocks.append(('article', units, 'rich', 'idtitle', None, 'XHTML', splits, False))
            blocks.append(('article', units, 'rich', 'default', ' ', 'HTML5min', [-10, 0, 1, 2, 3, 6], False))
        for units in shapes('book', 3):
            if len(units) >= 2 and units[-1] == units[-2]:
                blocks.append(('book', units, 'twins', 'default', None, 'HTML5', [-10, 0, 1, 2, 3, 6], False))
                blocks.append(('book', units, 'twins', 'default', None, 'XHTML', [0, 1, 2, 3], False))
        for units in shapes('book', 2):
            for t in ('num3', 'single', 'single_var', 'short_static', 'ext'):
                blocks.append(('book', units, 'rich', t, None, 'XHTML', [-10, 0, 1, 2, 6], False))
        blocks += extra_blocks(2)
    else:
        # every forest of <= 3 units x variants x templates x themes x every split level ...
        for cls in ('book', 'article'):
            for units in shapes(cls, 3):
                for variant in ('plain', 'rich', 'twins'):
                    if variant == 'twins' and not (len(units) >= 2 and units[-1] == units[-2]):
                        continue
                    for t in TEMPLATES:
                        for theme in THEMES:
                            if theme == 'Text' and (t not in ('default', 'idtitle') or variant == 'twins'):
                                continue        # (twins: the footnote oracle of that variant does not apply, see the open finding)
                            if len(units) == 3 and not (theme == 'XHTML' or (theme == 'HTML5' and t == 'default')):
                                continue        # 3-unit forests: XHTML for all templates, HTML5 for the default one
                            bads = [None, ' '] if (t in ('idtitle', 'default') and len(units) <= 2 and theme != 'Text') else [None]
                            for bad in bads:
                                blocks.append((cls, units, variant, t, bad, theme, splits,
                                               len(units) <= 2 and t == 'default' and theme == 'HTML5'))
        # ... and every forest of exactly 4 units in the plain variant under the default template
        for cls in ('book', 'article'):
            for units in shapes(cls, 4):
                if len(units) == 4:
                    blocks.append((cls, units, 'plain', 'default', None, 'XHTML', [-10, 0, 1, 2, 3, 6], False))
        blocks += extra_blocks(3)
    blocks = core.rotate(blocks, seed)
    core.merge_all(run_block, blocks, rep, chunksize=1)
    return {'exhaustive': True, 'bounds': {'units': 3 if quick else 4, 'split_levels': '-10..6', 'templates': list(TEMPLATES),
                                           'themes': list(THEMES), 'blocks': len(blocks)},
            'floors': {'evaluations': 2000 if quick else 20000}}
