"""
C14 -- Every internal link in the rendered output lands on an existing target.
Engine E1: sectioning forests with labels, cross references between all units, footnotes, index, bibliography; x split
level x toc settings x base-url x renderer/theme.  Oracle on the output files only (href / id inventory).
"""
import itertools, re
from html.parser import HTMLParser
from vp import core, state, render
from vp.checks import c13

ID = 'C14'
LEVEL = 'exploration'
RULE = ('documents = every sequence of <= n headings (book / article levels) where every unit carries a label and references to '
        'every other unit; variant "full" adds a labelled equation, a labelled enumerate item, a footnote, two index entries + '
        '\\printindex (variant "fullenv": a written-out theindex environment), two footnotes with the same text, a repeated forward '
        'reference and a two-entry bibliography with \\cite; x split-level {-10,0,1,2,3} x (toc-depth, toc-non-files) x base-url '
        '{empty, http://h/p/} x theme. Checked on the files: every internal href names a produced file and an existing id, ids '
        'are unique per file, every \\ref shows the number of its target, every file is reachable from index.html. '
        'Non-trivial: >= 2 files and >= 1 cross-file reference.')
ASSUMPTIONS = [
    'an href is internal when, after removing the configured base-url, it has no scheme and does not name a theme asset (.css, .js, image, font)',
    'expected numbers assume no counter manipulation (book/article formats as in C08)',
]


class Page(HTMLParser):
    def __init__(self):
        HTMLParser.__init__(self, convert_charrefs=True)
        self.ids = []
        self.links = []     # [href, text]
        self.base = None    # <base href=...>: relative and fragment-only links resolve against it
        self._open = []

    def handle_starttag(self, tag, attrs):
        a = dict(attrs)
        if 'id' in a:
            self.ids.append(a['id'])
        if 'name' in a and tag == 'a' and a.get('name') != a.get('id'):
            self.ids.append(a['name'])      # <a name=..> is a link target as well
        if tag == 'base' and a.get('href'):
            self.base = a['href']
        if 'href' in a and tag in ('a', 'link'):
            self.links.append([a['href'], '', tag, 'title=%s class=%s' % (a.get('title'), a.get('class'))])
            if tag == 'a':
                self._open.append(len(self.links) - 1)

    def handle_startendtag(self, tag, attrs):
        a = dict(attrs)
        if 'id' in a:
            self.ids.append(a['id'])
        if tag == 'base' and a.get('href'):
            self.base = a['href']
        if 'href' in a and tag in ('a', 'link'):
            self.links.append([a['href'], '', tag, 'title=%s class=%s' % (a.get('title'), a.get('class'))])

    def handle_endtag(self, tag):
        if tag == 'a' and self._open:
            self._open.pop()

    def handle_data(self, data):
        for i in self._open:
            self.links[i][1] += data


THEMES = {k: v for k, v in c13.THEMES.items() if k != 'Text'}       # the HTML renderers (links are an HTML matter)
UNITS = c13.CLASS_UNITS
LEVELS = c13.LEVELS
BASE = 'http://h/p/'


def numbers(cls, units):
    c = {'chapter': 0, 'section': 0, 'subsection': 0, 'subsubsection': 0}
    out = []
    order = ['chapter', 'section', 'subsection', 'subsubsection']
    for u in units:
        c[u] += 1
        for v in order[order.index(u) + 1:]:
            c[v] = 0
        if cls == 'book':
            parts = [c['chapter'], c['section'], c['subsection'], c['subsubsection']][:order.index(u) + 1]
        else:
            parts = [c['section'], c['subsection'], c['subsubsection']][:order.index(u)]
        # units below the numbering depth (default sec-num-depth = 2) print no number
        out.append('.'.join(str(p) for p in parts) if LEVELS[u] <= 2 else None)
    return out


def document(cls, units, variant, numdepth=3):
    k = len(units)
    parts = []
    labels = ['lb%d' % i for i in range(k)]
    if variant in ('full', 'fullenv') and k >= 2:
        labels[-1] = 'index'        # a file-producing unit whose label spells the static file name of the template
    full = variant in ('full', 'fullenv')
    pre = 'bqaaz ' + ' '.join('\\ref{%s}' % l for l in labels[:2])
    if k:
        pre += ' \\ref{%s}' % labels[0]        # a second forward reference to the same label
    if full:
        pre += ' \\cite{ka}'
    parts.append(pre + '\n\n')
    for i, u in enumerate(units):
        s = '\\%s{tq%sz}\\label{%s} bq%sz ' % (u, chr(97 + i), labels[i], chr(98 + i))
        others = [l for j, l in enumerate(labels) if j != i][:2]
        s += ' '.join('\\ref{%s}' % l for l in others)
        if full:
            if i == 0:
                s += ' w\\footnote{fqsz} x\\footnote{fqaz} \\begin{equation}a\\label{le0}\\end{equation}\\index{alpha}\\index{beta!sub} \\ref{li1}'
            if i == min(1, k - 1):
                s += ' \\begin{enumerate}\\item x\\item\\label{li1} y\\end{enumerate} \\ref{le0}\\pageref{lb0}\\index{alpha}'
            if i == k - 1:
                s += '\n\n\\index{gamma}\\index{alpha}\n\n'       # index entries that form a paragraph of their own
                # a label spelled like a generated identifier; link targets inside an argument of a childless element
                s += ' \\begin{enumerate}\\item\\label{a2} p\\item\\label{a3} q\\item\\label{a5} r\\item\\label{a8} s\\item\\label{a13} t\\end{enumerate} \\ref{a2} \\ref{a5} \\ref{lt1}'
                s += ' \\begin{description}\\item[T\\index{delta}]\\item[\\label{lt1}U] u\\end{description} m\\marginpar{n\\index{eps}}'
                # initials that transliterate to two letters, next to entries of the same letter group
                s += ' \\index{\\AE ther}\\index{abacus}\\index{afar}\\index{\\OE uvre}\\index{omega}\\index{3D}'
                s += ' z\\footnote{fqbz} v\\footnote{fqsz}\\index{\\_ua}\\index{\\_ub} \\begin{equation}c\\label{le9}\\end{equation}\\ref{le9}'
        parts.append(s + '\n\n')
    tail = ''
    if full:
        tail = '\\begin{thebibliography}{9}\\bibitem{ka} A\\bibitem{kb} B\\end{thebibliography}'
        # the index either generated from the entries or written out as an environment (the contents of an .ind file)
        tail += '\\printindex' if variant == 'full' else '\\begin{theindex}\\item alpha, 1\\item beta, 2\\end{theindex}'
    pream = '\\usepackage{makeidx}\\makeindex' if full else ''
    return '\\documentclass{%s}%s\\begin{document}\\tableofcontents %s%s\\end{document}' % (cls, pream, ''.join(parts), tail)


def analyse(files, base, cls, units, variant, src, has_toc=True):
    problems = []
    pages = {}
    for fn, text in files.items():
        p = Page()
        try:
            p.feed(text)
            p.close()
        except Exception as e:
            problems.append('%s does not parse as HTML: %s' % (fn, e))
        pages[fn] = p
    graph = {}
    ref_anchor = {}      # target label -> list of anchor texts
    for fn, p in pages.items():
        dup = sorted(set(i for i in p.ids if p.ids.count(i) > 1))
        if dup:
            problems.append('%s: duplicate ids %s' % (fn, dup))
        for href, text, tag, deco in p.links:
            h = href
            if p.base and not re.match(r'^[a-z]+://', h):
                # the page declares a base URL: a link without scheme -- also a bare #fragment -- is resolved against it
                from urllib.parse import urljoin
                h = urljoin(p.base, h)
                if h.split('#')[0].endswith('/'):
                    h = h.replace('#', 'index.html#', 1) if '#' in h else h + 'index.html'
            if base and h.startswith(base):
                h = h[len(base):]
            elif base and h.startswith(base.rstrip('/')):
                h = h[len(base.rstrip('/')):].lstrip('/')
            elif re.match(r'^[a-z]+://', h):
                continue
            path, _, frag = h.partition('#')
            if path and re.search(r'\.(css|js|png|svg|gif|jpe?g|ico|woff2?)$', path):
                continue        # assets of the theme; any other relative (or base-url) path must be a produced file
            target = path or fn
            if target not in files:
                problems.append('%s: href %r names a file that was not produced' % (fn, href))
                continue
            graph.setdefault(fn, set()).add(target)
            if frag and frag not in pages[target].ids:
                problems.append('%s: href %r (%s) has no element with id %r in %s' % (fn, href, deco, frag, target))
            lab = frag or path[:-5]
            if tag == 'a':
                ref_anchor.setdefault(lab, []).append(text.strip())
    # numbers shown by references
    nums = numbers(cls, units)
    want = {}
    for mm in re.finditer(r'\\ref\{(lb\d+)\}', src):
        want[mm.group(1)] = want.get(mm.group(1), 0) + 1
    for lab, n in want.items():
        i = int(lab[2:])
        if i >= len(units):
            continue
        exp = nums[i]
        if exp is None:
            continue
        have = sum(1 for t in ref_anchor.get(lab, []) if t == exp)
        if have < n:
            problems.append('%d reference(s) to %s should show %r; anchors to it show %s' % (
                n, lab, exp, sorted(set(ref_anchor.get(lab, [])))[:6]))
    # reachability from the start page
    start = 'index.html' if 'index.html' in files else sorted(files)[0]
    seen = {start}
    todo = [start]
    while todo:
        f = todo.pop()
        for g in graph.get(f, ()):
            if g not in seen:
                seen.add(g)
                todo.append(g)
    if has_toc and set(files) - seen:
        problems.append('files not reachable from %s: %s' % (start, sorted(set(files) - seen)))
    return problems


def judge(case):
    cls, units, variant = case['cls'], tuple(case['units']), case['variant']
    rname, th = THEMES[case['theme']]
    src = document(cls, units, variant)
    cfg = {('files', 'split-level'): case['split'], ('general', 'theme'): th,
           ('document', 'toc-depth'): case['tocdepth'], ('document', 'toc-non-files'): case['tocnonfiles'],
           ('document', 'base-url'): case['base']}
    out = render.render(src, rname, cfg)
    if out['error']:
        return 'violation', [out['error']], src, 0
    judge.last_links = sum(t.count('href=') for t in out['files'].values())
    # the minimal theme has no navigation / contents list at all, so the reachability clause does not apply to it
    has_toc = case['theme'] != 'HTML5min' and case['tocdepth'] > 0
    problems = analyse(out['files'], case['base'], cls, units, variant, src, has_toc)
    return ('violation' if problems else 'ok'), problems, src, len(out['files'])


# named deviations: a problem line is explained by a finding when it matches its pattern; a case is KNOWN only if every
# problem line is explained (anything else stays a violation)
FINDINGS = [
    # navigation link to the index (\\printindex) when the index does not get a file of its own: file#generated-id, but no
    # element carries that id
    ('C14.INDEX_NAV_LINK_NO_ANCHOR',
     r"href '[^']*#a\d{10}' \((title=Index class=None|title=None class=index)\) has no element with id"),
]


def classify(problems):
    fids = set()
    for p in problems:
        hit = None
        for fid, rx in FINDINGS:
            if re.search(rx, p):
                hit = fid
                break
        if hit is None:
            return None
        fids.add(hit)
    return sorted(fids)


def run_block(block):
    cls, units, variant, theme, configs = block
    rep = core.Report()
    for split, tocdepth, tocnf, base in configs:
        case = {'cls': cls, 'units': list(units), 'variant': variant, 'theme': theme, 'split': split,
                'tocdepth': tocdepth, 'tocnonfiles': tocnf, 'base': base}
        v, problems, src, nfiles = judge(case)
        rep.case(key=repr(sorted(case.items())), nontrivial=nfiles >= 2 and len(units) >= 2,
                 outcome=(nfiles, getattr(judge, 'last_links', 0), tuple(problems[:2])))
        rep.count('theme_' + theme)
        if v == 'ok':
            if nfiles >= 3:
                rep.sample({'config': {k: case[k] for k in ('split', 'tocdepth', 'tocnonfiles', 'base', 'theme')}, 'source': src})
            continue
        fids = classify(problems)
        if fids:
            for f in fids:
                rep.known_finding(f, case, '; '.join(problems[:3]))
        else:
            rep.violation(case, 'every internal link has a target', '; '.join(problems[:4]), src)
    return rep.close_block()


def replay(case):
    v, problems, src, nfiles = judge(case)
    if v == 'ok':
        return {'verdict': 'ok', 'expected': None, 'observed': None, 'detail': src}
    fids = classify(problems)
    if fids:
        f = core.Findings()
        if all(f.is_open(x) for x in fids):
            return {'verdict': 'known', 'fid': fids[0], 'expected': None, 'observed': problems[:4], 'detail': src}
    return {'verdict': 'violation', 'expected': 'every internal link has a target', 'observed': problems[:6], 'detail': src}


def run(tier, seed, rep):
    state.pristine()
    quick = tier == 'quick'
    splits = [-10, 0, 1, 2, 3]
    tocs = [(3, False), (1, True), (0, False)] if quick else [(3, False), (3, True), (1, False), (1, True), (0, False)]
    bases = ['', BASE]
    cfg_all = [(s, d, nf, b) for s in splits for (d, nf) in tocs for b in bases]
    cfg_small = [(s, 3, False, '') for s in splits] + [(1, 1, True, BASE)]
    blocks = []
    if quick:
        for units in c13.shapes('book', 2):
            if not units:
                continue
            blocks.append(('book', units, 'refs', 'HTML5', cfg_all))
            blocks.append(('book', units, 'refs', 'XHTML', cfg_all))
            blocks.append(('book', units, 'full', 'XHTML', cfg_small))
            blocks.append(('book', units, 'full', 'HTML5', cfg_small))
        for units in c13.shapes('article', 2):
            if units:
                blocks.append(('article', units, 'full', 'HTML5min', cfg_small))
        for units in c13.shapes('book', 1) + [('chapter', 'section')]:
            if units:
                for theme in THEMES:
                    blocks.append(('book', units, 'fullenv', theme, cfg_small))
        for units in (('chapter', 'section', 'subsection'), ('section', 'subsection', 'subsubsection'),
                      ('chapter', 'subsection', 'subsubsection')):
            blocks.append(('book', units, 'full', 'HTML5', cfg_small))
            blocks.append(('book', units, 'full', 'XHTML', cfg_small))
    else:
        for cls in ('book', 'article'):
            for units in c13.shapes(cls, 3):
                if not units:
                    continue
                for variant in ('refs', 'full', 'fullenv'):
                    for theme in THEMES:
                        if variant == 'fullenv' and len(units) == 3:
                            continue
                        blocks.append((cls, units, variant, theme, cfg_all if len(units) <= 2 else cfg_small))
    blocks = core.rotate(blocks, seed)
    core.merge_all(run_block, blocks, rep, chunksize=1)
    return {'exhaustive': True, 'bounds': {'units': 2 if quick else 3, 'splits': splits, 'toc': tocs, 'base_urls': bases,
                                           'themes': list(THEMES), 'blocks': len(blocks)},
            'floors': {'evaluations': 800}}
