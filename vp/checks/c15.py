"""
C15 -- The filename generator yields unique, clean names in template order.

Engine E2: breadth-first search over request histories of plasTeX.Filenames.Filenames, one search per
configuration (template AST x forbidden-character set x reserved-name set).  A state is the history that
reaches it; every history is replayed on a FRESH Filenames object and compared, request by request, with the
statement-derived reference model (vp/refs/c15_filenames_model.py).  States are merged on the canonical key
(reference-model states, full dump of the implementation: issued/reserved dict, `variables`, and the
suspended generator's locals g / num / position).
"""
import itertools, contextlib, signal
from vp import core
from vp.refs import c15_filenames_model as M

ID = 'C15'
LEVEL = 'model_checking'
RULE = ('per configuration (template AST from the documented grammar: 0-3 static names, optional wildcard with 1-4 '
        'alternatives over $id/$title/$title(2)/sect$num/sect$num(3)/$id-$num/${jobname}_$id, optional text around the '
        'brackets, x forbidden-character set x reserved-name set) a breadth-first search over ALL request histories up '
        'to the depth bound (quick 6, thorough 12; 5 / 6 for the five templates with an $id-$num alternative); an '
        'event = one request binding id and title (each possibly unbound; values chosen to repeat, collide, contain '
        'forbidden characters, several words, no word, a period); every history is replayed on a fresh Filenames object '
        'in lock-step with the reference model; states merged on (model states, implementation dump).  A case = one '
        'history; it is non-trivial when its last request got past the literal static names (a variable or $num '
        'candidate was considered); distinct = distinct (configuration, spelling, history); outcomes = distinct observed '
        'result sequences.  Plus every template in the two other spellings to depth 3, a family of long constant '
        'histories (120 requests) for the give-up bound, and the values family: 14 templates with widths 1..3 on '
        '$title/$id/$jobname x 5 forbidden-character settings (replace by -, delete, replace by __, only blank, none) x '
        '2 reserved sets, every history of length <= 3 (thorough 4) over values with doubled/leading/trailing blanks, '
        'tab, newline, forbidden characters, / and period.')
ASSUMPTIONS = [
    'oracle is a hand-written model of the property statement (vp/refs/c15_filenames_model.py)',
    'requests bind variables the way the renderer does: assign into Filenames.variables, then call the object',
    'static names of the explored templates are literals, ${jobname} (initial namespace) or $num names; static '
    'templates over per-request variables are outside the alphabet (the statement does not define them)',
    'variable values are str; an alternative mentions each variable at most once; widths are >= 1',
    'a static name whose variables are not all bound at the request that reaches it is skipped and not retried (the '
    'statement is silent; the docstring says each name of the list is returned once) -- one template of the values family',
    'a caller-supplied variable named `num` is explored only in the initial namespace of a template whose alternatives '
    'are all numbered; binding `num` per request is outside the alphabet (it makes un-numbered candidates advance $num)',
    'the replacement string contains no forbidden character (the real code replaces character by character in sequence)',
    'the generator-local pass counter is not part of the merge key: within the depth bound it stays below 60 '
    '(asserted), so the give-up test `passes > 100` cannot depend on it; the long-history family covers that counter',
    'the long-history family (120 requests) goes beyond the length-12 quantifier of the property on purpose',
]

DEFAULT_BAD = ': #$%^&*!~`"\'=?/{}[]()|<>;\\,.'       # plasTeX.Config files/bad-chars default (own copy)
CHARSUBS = {'default': (DEFAULT_BAD, '-'), 'none': None, 'blank': (' ', '-'),
            # forbidden characters deleted (empty replacement) / replaced by several characters
            'delete': (DEFAULT_BAD, ''), 'multi': (': /.', '__')}
CHARSUB_AS_TUPLE = ('delete', 'multi')      # the renderer passes a tuple, older callers a list
RESERVED = {'none': [], 'some': ['index.html', 'a.html', 'sect2.html', 'sect002.html', 'b-3.html']}
INIT = {'jobname': 'job'}
EXT = '.html'

ID_VALUES = [None, 'a', 'b', 'a b:c', 'a.b', 'x/y']
TITLE_VALUES = [None, 'T', 'T U V', 'a', '', 'T  U\tW']      # the last one: same first two words as 'T U V'
ID_IRRELEVANT = [None, 'a']
TITLE_IRRELEVANT = [None, 'T']


def lit(s):
    return ('lit', s)


def var(n, w=None):
    return ('var', n, w)


A_ID = (var('id'),)
A_TITLE = (var('title'),)
A_TITLE2 = (var('title', 2),)
A_SECT = (lit('sect'), var('num'))
A_SECT3 = (lit('sect'), var('num', 3))
A_IDNUM = (var('id'), lit('-'), var('num'))
A_JOBID = (var('jobname'), lit('_'), var('id'))
S_INDEX = (lit('index'),)
S_INDEXH = (lit('index.html'),)
S_TOC = (lit('toc'),)
S_ABOUT = (lit('about'),)
S_JOB = (var('jobname'),)
S_TOCNUM = (lit('toc'), var('num'))


def T(static, alts, pre=(), post=()):
    return {'static': [list(map(list, s)) for s in static], 'alts': [list(map(list, a)) for a in alts],
            'pre': list(map(list, pre)), 'post': list(map(list, post))}


TEMPLATES = [
    # no wildcard
    T([], []),
    T([S_INDEX], []),
    T([S_INDEX, S_TOC, S_ABOUT], []),
    # one alternative
    T([], [A_ID]),
    T([], [A_SECT]),
    T([S_INDEX], [A_TITLE]),
    T([], [A_TITLE2]),
    T([S_INDEX], [A_SECT3]),
    T([S_INDEX, S_TOC], [A_IDNUM]),
    # two alternatives
    T([S_INDEX], [A_ID, A_SECT]),
    T([], [A_TITLE, A_SECT]),
    T([], [A_ID, A_TITLE]),
    T([S_INDEX], [A_TITLE2, A_SECT]),
    T([], [A_ID, A_SECT3]),
    T([], [A_IDNUM, A_SECT]),
    T([S_JOB], [A_JOBID, A_SECT]),
    T([], [A_SECT, A_ID]),
    T([S_INDEXH, S_TOC, S_ABOUT], [A_ID, A_SECT]),
    T([S_TOCNUM], [A_ID, A_SECT]),
    T([S_INDEX, S_TOCNUM], [A_TITLE, A_SECT3]),
    # three alternatives
    T([], [A_ID, A_TITLE, A_SECT]),
    T([S_INDEX], [A_TITLE, A_ID, A_SECT]),
    T([], [A_ID, A_TITLE2, A_SECT3]),
    T([], [A_JOBID, A_TITLE, A_SECT]),
    T([S_INDEX], [A_IDNUM, A_ID, A_SECT]),
    T([], [A_ID, A_TITLE, A_TITLE2]),
    T([], [A_TITLE2, A_TITLE, A_SECT]),
    # four alternatives
    T([S_INDEX], [A_ID, A_TITLE, A_TITLE2, A_SECT]),
    T([], [A_TITLE, A_ID, A_IDNUM, A_SECT3]),
    T([], [A_JOBID, A_TITLE2, A_IDNUM, A_SECT]),
    T([S_INDEX, S_TOC], [A_TITLE2, A_JOBID, A_ID, A_SECT3]),
    # text around the brackets, explicit extension
    T([], [A_ID, A_SECT], pre=(var('jobname'), lit('-'))),
    T([S_INDEX], [A_ID, A_SECT3], post=(lit('.xml'),)),
    T([], [A_ID, A_SECT], pre=(lit('p'),), post=(lit('s'),)),
    T([S_INDEXH], [A_TITLE2, A_ID, A_SECT], pre=(lit('n-'),), post=(lit('.htm'),)),
    T([], [A_TITLE, A_SECT], post=(lit('.d'),)),
    T([S_INDEX], [A_SECT], pre=(var('jobname'), lit('.')),),
    T([S_JOB, S_TOC], [A_TITLE, A_SECT], post=(lit('-x'),)),
    T([], [A_ID, A_TITLE2, A_SECT], pre=(lit('.'),)),
    T([S_ABOUT], [A_TITLE, A_SECT], pre=(var('jobname'), lit('_'))),
    # static names that a later candidate spells again
    T([(lit('a'),)], [A_ID, A_SECT]),
    T([(lit('sect1'),), S_TOC], [A_SECT]),
]

QUICK_COMBOS = [(cs, rs) for cs in ('default', 'none', 'blank', 'delete', 'multi') for rs in ('none', 'some')]
THOROUGH_COMBOS = QUICK_COMBOS

# ---- the "values" family: irregular white space, forbidden characters, '/' and '.' in variable values, widths 1..3
VALUES = ['Two  blanks between words', 'Two blanks\tx', ' leading blank here', 'trailing blank ', 'tab\tsep words',
          'Broken over\ntwo source lines', 'A: b/c', 'x.y/z w', 'one']
VALUES_ID2 = [None, 'A: b/c', 'x.y/z w', ' lead  blank']
VALUES_TITLE2 = [None, 'Two  blanks between words', 'Two blanks\tx', 'Broken over\ntwo source lines']
VALUE_INIT = {'jobname': 'my  job/v.1 x'}
VALUE_RESERVED = {'none': [], 'vres': ['Two-blanks.html', 'Twoblanks.html', 'Two blanks.html', 'Two__blanks.html',
                                       'A.html', 'one.html']}
VALUE_TEMPLATES = (
    [T([], [(var('title', w),), A_SECT]) for w in (1, 2, 3)] +
    [T([], [(var('id', w),), A_SECT]) for w in (1, 2, 3)] +
    [T([], [A_TITLE, A_SECT]),
     T([], [A_ID, A_SECT]),
     T([], [(var('title', 2), lit('.'), var('id', 1)), A_SECT3]),
     T([(var('jobname', 1),), S_TOC], [(var('title', 3),), A_SECT]),
     T([(var('jobname', 2),), (var('jobname'),)], [(var('id', 2),)], post=(lit('.htm'),)),
     T([(var('id', 2),), S_TOC], [(var('title', 1),), A_SECT]),
     T([], [(var('id', 3), lit('/'), var('title', 2)), (var('id', 1),)]),
     # last one: run with a caller-supplied variable called `num` in the initial namespace (VALUE_INIT_NUM); every
     # alternative is numbered, so "$num is the generator's number" is the only reading of the statement
     T([], [(var('title', 1), lit('-'), var('num')), A_SECT])])
VALUE_INIT_NUM = {'jobname': 'job', 'num': '7'}
VALUE_DEPTH = {'quick': 3, 'thorough': 4}

LONG_TEMPLATES = [T([], [A_SECT]), T([S_INDEX], [A_ID, (lit('sect'), var('num', 4))])]
LONG_RESERVED = {'none': [], 'hit': ['sect105.html', 'sect0105.html'],
                 # 58 taken numbers in a row: one request needs 59 passes, still below the give-up bound
                 'run': ['sect%d.html' % i for i in range(3, 61)] + ['sect%04d.html' % i for i in range(3, 61)]}
LONG_EVENTS = [[None, None], ['a', None]]
LONG_LEN = 120
SPELLING_DEPTH = 3
MEMO_MAX = 400000
SHALLOW_DEPTH = {'quick': 5, 'thorough': 6}
STATE_CAP = 150000          # per configuration; a guard, not reached with the bounds above


# ---------------------------------------------------------------------------------------------------
# printing a template AST (the seed only changes the spelling)
# ---------------------------------------------------------------------------------------------------
def _wordchar(c):
    return c.isalnum() or c == '_'


def print_item(item, nxt, sp):
    out = []
    for i, p in enumerate(item):
        if p[0] == 'lit':
            out.append(p[1])
            continue
        name, width = p[1], p[2]
        if i + 1 < len(item):
            follow = item[i + 1][1][:1] if item[i + 1][0] == 'lit' else '$'
        else:
            follow = nxt
        if sp == 0 and not (follow and _wordchar(follow)) and not (width is None and follow == '('):
            s = '$' + name
        elif sp == 2:
            s = '${ %s }' % name
        else:
            s = '${%s}' % name
        if width is not None:
            s += ('( %d )' if sp == 1 else '(%d)') % width
        out.append(s)
    return ''.join(out)


def print_template(t, sp):
    names = [print_item(s, ' ', sp) for s in t['static']]
    alts, pre, post = t['alts'], t['pre'], t['post']
    if alts:
        if sp == 2 and len(alts) == 1:
            names.append(print_item(pre + alts[0] + post, ' ', sp))      # a last plain name is the wildcard
        else:
            sep = [', ', ',', ' , '][sp]
            opn, cls = [('[', ']'), ('[ ', ' ]'), ('[', ' ]')][sp]
            body = sep.join(print_item(a, ',', sp) for a in alts)
            names.append(print_item(pre, '[', sp) + opn + body + cls + print_item(post, ' ', sp))
    return ['%s', ' %s ', '%s'][sp] % [' ', '  ', '\t'][sp].join(names)


def tup(item):
    return tuple(tuple(p) for p in item)


def model_config(t, charsub, reserved, init=None):
    cs = CHARSUBS[charsub]
    alts = [tup(t['pre'] + a + t['post']) for a in t['alts']]
    return M.Config([tup(s) for s in t['static']], alts, init or INIT, cs[0] if cs else '', cs[1] if cs else '',
                    EXT, reserved)


def mentioned(t):
    out = set()
    for item in t['static'] + [t['pre'] + a + t['post'] for a in t['alts']]:
        out.update(M.variables_of(tup(item)))
    return out


def events_for(t, tier, charsub='blank'):
    m = mentioned(t)
    ids = ID_VALUES
    if 'id' not in m:
        ids = ID_IRRELEVANT
    titles = TITLE_VALUES if 'title' in m else TITLE_IRRELEVANT
    return [[i, ti] for i in ids for ti in titles]


def bindings(ev):
    b = {}
    if ev[0] is not None:
        b['id'] = ev[0]
    if ev[1] is not None:
        b['title'] = ev[1]
    return b


# ---------------------------------------------------------------------------------------------------
# the real object
# ---------------------------------------------------------------------------------------------------
FINISHED = ('finished',)


def impl_dump(fn):
    """Everything a later request can read, except the pass counter (see ASSUMPTIONS)."""
    gen = fn.newFilename
    fr = gen.gi_frame
    if fr is None:
        # a finished generator reads nothing any more: __next__ finds it exhausted and returns None
        return FINISHED, 0
    else:
        loc = fr.f_locals
        if 'num' not in loc:
            g = 'unstarted'
            passes = 0
        else:
            passes = loc.get('passes', 0)
            if 'passes' in loc:
                pos = 'wild'
            else:
                st = loc['static']
                pos = st.index(loc['item']) if loc.get('item') in st else -1
            g = (pos, loc['num'], tuple(sorted(loc['g'].items())), tuple(loc['static']),
                 tuple(loc['wildcard']))
    return (g, tuple(sorted(fn.variables.items())), tuple(sorted(fn.invalid)), tuple(map(repr, fn.files))), passes


class _CpuTimeout(Exception):
    pass


_NTIMEOUTS = [0]


def _vtalarm(signum, frame):
    _NTIMEOUTS[0] += 1
    raise _CpuTimeout()


@contextlib.contextmanager
def cpu_limit(seconds):
    """Like core.time_limit but counts the CPU time of this process, so a loaded machine cannot fake a hang."""
    old = signal.signal(signal.SIGVTALRM, _vtalarm)
    # once a process has met several requests that never return, the remaining ones get a short limit: every one of
    # them is reported anyway, and a tree that hangs on most requests must not cost hours
    signal.setitimer(signal.ITIMER_VIRTUAL, seconds if _NTIMEOUTS[0] < 5 else min(seconds, 0.1))
    try:
        yield
    finally:
        signal.setitimer(signal.ITIMER_VIRTUAL, 0)
        signal.signal(signal.SIGVTALRM, old)


@contextlib.contextmanager
def _armed_cpu_limit(seconds):
    """cpu_limit for callers that already installed the SIGVTALRM handler and an outer core.time_limit
    (the search loop): two system calls per case instead of eight."""
    signal.setitimer(signal.ITIMER_VIRTUAL, seconds if _NTIMEOUTS[0] < 5 else min(seconds, 0.1))
    try:
        yield
    finally:
        signal.setitimer(signal.ITIMER_VIRTUAL, 0)


@contextlib.contextmanager
def _both_limits(seconds):
    with core.time_limit(120.0), cpu_limit(seconds):
        yield


def replay_impl(t, charsub, reserved, history, sp, limit=1.5, spec=None, armed=False, init=None):
    """Replay a history on a fresh object.  -> (results, dump, passes, invariant error or None)"""
    from plasTeX.Filenames import Filenames
    if spec is None:
        spec = print_template(t, sp)
    guard = _armed_cpu_limit if armed else _both_limits
    cs = CHARSUBS[charsub]
    inv = dict((n, None) for n in reserved) or None
    results = []
    bad = None
    seen = set()
    try:
        with guard(limit):
            arg = None if not cs else (tuple(cs) if charsub in CHARSUB_AS_TUPLE else list(cs))
            fn = Filenames(spec, arg, dict(init or INIT), EXT, inv)
            for ev in history:
                for k, v in bindings(ev).items():
                    fn.variables[k] = v
                try:
                    r = fn()
                except (core.Timeout, _CpuTimeout):
                    raise
                except Exception as e:
                    r = type(e).__name__
                else:
                    if isinstance(r, str):
                        if r in seen:
                            bad = 'name %r issued twice' % r
                        if r in reserved:
                            bad = 'reserved name %r issued' % r
                        seen.add(r)
                    elif r is not None:
                        r = repr(r)
                results.append(r)
            dump, passes = impl_dump(fn)
    except (core.Timeout, _CpuTimeout):
        if limit < 8.0 and _NTIMEOUTS[0] < 5:
            # confirm with a generous limit before calling it non-termination
            return replay_impl(t, charsub, reserved, history, sp, limit=8.0, spec=spec, armed=armed,
                               init=init)
        results.append('timeout')
        return results, ('timeout',), 0, 'request %d did not terminate within %.1f s of CPU time' % (len(results), limit)
    return results, dump, passes, bad


# ---------------------------------------------------------------------------------------------------
# judging
# ---------------------------------------------------------------------------------------------------
def dev_sets(t, charsub, long_family=False):
    """Deviation sets that can apply to this configuration (subsets of the applicable switches)."""
    bits = [M.DEV_A, M.DEV_B, M.DEV_N]
    widths = any(p[0] == 'var' and p[1] != 'num' and p[2] for a in t['alts'] + t['static'] for p in a)
    if widths:
        bits.append(M.DEV_E)
        cs = CHARSUBS[charsub]
        if cs and ' ' in cs[0]:
            bits.append(M.DEV_W)
    if long_family:
        bits.append(M.DEV_P)
    out = []
    for k in range(len(bits) + 1):
        for sub in itertools.combinations(bits, k):
            d = 0
            for b in sub:
                d |= b
            out.append(d)
    return out          # ordered by size, then by switch order: the first survivor is a minimal explanation


def popcount(d):
    return bin(d).count('1')


def fids_of(d):
    return [M.DEV_NAMES[b] for b in sorted(M.DEV_NAMES) if d & b]


_OPEN = None


def open_bits():
    """Bit set of the deviation switches listed as open findings (read-only file)."""
    global _OPEN
    if _OPEN is None:
        f = core.Findings()
        _OPEN = 0
        for b, fid in M.DEV_NAMES.items():
            if f.is_open(fid):
                _OPEN |= b
    return _OPEN


def pick(survivors):
    """survivors: deviation sets (ordered by size) whose prediction equals the complete observation.
    The explanation reported is a smallest one; among the smallest, one that uses only open findings is
    preferred (two switches can predict the same results on one history)."""
    if not survivors:
        return None
    d0 = survivors[0]
    if d0 == 0:
        return 0
    ob = open_bits()
    n = popcount(d0)
    for d in survivors:
        if popcount(d) != n:
            break
        if d & ~ob == 0:
            return d
    return d0


def judge_history(t, charsub, reserved, history, sp, long_family=False, init=None):
    """Whole-history verdict, everything rebuilt from the arguments (used by replay)."""
    cfg = model_config(t, charsub, reserved, init)
    obs, dump, passes, bad = replay_impl(t, charsub, reserved, history, sp, init=init)
    exp = M.run(cfg, 0, [bindings(e) for e in history])
    spec = print_template(t, sp)
    if bad:
        return 'violation', [], exp, obs, '%s (template %r)' % (bad, spec)
    if obs == exp:
        return 'ok', [], exp, obs, ''
    hb = [bindings(e) for e in history]
    d = pick([d for d in dev_sets(t, charsub, long_family) if d and M.run(cfg, d, hb) == obs])
    if d:
        return 'known', fids_of(d), exp, obs, 'template %r: results equal the model with %s' % (spec, '+'.join(fids_of(d)))
    n = 0
    while n < len(exp) and n < len(obs) and exp[n] == obs[n]:
        n += 1
    return 'violation', [], exp, obs, 'template %r: request %d differs from the statement-derived model and from every ' \
        'named deviation' % (spec, n + 1)


def replay(case):
    t = case['template']
    v, fids, exp, obs, detail = judge_history(t, case['charsub'], case['reserved'], case['history'],
                                              case.get('spelling', 0), case.get('long', False), case.get('init'))
    if v == 'known':
        f = core.Findings()
        notopen = [x for x in fids if not f.is_open(x)]
        if notopen:
            return {'verdict': 'violation', 'expected': exp, 'observed': obs, 'fid': notopen[0], 'fids': fids,
                    'detail': detail + '; not listed as open: %s' % notopen}
        return {'verdict': 'known', 'fid': fids[0], 'fids': fids, 'expected': exp, 'observed': obs, 'detail': detail}
    return {'verdict': v, 'expected': exp, 'observed': obs, 'detail': detail}


def make_case(block, history):
    c = {'template': block['template'], 'charsub': block['charsub'], 'reserved': block['reserved'],
         'history': [list(e) for e in history], 'spelling': block['spelling']}
    if block.get('long'):
        c['long'] = True
    if block.get('init'):
        c['init'] = block['init']
    return c


def past_static(cfg, strict_before):
    """Non-trivial: the request reaches a candidate that carries a variable or $num."""
    spos = strict_before[0]
    rest = cfg.static[spos:]
    if not rest:
        return True
    return any(p[0] == 'var' for p in rest[0])


# ---------------------------------------------------------------------------------------------------
# one block = one configuration, searched breadth-first to the depth bound
# ---------------------------------------------------------------------------------------------------
def run_block(block):
    import time, gc
    cpu0 = time.process_time()
    gc.disable()        # the search creates no reference cycles; a full collection over 10^5 states would
    old = signal.signal(signal.SIGVTALRM, _vtalarm)
    try:                # look like a hanging request to the CPU-time alarm
        rep = _search(block)
    finally:
        signal.setitimer(signal.ITIMER_VIRTUAL, 0)
        signal.signal(signal.SIGVTALRM, old)
        gc.enable()
    # CPU time is recorded as evidence only (the machine may be shared); it never steers the exploration
    rep.count('cpu_ms', int((time.process_time() - cpu0) * 1000))
    return rep


def _search(block):
    rep = core.Report()
    t, charsub, reserved, sp = block['template'], block['charsub'], block['reserved'], block['spelling']
    depth = block['depth']
    init = block.get('init')
    cfg = model_config(t, charsub, reserved, init)
    long_family = bool(block.get('long'))
    # candidate explanations carried through the search: the strict model and the sets of OPEN deviations.
    # (A deviation that is not listed as open is a violation whether or not it explains the results; replay()
    # still names it in the detail text.)
    ob = open_bits()
    order = [d for d in dev_sets(t, charsub, long_family) if d & ~ob == 0]
    events = [tuple(e) for e in block['events']]
    ev_b = [bindings(e) for e in events]
    cfgid = (block['tindex'], charsub, tuple(reserved), long_family, sp, depth, block.get('family'))
    root_models = tuple((d, M.initial_state(cfg)) for d in order)
    spec = print_template(t, sp)
    memo = {}
    intern = {}
    cfgh = hash(cfgid)
    frontier = [((), root_models, ())]
    seen = set()
    rep.states += 1
    timeouts = 0
    for level in range(depth):
        nxt = []
        for hist, models, obs_before in frontier:
            # wall-clock guard around the <= 25 cases of one expansion; each case has its own CPU-time limit
            with core.time_limit(600.0):
                for ei in range(len(events)):
                    ev = events[ei]
                    h2 = hist + (ev,)
                    obs, dump, passes, bad = replay_impl(t, charsub, reserved, h2, sp, spec=spec, armed=True,
                                                             init=init)
                    rep.traces += 1
                    rep.transitions += 1
                    strict_before = models[0][1] if models and models[0][0] == 0 else None
                    nontrivial = True if strict_before is None else past_static(cfg, strict_before)
                    rep.case(key=hash((cfgh, h2)), nontrivial=nontrivial, outcome=hash((cfgh, tuple(obs))))
                    if not bad and tuple(obs[:-1]) != obs_before:
                        rep.violation(make_case(block, h2), list(obs_before), obs[:-1],
                                      'replaying the same prefix on a fresh object gave different results')
                        continue
                    if bad:
                        exp = M.run(cfg, 0, [bindings(e) for e in h2])
                        rep.violation(make_case(block, h2), exp, obs, bad)
                        if obs[-1] == 'timeout':
                            timeouts += 1
                            if timeouts >= 3:
                                rep.count('block_aborted_after_timeouts')
                                return rep.close_block()
                        continue
                    if not long_family and passes >= 60:
                        rep.error('pass counter reached %d inside the depth bound: %r' % (passes, make_case(block, h2)))
                    last = obs[-1]
                    new_models = []
                    b = ev_b[ei]
                    for d, st in models:
                        mk = (d, st, ei)
                        rs = memo.get(mk)
                        if rs is None:
                            r, st2 = M.request(cfg, d, st, b)
                            if len(memo) > MEMO_MAX:
                                memo.clear()
                            rs = memo[mk] = (r, intern.setdefault(st2, st2))    # equal states share one object
                        r, st2 = rs
                        if r == last:
                            new_models.append((d, st2))
                    if not new_models:
                        exp = M.run(cfg, 0, [bindings(e) for e in h2])
                        rep.violation(make_case(block, h2), exp, obs,
                                      'request %d differs from the statement-derived model and from every named deviation'
                                      % len(h2))
                        continue            # the history ends at a violation
                    d0 = pick([d for d, _ in new_models])   # minimal surviving explanation
                    if d0 == 0:
                        rep.count('ok')
                    else:
                        case = make_case(block, h2)
                        for f in fids_of(d0):
                            rep.known_finding(f, case, 'results equal the model with %s' % '+'.join(fids_of(d0)))
                    if isinstance(last, str) and last not in ('ValueError', 'IndexError'):
                        rep.count('issued')
                    elif last is None:
                        rep.count('result_None')
                    else:
                        rep.count('result_' + last)
                    if level >= 3 and len(t['alts']) >= 2 and len(rep.samples) < rep.MAX_SAMPLES and ei % 7 == 3:
                        rep.sample({'template': print_template(t, sp), 'charsub': charsub, 'reserved': reserved,
                                    'requests': [bindings(e) for e in h2], 'results': obs})
                    if dump == FINISHED:
                        # the generator is exhausted: every later result is None, which only a model in its DEAD
                        # state predicts; the other survivors cannot survive another request, so they are not
                        # carried along (and do not keep equal states apart)
                        new_models = [(d, st) for d, st in new_models if st == M.DEAD]
                    key = (dump, tuple(new_models))
                    if key in seen:
                        rep.count('merged')
                        continue
                    seen.add(key)
                    rep.states += 1
                    nxt.append((h2, tuple(new_models), tuple(obs)))
        frontier = nxt
        if rep.states > STATE_CAP and level + 1 < depth:
            rep.count('blocks_capped')
            break
        if not frontier:
            rep.count('blocks_closed_before_depth_bound')      # every reachable state already expanded
            break
    return rep.close_block()


def run(tier, seed, rep):
    quick = tier == 'quick'
    depth = 6 if quick else 12
    sp = seed % 3
    blocks = []
    combos = QUICK_COMBOS if quick else THOROUGH_COMBOS
    shallow = {}
    for ti, t in enumerate(TEMPLATES):
        d = depth
        if any(M.numbered(tup(a)) and set(M.variables_of(tup(a))) - set(INIT) for a in t['alts']):
            # an alternative that spells both a request variable and $num makes nearly every history a distinct
            # state (issued sets like {a-1, b-2, a-3}): these templates are searched to SHALLOW_DEPTH only
            d = min(depth, SHALLOW_DEPTH[tier])
            shallow[print_template(t, 0)] = d
        for cs, rs in combos:
            blocks.append({'tindex': ti, 'template': t, 'charsub': cs, 'reserved': RESERVED[rs], 'spelling': sp,
                           'depth': d, 'events': events_for(t, tier, cs)})
    # the other two spellings of every template (the seed only chooses which spelling gets the deep search)
    for ti, t in enumerate(TEMPLATES):
        for sp2 in range(3):
            if sp2 != sp:
                blocks.append({'tindex': ti, 'template': t, 'charsub': 'blank', 'reserved': RESERVED['some'],
                               'spelling': sp2, 'depth': SPELLING_DEPTH, 'events': events_for(t, tier, 'blank')})
    # values family: irregular white space / forbidden characters / path and extension characters in the values
    vdepth = VALUE_DEPTH[tier]
    nvalue = 0
    for ti, t in enumerate(VALUE_TEMPLATES):
        m = mentioned(t)
        if 'id' in m and 'title' in m:
            evs = [[i, ti2] for i in VALUES_ID2 for ti2 in VALUES_TITLE2]
        elif 'id' in m:
            evs = [[v, None] for v in [None] + VALUES]
        else:
            evs = [[None, v] for v in [None] + VALUES]
        for cs in ('default', 'none', 'blank', 'delete', 'multi'):
            for rs in ('none', 'vres'):
                nvalue += 1
                blocks.append({'tindex': 2000 + ti, 'template': t, 'charsub': cs, 'reserved': VALUE_RESERVED[rs],
                               'spelling': sp, 'depth': vdepth, 'events': evs, 'family': 'values',
                               'init': VALUE_INIT_NUM if ti == len(VALUE_TEMPLATES) - 1 else
                               (VALUE_INIT if 'jobname' in m else None)})
    for ti, t in enumerate(LONG_TEMPLATES):
        for rs in ('none', 'hit', 'run'):
            for ev in LONG_EVENTS:
                blocks.append({'tindex': 1000 + ti, 'template': t, 'charsub': 'default', 'reserved': LONG_RESERVED[rs],
                               'spelling': sp, 'depth': LONG_LEN, 'events': [ev], 'long': True})
    nblocks = len(blocks)
    # heavy configurations first (pool balance); the seed rotates inside equal-cost groups only by order
    blocks = core.rotate(blocks, seed)
    cost = lambda b: len(b['events']) * (1 + len(b['template']['alts']))
    blocks.sort(key=cost)
    ncheap = len(blocks) // 4
    blocks = blocks[:ncheap] + sorted(blocks[ncheap:], key=lambda b: -cost(b))   # a few cheap ones, then longest first
    aborted = False
    for r in core.pmap(run_block, blocks):
        rep.merge(r)
        if rep.nviolations >= 25:
            aborted = True          # plenty of counterexamples: the remaining blocks add nothing to the verdict
            break
    capped = rep.counters.get('blocks_capped', 0)
    return {'exhaustive': not aborted and not capped, 'aborted_after_violations': aborted,
            'bounds': {'history_length': depth, 'history_length_exceptions': shallow, 'templates': len(TEMPLATES),
                       'charsub_x_reserved': ['%s/%s' % c for c in combos],
                       'configurations': len(TEMPLATES) * len(combos),
                       'events_per_request_max': max(len(b['events']) for b in blocks),
                       'long_histories': {'configs': len(LONG_TEMPLATES) * 6, 'length': LONG_LEN},
                       'other_spellings': {'configs': len(TEMPLATES) * 2, 'history_length': SPELLING_DEPTH},
                       'values_family': {'templates': len(VALUE_TEMPLATES), 'configs': nvalue, 'history_length': vdepth,
                                         'values_per_variable': len(VALUES), 'charsubs': 5, 'widths': [1, 2, 3]}},
            'blocks': nblocks, 'spelling_variant': sp, 'max_depth_completed': depth, 'state_cap_hit': bool(capped),
            'floors': {'evaluations': 20000, 'issued': 10000, 'result_ValueError': 100, 'merged': 1000}}
