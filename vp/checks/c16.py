"""
C16 -- Configuration values come from defaults, files and command line in that order.
Engine E1: for every option of every section (plasTeX/Config.py, Renderers/HTML5/Config.py and a synthetic
renderer-contributed section) and a per-type value menu, every layering of up to three configuration
files and a command line is printed (INI files in a scratch directory, an argv), pushed through the real
plasTeX.client.main (with Compile.run replaced by a capture function) and the read-back of EVERY option
is compared with a precedence fold computed from the abstract layers (vp/refs/c16_config_model.py).
"""
import os, sys, json, shutil, tempfile, itertools

from vp import core
from vp.refs import c16_config_model as M

ID = 'C16'
LEVEL = 'exploration'
RULE = ('families (disjoint): single = per option, every 4-tuple (file1,file2,file3,argv) where each source omits the '
        'option or sets it to one value of the per-type menu [quick tier, booleans: the files of one layering share '
        'one spelling pair] (booleans: yes/no true/false on/off 1/0 and '
        'capitalised spellings in files, --x/--no-x sequences on the command line; ints incl. negative/zero; '
        'floats; strings incl. empty, %%, k=v; lists incl. quoted items; dictionaries as own lines (unknown-key '
        'routing) and as k=v,k=v); shapes = per option every list of 0..3 files each missing/empty/unknown-section/'
        'header-only/unknown-key/setting x argv omit/set; pairs = every unordered pair of options x every assignment '
        'of a subset of {A,B} to each source; interp = every ordered pair (string or list option A whose value '
        'references option B) x template x source of A x source of B, plus chains; reread = ONE live '
        'ConfigManager driven through every history of <= 3 (quick; thorough 4) '
        'steps from a menu of read(file) / updateFromDict(parsed argv) / config[sec][key]=v steps on string and '
        'list options holding %(other)s references and on the options they name, with a read-back of all options '
        'after construction and after every step, each compared with the model; dictws = per dictionary option the '
        'inline k=v,k=v form with every placement of blanks (before/after the inner =, before/after the comma; '
        'thorough also leading/trailing, tab and double blank) as lowest/middle/top file x later file (inline or '
        'own line) x command-line override of the same key; syntax = per option further spellings (lists with '
        'commas and quotes, negative numbers as separate arguments, options given twice ...) alone / above / '
        'below another file x command line; reject = per option malformed values in a file or on the command line '
        'in every layer position must end client.main with an error; multisec = one file with 2..3 (thorough 4) distinct sections in every order, an unknown key in '
        'each section (numeric / non-numeric stray value), alone and above a file that fills the dictionaries: an '
        'unknown key of a dictionary-less section changes nothing, one of a dictionary section goes to that '
        'section only; api = ConfigSection.get, duplicate '
        'section/option, options added through the API, missing references, packaged rc file, plastex() entry; doc = documented defaults and '
        'the pinned option table.  Each case runs plasTeX.client.main on printed files/argv and compares the '
        'read-back of all options with the model.  non-trivial = at least one source sets a value (reread: at least '
        'one step); distinct = '
        'distinct abstract case; outcomes = distinct observed read-back snapshots')
ASSUMPTIONS = [
    'oracle is a hand-written precedence fold with a pinned copy of the option table (vp/refs/c16_config_model.py); '
    'documented defaults are transcribed by hand from Doc/command.tex',
    'plasTeX.Compile.run is replaced by a capture function, everything before it in client.main is the real code',
    'values outside the menu are not explored: lone % signs, multi-line values, [DEFAULT] sections, duplicate keys '
    'in one file, malformed numbers/booleans, option values starting with "-"',
    'the system files read by defaultConfig(loadConfigFiles=True) are not part of client.main and not explored',
]

FID_DOC = 'C16.DOC_DEFAULT_STALE'


# ---------------------------------------------------------------------------------------------
# Harness: run the real client.main on printed input
# ---------------------------------------------------------------------------------------------
class _Null(object):
    def write(self, s):
        return len(s)

    def flush(self):
        pass


def _add_synth(config):
    """What a renderer's Config.addConfig would do (section contributed after the built-in ones)."""
    from plasTeX import ConfigManager as CM

    class SynthStr(CM.DictOption):
        @classmethod
        def entryFromString(cls, entry):
            return entry

        def registerArgparse(self, group):
            group.add_argument(*self.options, dest=self.name, help=self.description, action='append', nargs=2)

    class SynthInt(SynthStr):
        @classmethod
        def entryFromString(cls, entry):
            return int(entry)

    kinds = {'str': CM.StringOption, 'int': CM.IntegerOption, 'float': CM.FloatOption, 'bool': CM.BooleanOption,
             'list': CM.MultiStringOption, 'dict_str': SynthStr, 'dict_int': SynthInt}
    section = config.addSection('zzsynth', 'Synthetic renderer options')
    for (s, k, t, d, en, dis) in M.SYNTH_SCHEMA:
        flags = ' '.join(en + ['!' + x for x in dis])
        default = list(d) if isinstance(d, list) else dict(d) if isinstance(d, dict) else d
        section[k] = kinds[t]('synthetic %s' % k, flags, default)


def run_main(argv, synth=False):
    """-> ConfigManager as handed to Compile.run | 'raises:X' | 'timeout'"""
    import plasTeX.client as cl
    cap = []
    orig_run, orig_collect = cl.run, cl.collect_renderer_config
    so, se = sys.stdout, sys.stderr

    def fake_run(filename, config):
        cap.append(config)

    def collect(config):
        orig_collect(config)
        _add_synth(config)

    cl.run = fake_run
    if synth:
        cl.collect_renderer_config = collect
    sys.stdout = sys.stderr = _Null()
    try:
        with core.time_limit(10.0):
            cl.main(list(argv))
    except core.Timeout:
        return 'timeout'
    except SystemExit:
        return 'raises:SystemExit'
    except Exception as e:
        return 'raises:%s' % type(e).__name__
    finally:
        sys.stdout, sys.stderr = so, se
        cl.run, cl.collect_renderer_config = orig_run, orig_collect
    if len(cap) != 1:
        return 'raises:run-not-called'
    return cap[0]


def snapshot(config):
    out = {}
    try:
        with core.time_limit(10.0):
            for sname in config:
                sec = config[sname]
                for key in sec.keys():
                    try:
                        out['%s/%s' % (sname, key)] = M.enc(sec[key])
                    except core.Timeout:
                        raise
                    except Exception as e:
                        out['%s/%s' % (sname, key)] = ['raises', type(e).__name__]
    except core.Timeout:
        return 'timeout'
    return out


class Scratch(object):
    """Scratch directory with a content-addressed file cache."""

    ROOT = None         # set by run() in the parent before forking: removed there even if a worker is killed

    def __init__(self):
        base = Scratch.ROOT or ('/dev/shm' if os.path.isdir('/dev/shm') and os.access('/dev/shm', os.W_OK) else None)
        self.dir = tempfile.mkdtemp(prefix='vp-c16-', dir=base)
        self.cache = {}

    def path_for(self, content):
        p = self.cache.get(content)
        if p is None:
            p = os.path.join(self.dir, 'f%016x.ini' % core.h64(content))
            with open(p, 'w', encoding='utf-8') as f:
                f.write(content)
            self.cache[content] = p
        return p

    def missing(self, i):
        return os.path.join(self.dir, 'does-not-exist-%d.ini' % i)

    def close(self):
        shutil.rmtree(self.dir, ignore_errors=True)


def print_case(case, scratch):
    """abstract case -> (argv, [file contents or None])"""
    idx = M.opt_index(case.get('synth', False))
    argv = []
    texts = []
    for i, layer in enumerate(case.get('files', [])):
        if layer is None:
            continue
        if layer['st'] == 'missing':
            argv += ['-c' if i % 2 == 0 else '--config', scratch.missing(i)]
            texts.append(None)
            continue
        text = '' if layer.get('extra') == 'empty' else M.print_file(layer.get('ops', []), layer.get('extra'))
        texts.append(text)
        argv += ['-c' if i % 2 == 0 else '--config', scratch.path_for(text)]
    for op in case.get('argv', []):
        argv += M.print_cli(op, idx)
    argv += ['--', 'doc.tex']
    return argv, texts


def observe(case, scratch):
    argv, texts = print_case(case, scratch)
    cfg = run_main(argv, case.get('synth', False))
    if isinstance(cfg, str):
        return cfg
    return snapshot(cfg)


def _diff(exp, obs):
    if not isinstance(obs, dict) or not isinstance(exp, dict):
        return exp if not isinstance(exp, dict) else {'(all options)': 'a read-back snapshot'}, obs
    keys = sorted(k for k in set(exp) | set(obs) if exp.get(k) != obs.get(k))
    return {k: exp.get(k, '<no such option>') for k in keys}, {k: obs.get(k, '<no such option>') for k in keys}


_DEVSETS = None
LAST_OBS = None


def devsets():
    global _DEVSETS
    if _DEVSETS is None:
        bits = sorted(M.DEV_NAMES)
        _DEVSETS = []
        for n in range(1, len(bits) + 1):
            for sub in itertools.combinations(bits, n):
                d = 0
                for b in sub:
                    d |= b
                _DEVSETS.append((d, [M.DEV_NAMES[b] for b in sub]))
    return _DEVSETS


def expected(case, dev=0):
    try:
        return M.Model(case.get('synth', False), dev).apply_case(case).snapshot_fast()
    except M.Rejected:
        return 'rejected'
    except M.ModelError as e:
        return 'model-error:%s' % e


def expected_without_malformed(case):
    c = json.loads(json.dumps(case))
    for layer in c.get('files', []):
        if layer and layer.get('ops'):
            layer['ops'] = [op for op in layer['ops'] if not (op.get('v') and op['v'][0] == 'x')]
    c['argv'] = [op for op in c.get('argv', []) if op['v'][0] != 'X']
    return expected(c, 0)


def _is_rejection(obs):
    """client.main ended with an exception / argparse error instead of handing a configuration to run()."""
    return isinstance(obs, str) and obs.startswith('raises:') and obs != 'raises:run-not-called'


# -- documented defaults / pinned table -------------------------------------------------------
def _introspect(config):
    """The option table as the implementation declares it, in the model's vocabulary."""
    from plasTeX import ConfigManager as CM
    rows = []
    for sname in config:
        for key, opt in config[sname].data.items():
            if isinstance(opt, CM.BooleanOption):
                t = 'bool'
            elif isinstance(opt, CM.MultiStringOption):
                t = 'list'
            elif isinstance(opt, CM.StringOption):
                t = 'str'
            elif isinstance(opt, CM.IntegerOption):
                t = 'int'
            elif isinstance(opt, CM.FloatOption):
                t = 'float'
            elif isinstance(opt, CM.DictOption):
                probe = opt.entryFromString('3')
                t = 'links' if type(opt).__name__ == 'LinksOption' else \
                    {str: 'dict_str', int: 'dict_int', float: 'dict_float'}.get(type(probe), 'dict_?')
            else:
                t = type(opt).__name__
            en = [x for x in opt.options if not x.startswith('!')]
            dis = [x[1:] for x in opt.options if x.startswith('!')]
            rows.append([sname, key, t, M.enc(opt.value), en, dis])
    return rows


def judge_doc(case):
    cfg = run_main(['--', 'doc.tex'], False)
    if isinstance(cfg, str):
        return 'violation', [], 'a configuration', cfg, 'client.main failed without options'
    if case['what'] == 'table':
        exp = [[s, k, t, M.enc(d), en, dis] for (s, k, t, d, en, dis) in M.SCHEMA]
        obs = _introspect(cfg)
        if exp == obs:
            return 'ok', [], None, None, ''
        e = [r for r in exp if r not in obs]
        o = [r for r in obs if r not in exp]
        return 'violation', [], e, o, 'declared options (section, key, type, raw default, flags) differ from the pinned table'
    sec, key = case['o']
    try:
        obs = M.enc(cfg[sec][key])
    except Exception as e:
        obs = ['raises', type(e).__name__]
    exp = M.enc(M.DOC_DEFAULTS[(sec, key)])
    if obs == exp:
        return 'ok', [], exp, obs, ''
    if (sec, key) in M.DOC_STALE and obs == M.enc(M.DOC_STALE[(sec, key)]):
        return 'known', [FID_DOC], exp, obs, ('default of %s.%s differs from the default printed in Doc/command.tex'
                                              % (sec, key))
    return 'violation', [], exp, obs, 'default differs from the documented default'


def judge(case, scratch=None):
    """-> (verdict, fids, expected, observed, detail)"""
    if case.get('fam') == 'doc':
        return judge_doc(case)
    if case.get('fam') == 'reread':
        return judge_reread(case, scratch)
    if case.get('fam') == 'api':
        return judge_api(case)
    own = scratch is None
    if own:
        scratch = Scratch()
    global LAST_OBS
    try:
        obs = observe(case, scratch)
    finally:
        if own:
            scratch.close()
    LAST_OBS = obs
    exp = expected(case, 0)
    if obs == exp or (exp == 'rejected' and _is_rejection(obs)):
        return 'ok', [], None, None, ''
    if exp == 'rejected':
        return 'violation', [], 'rejected (an exception or a command-line error)', \
            _diff(expected_without_malformed(case), obs)[1] if isinstance(obs, dict) else obs, \
            'a malformed value was accepted; observed = options that differ from the same input without it'
    for dev, names in devsets():
        if obs == expected(case, dev):
            e, o = _diff(exp, obs)
            return 'known', names, e, o, 'read-back equals the model with deviation(s) %s' % '+'.join(names)
    e, o = _diff(exp, obs)
    return 'violation', [], e, o, 'read-back of the options differs from defaults < files < command line'


def replay(case):
    v, fids, exp, obs, detail = judge(case)
    scratch = Scratch()
    try:
        if case.get('fam') == 'reread':
            detail = '%s | history=%s' % (detail, json.dumps(print_history(case)))
        elif case.get('fam') not in ('doc', 'api'):
            argv, texts = print_case(case, scratch)
            detail = '%s | argv=%s | files=%s' % (detail, json.dumps([a.replace(scratch.dir, '<dir>') for a in argv]),
                                                 json.dumps(texts))
    finally:
        scratch.close()
    if v == 'known':
        f = core.Findings()
        notopen = [x for x in fids if not f.is_open(x)]
        if notopen and len(fids) > 1:
            return {'verdict': 'violation', 'expected': exp, 'observed': obs,
                    'detail': 'only explained by deviations not listed as open: %s | %s' % (notopen, detail)}
        return {'verdict': 'known', 'fid': fids[0], 'fids': fids, 'expected': exp, 'observed': obs, 'detail': detail}
    return {'verdict': v, 'expected': exp, 'observed': obs, 'detail': detail}


# ---------------------------------------------------------------------------------------------
# Value menus (abstract values)
# ---------------------------------------------------------------------------------------------
def _entry_vals(t):
    if t == 'dict_int':
        return [11, 12, 13, 14, 15, 16, 17, 18, 19]
    if t == 'dict_float':
        return [1.5, 2.5, 0.25, 4.0, 5.5, 6.5, 7.5, 8.5, 9.5]
    return ['v1', 'v2', 'v3', 'v4', 'v5', 'v6', 'v7', 'v8', 'v9']


def file_menu(row, tier, synth):
    s, k, t, d, en, dis = row
    quick = tier == 'quick'
    if t == 'bool':
        styles = ['yesno', 'truefalse', 'onoff', '10'] + ([] if quick else ['YesNo', 'TRUEFALSE', 'OnOFF'])
        return [['b', b, st] for st in styles for b in (True, False)]
    if t == 'int':
        m = [['i', 7, 'plain'], ['i', -3, 'plain'], ['i', 0, 'plain'], ['i', 12, 'plus']]
        return m if quick else m + [['i', 100000, 'plain']]
    if t == 'float':
        m = [['f', 2.5, 'repr'], ['f', -0.5, 'repr'], ['f', 0.0, 'repr'], ['f', 3.0, 'int']]
        return m if quick else m + [['f', 1500.0, 'exp']]
    if t == 'str':
        m = [['s', 'abc'], ['s', ''], ['s', 'x %% y'], ['s', 'k=v w']]
        return m if quick else m + [['s', 'Two  Words'], ['s', '#5;x'], ['s', 'a:b [c]']]
    if t == 'list':
        m = [['l', ['a.x'], 'dq'], ['l', ['b c', 'd'], 'dq'], ['l', ['e', 'f'], 'sq']]
        return m if quick else m + [['l', ['g h'], 'sq'], ['l', [], 'dq']]
    # dictionaries
    v = _entry_vals(t)
    first = M.first_dict_option(s, synth) == k
    m = []
    if first:
        m += [['d', [['ka', v[0]]], 'routed'], ['d', [['kb', v[1]], ['ka', v[2]]], 'routed'], ['d', [['KD', v[4]]], 'routed']]
    second = v[5] if t in ('dict_int', 'dict_float') else 'x=y'
    m += [['d', [['ka', v[3]], ['kc', second]], 'named']]
    if not first or not quick:
        m += [['d', [['KE', v[6]]], 'named']]
    return m


def cli_menu(row, tier):
    s, k, t, d, en, dis = row
    quick = tier == 'quick'
    if t == 'bool':
        if dis:
            return [['B', ['+'], 0], ['B', ['-'], 0], ['B', ['+', '-'], 0], ['B', ['-', '+'], 0]]
        return [['B', ['+'], 0]] if quick else [['B', ['+'], 0], ['B', ['+', '+'], 0]]
    if t == 'int':
        m = [['S', [5], 'sp', 0], ['S', [0], 'sp', 0], ['S', [-2], 'eq', 0], ['S', [8, 9], 'sp', 0]]
        return m if quick else m + [['S', [-4], 'sp', 0]]
    if t == 'float':
        m = [['S', [0.25], 'sp', 0], ['S', [0.0], 'sp', 0], ['S', [-1.5], 'eq', 0]]
        return m if quick else m + [['S', [-2.5], 'sp', 0], ['S', [4.0, 8.0], 'eq', 0]]
    if t == 'str':
        m = [['S', ['c1'], 'sp', 0], ['S', [''], 'sp', 0], ['S', ['p', 'q'], 'eq', 0]]
        if len(en) > 1:
            m.append(['S', ['via-alias'], 'sp', 1])
        return m if quick else m + [['S', ['c 2'], 'eq', 0], ['S', [''], 'eq', 0]]
    if t == 'list':
        m = [['L', [['m']]], ['L', [['n', 'o'], ['p']]], ['L', [[]]]]
        return m if quick else m + [['L', [['r s']]]]
    if t == 'links':
        m = [['K', [['ka', 'T1']]], ['K', [['kb', 'U2', 'T2'], ['ka', 'T3']]]]
        return m if quick else m + [['K', [['KU', 'T4']]]]
    v = _entry_vals(t)
    m = [['D', [['ka', v[7]]]], ['D', [['kc', v[8]], ['ka', v[6]]]]]
    return m if quick else m + [['D', [['KU', v[5]]]]]


def pair_file_value(row, i, synth):
    """A value for option `row` that names the option and the source index (cross-talk is visible)."""
    s, k, t, d, en, dis = row
    if t == 'bool':
        return ['b', (i % 2 == 0) != bool(d), ['yesno', 'truefalse', 'onoff', '10'][i % 4]]
    if t == 'int':
        return ['i', 10 * (i + 1) + len(k), 'plain']
    if t == 'float':
        return ['f', 10.0 * (i + 1) + len(k) + 0.5, 'repr']
    if t == 'str':
        return ['s', 'f%d-%s' % (i, k)]
    if t == 'list':
        return ['l', ['%s%da' % (k, i), '%s %d b' % (k, i)], 'dq']
    v = _entry_vals(t)
    mode = 'routed' if M.first_dict_option(s, synth) == k else 'named'
    return ['d', [['k%d' % i, v[i]], ['ksame', v[i + 4]]], mode]


def pair_cli_value(row):
    s, k, t, d, en, dis = row
    if t == 'bool':
        return ['B', ['-'] if (d and dis) else ['+'], 0]
    if t == 'int':
        return ['S', [90 + len(k)], 'sp', 0]
    if t == 'float':
        return ['S', [90.5 + len(k)], 'sp', 0]
    if t == 'str':
        return ['S', ['c-%s' % k], 'sp', 0]
    if t == 'list':
        return ['L', [['%sc' % k]]]
    if t == 'links':
        return ['K', [['kc', 'Tc'], ['ksame', 'Uc', 'Tsame']]]
    v = _entry_vals(t)
    return ['D', [['kc', v[8]], ['ksame', v[7]]]]


# ---------------------------------------------------------------------------------------------
# Case generators (one per block; blocks are disjoint by construction)
# ---------------------------------------------------------------------------------------------
def _flayer(ops, extra=None):
    d = {'st': 'ok', 'ops': ops}
    if extra:
        d['extra'] = extra
    return d


def gen_single(block, tier):
    _, synth, oi, first = block
    row = M.schema(synth)[oi]
    o = [row[0], row[1]]
    fm = [None] + file_menu(row, tier, synth)
    cm = [None] + cli_menu(row, tier)
    f1 = fm[first]
    same_style = tier == 'quick' and row[2] == 'bool'
    for f2 in fm:
        for f3 in fm:
            if same_style and len(set(f[2] for f in (f1, f2, f3) if f is not None)) > 1:
                continue            # quick tier: the files of one layering use one spelling pair (yes/no, on/off ...)
            for a in cm:
                files = [_flayer([{'o': o, 'v': fv}]) for fv in (f1, f2, f3)]      # v None -> header only
                yield {'fam': 'single', 'synth': synth, 'files': files,
                       'argv': [] if a is None else [{'o': o, 'v': a}]}


SHAPE_STATES = ['missing', 'empty', 'othersec', 'hdr', 'unk', 'set']


def gen_shapes(block, tier):
    _, synth, oi = block
    row = M.schema(synth)[oi]
    o = [row[0], row[1]]
    maxn = 2 if tier == 'quick' else 3
    for n in range(0, maxn + 1):
        for states in itertools.product(SHAPE_STATES, repeat=n):
            files = []
            for i, st in enumerate(states):
                if st == 'missing':
                    files.append({'st': 'missing'})
                elif st == 'empty':
                    files.append(_flayer([], 'empty'))
                elif st == 'othersec':
                    files.append(_flayer([], 'othersec'))
                elif st == 'hdr':
                    files.append(_flayer([{'o': o, 'v': None}]))
                elif st == 'unk':
                    files.append(_flayer([{'o': o, 'v': ['u', 'zzunk%d' % i, '4%d' % i]}]))
                else:
                    files.append(_flayer([{'o': o, 'v': pair_file_value(row, i, synth)}]))
            for a in (None, pair_cli_value(row)):
                yield {'fam': 'shapes', 'synth': synth, 'files': files,
                       'argv': [] if a is None else [{'o': o, 'v': a}]}


def gen_pairs(block, tier):
    _, synth, ia = block
    sch = M.schema(synth)
    if synth:                      # synthetic options: paired with every real option and with each other
        lo = len(M.SCHEMA)
        partners = [j for j in range(len(sch)) if j < lo or j > ia] if ia >= lo else []
    else:
        partners = list(range(ia + 1, len(sch)))
    nfiles = 1 if tier == 'quick' else 2
    A = sch[ia]
    for ib in partners:
        B = sch[ib]
        for assign in itertools.product(range(4), repeat=nfiles + 1):     # bit0: A present, bit1: B present
            files = []
            for i in range(nfiles):
                ops = []
                if assign[i] & 1:
                    ops.append({'o': [A[0], A[1]], 'v': pair_file_value(A, i, synth)})
                if assign[i] & 2:
                    ops.append({'o': [B[0], B[1]], 'v': pair_file_value(B, i, synth)})
                if (i % 2) and len(ops) == 2:
                    ops.reverse()
                files.append(_flayer(ops))
            argv = []
            if assign[-1] & 1:
                argv.append({'o': [A[0], A[1]], 'v': pair_cli_value(A)})
            if assign[-1] & 2:
                argv.append({'o': [B[0], B[1]], 'v': pair_cli_value(B)})
            if len(argv) == 2 and (ia + ib) % 2:
                argv.reverse()
            yield {'fam': 'pairs', 'synth': synth, 'files': files, 'argv': argv}


def gen_interp(block, tier):
    _, synth, ia = block
    sch = M.schema(synth)
    A = sch[ia]
    oa = [A[0], A[1]]
    quick = tier == 'quick'
    for ib, B in enumerate(sch):
        if B[1] == A[1]:
            continue               # %(key)s would name A itself (same key in any section): recursion, outside the property
        templates = ['p%%(%s)sq' % B[1], '%%%%(%s)s%%%%' % B[1]]
        if not quick:
            templates.append('%%(%s)s+%%(%s)s' % (B[1], B[1]))
        if B[2] == 'int':
            templates.append('n%%(%s)dm' % B[1])
        for tpl in templates:
            for asrc in ('file', 'cli'):
                for bsrc in ('default', 'file', 'cli'):
                    files = []
                    argv = []
                    ops = []
                    if asrc == 'file':
                        ops.append({'o': oa, 'v': ['s', tpl] if A[2] == 'str' else ['l', [tpl, 'y'], 'dq']})
                    else:
                        argv.append({'o': oa, 'v': ['S', [tpl], 'eq', 0] if A[2] == 'str' else ['L', [[tpl, 'y']]]})
                    if bsrc == 'file':
                        ops.append({'o': [B[0], B[1]], 'v': pair_file_value(B, 1, synth)})
                    elif bsrc == 'cli':
                        argv.append({'o': [B[0], B[1]], 'v': pair_cli_value(B)})
                    if ops:
                        files.append(_flayer(ops))
                    yield {'fam': 'interp', 'synth': synth, 'files': files, 'argv': argv}


CHAIN_OPTS = [('general', 'renderer'), ('general', 'theme'), ('general', 'kpsewhich'), ('document', 'title'),
              ('html5', 'extra-css')]


def gen_chain(block, tier):
    for a, b, c in itertools.permutations(CHAIN_OPTS, 3):
        if b == ('html5', 'extra-css'):
            continue                # str() of an interpolated list inside a string: covered by interp
        for srcs in itertools.product(('file', 'cli'), repeat=3):
            ops, argv = [], []
            vals = ['<%%(%s)s>' % b[1], '[%%(%s)s]%%%%' % c[1], 'end']
            for (sec, key), src, val in zip((a, b, c), srcs, vals):
                islist = key == 'extra-css'
                if src == 'file':
                    ops.append({'o': [sec, key], 'v': ['l', [val], 'dq'] if islist else ['s', val]})
                else:
                    argv.append({'o': [sec, key], 'v': ['L', [[val]]] if islist else ['S', [val], 'eq', 0]})
            yield {'fam': 'chain', 'synth': False, 'files': [_flayer(ops)] if ops else [], 'argv': argv}


def gen_doc(block, tier):
    yield {'fam': 'doc', 'what': 'table'}
    for (sec, key) in sorted(M.DOC_DEFAULTS):
        yield {'fam': 'doc', 'what': 'default', 'o': [sec, key]}


# -- family 'reread': one live ConfigManager, read back after every step --------------------------
# Step menu.  References: theme -> renderer, title -> theme | kpsewhich, kpsewhich -> split-level,
# extra-css -> renderer | theme | title (no cycle).  No upper-case dictionary keys (strict oracle only).
_TH, _RE, _TI, _KP = ['general', 'theme'], ['general', 'renderer'], ['document', 'title'], ['general', 'kpsewhich']
_CSS, _SPL = ['html5', 'extra-css'], ['files', 'split-level']
REREAD_MENU = [
    {'k': 'file', 'ops': [{'o': _TH, 'v': ['s', 't-%(renderer)s']}]},
    {'k': 'file', 'ops': [{'o': _RE, 'v': ['s', 'R1']}]},
    {'k': 'cli', 'ops': [{'o': _RE, 'v': ['S', ['R2'], 'sp', 0]}]},
    {'k': 'set', 'o': _RE, 'val': 'R3'},
    {'k': 'file', 'ops': [{'o': _CSS, 'v': ['l', ['c-%(renderer)s.css', 'plain.css'], 'dq']}]},
    {'k': 'cli', 'ops': [{'o': _TH, 'v': ['S', ['u%(renderer)s%%'], 'eq', 0]}]},
    {'k': 'set', 'o': _TI, 'val': '<%(theme)s>'},
    {'k': 'set', 'o': _CSS, 'val': ['%(theme)s.css']},
    {'k': 'set', 'o': _KP, 'val': 'k%(split-level)d'},
    {'k': 'cli', 'ops': [{'o': _SPL, 'v': ['S', [0], 'sp', 0]}]},
    # second half of the menu: two options per file, list reference through title, reference removed
    {'k': 'file', 'ops': [{'o': _SPL, 'v': ['i', 4, 'plain']}, {'o': _TI, 'v': ['s', '%(kpsewhich)s!']}]},
    {'k': 'file', 'ops': [{'o': _RE, 'v': ['s', 'R4']}, {'o': _TH, 'v': ['s', 'same-file-%(renderer)s']}]},
    {'k': 'cli', 'ops': [{'o': _CSS, 'v': ['L', [['x%(title)s']]]}]},
    {'k': 'set', 'o': _TH, 'val': 'plain'},
]
REREAD_QUICK = len(REREAD_MENU)


def reread_params(tier):
    return (REREAD_QUICK, 3) if tier == 'quick' else (len(REREAD_MENU), 4)


def gen_reread(block, tier):
    """block = ('reread', i, j): histories that start with step i then step j (j = -1: the history [i];
    i = -1: the empty history)."""
    _, i, j = block
    n, maxlen = reread_params(tier)
    if i < 0:
        yield {'fam': 'reread', 'h': []}
        return
    if j < 0:
        yield {'fam': 'reread', 'h': [i]}
        return
    for L in range(0, maxlen - 2 + 1):
        for tail in itertools.product(range(n), repeat=L):
            yield {'fam': 'reread', 'h': [i, j] + list(tail)}


def print_history(case):
    idx = M.opt_index(False)
    out = ['config = defaultConfig(); collect_renderer_config(config); read back all options']
    for hi in case['h']:
        st = REREAD_MENU[hi]
        if st['k'] == 'file':
            out.append('config.read(file %r); read back all' % M.print_file(st['ops']))
        elif st['k'] == 'cli':
            argv = []
            for op in st['ops']:
                argv += M.print_cli(op, idx)
            out.append('config.updateFromDict(vars(parser.parse_args(%r))); read back all' % argv)
        else:
            out.append('config[%r][%r] = %r; read back all' % (st['o'][0], st['o'][1], st['val']))
    return out


def observe_reread(case, scratch):
    """-> list of snapshots (one after construction, one after every step) | 'raises:X' | 'timeout'"""
    from argparse import ArgumentParser
    from plasTeX.Config import defaultConfig
    import plasTeX.client as cl
    idx = M.opt_index(False)
    so, se = sys.stdout, sys.stderr
    sys.stdout = sys.stderr = _Null()
    snaps = []
    try:
        with core.time_limit(20.0):
            config = defaultConfig()
            cl.collect_renderer_config(config)
            parser = ArgumentParser('plasTeX')
            config.registerArgparse(parser)
            snaps.append(snapshot(config))
            for hi in case['h']:
                st = REREAD_MENU[hi]
                if st['k'] == 'file':
                    config.read(scratch.path_for(M.print_file(st['ops'])))
                elif st['k'] == 'cli':
                    argv = []
                    for op in st['ops']:
                        argv += M.print_cli(op, idx)
                    config.updateFromDict(vars(parser.parse_args(argv)))
                else:
                    val = st['val']
                    config[st['o'][0]][st['o'][1]] = list(val) if isinstance(val, list) else val
                snaps.append(snapshot(config))
    except core.Timeout:
        return 'timeout'
    except SystemExit:
        return 'raises:SystemExit after %d steps' % (len(snaps) - 1)
    except Exception as e:
        return 'raises:%s after %d steps' % (type(e).__name__, len(snaps) - 1)
    finally:
        sys.stdout, sys.stderr = so, se
    return snaps


def expected_reread(case, dev=0):
    """-> (snapshots, number of steps after which an option with an UNCHANGED raw value that contains a
    reference reads back differently than before -- the situation a stale expansion cache gets wrong)"""
    try:
        m = M.Model(False, dev)
        snaps = [m.snapshot_fast()]
        stale_chances = 0
        for hi in case['h']:
            before = dict(m.state)
            m.apply_step(REREAD_MENU[hi])
            snaps.append(m.snapshot_fast())
            for (s, k), raw in m.state.items():
                if raw == before[(s, k)] and '%(' in json.dumps(raw) and \
                        snaps[-1]['%s/%s' % (s, k)] != snaps[-2]['%s/%s' % (s, k)]:
                    stale_chances += 1
                    break
        return snaps, stale_chances
    except M.ModelError as e:
        return 'model-error:%s' % e, 0


def _first_diff(exp, obs):
    if not isinstance(obs, list) or not isinstance(exp, list):
        return exp if not isinstance(exp, list) else '%d read-back snapshots' % len(exp), obs
    for i, (e, o) in enumerate(zip(exp, obs)):
        if e != o:
            de, do = _diff(e, o)
            return {'read-back after step': i, 'options': de}, {'read-back after step': i, 'options': do}
    return {'snapshots': len(exp)}, {'snapshots': len(obs)}


def judge_reread(case, scratch=None):
    global LAST_OBS
    own = scratch is None
    if own:
        scratch = Scratch()
    try:
        obs = observe_reread(case, scratch)
    finally:
        if own:
            scratch.close()
    LAST_OBS = obs
    exp, _ = expected_reread(case, 0)
    if obs == exp:
        return 'ok', [], None, None, ''
    for dev, names in devsets():
        if obs == expected_reread(case, dev)[0]:
            e, o = _first_diff(exp, obs)
            return 'known', names, e, o, 'read-backs equal the model with deviation(s) %s' % '+'.join(names)
    e, o = _first_diff(exp, obs)
    return 'violation', [], e, o, ('a read-back after a step of the history differs from the model '
                                   '(value set last wins; references are expanded with the CURRENT values)')


# -- families 'dictws', 'syntax', 'reject': file / command-line SYNTAX of every option type, in every layer ----
def _layerings_file(row, X, synth):
    """X (a file-side value) alone, above and below another file, each with and without a command line."""
    o = [row[0], row[1]]
    v0, v1, c = pair_file_value(row, 0, synth), pair_file_value(row, 1, synth), pair_cli_value(row)
    for files in ([X], [v0, X], [X, v1]):
        for cli in (None, c):
            yield [_flayer([{'o': o, 'v': fv}]) for fv in files], ([] if cli is None else [{'o': o, 'v': cli}])


def _layerings_cli(row, X, synth):
    o = [row[0], row[1]]
    v0, v1 = pair_file_value(row, 0, synth), pair_file_value(row, 1, synth)
    for files in ([], [v0], [v0, v1]):
        yield [_flayer([{'o': o, 'v': fv}]) for fv in files], [{'o': o, 'v': X}]


def syntax_menu(row, tier):
    """(file-side values, cli-side values) that the 'single' menus do not contain."""
    s, k, t, d, en, dis = row
    if t == 'bool':
        return [['b', b, st] for st in ('YesNo', 'TRUEFALSE', 'OnOFF') for b in (True, False)], []
    if t == 'int':
        return [['i', -7, 'plain'], ['i', 1234567890123, 'plain']], [['S', [-4], 'sp', 0], ['S', [-5, 6], 'sp', 0], ['S', [3, -8], 'eq', 0]]
    if t == 'float':
        return [['f', -2.25, 'repr'], ['f', 0.001, 'exp'], ['f', -4.0, 'int']], [['S', [-2.5], 'sp', 0], ['S', [5], 'sp', 0], ['S', [1.5, -0.75], 'sp', 0]]
    if t == 'str':
        return [['s', 'a, b; c'], ['s', '"quoted" \'x\''], ['s', '= leading equals'], ['s', 'tab\there']], \
               [['S', ['a=b,c'], 'eq', 0], ['S', ['two words', 'last one'], 'sp', 0], ['S', ['"q"'], 'sp', 0]]
    if t == 'list':
        return [['l', ['a,b', 'c d'], 'dq'], ['l', ['say "hi"', 'x'], 'sq'], ['l', ['w1', 'w2', 'w 3'], 'wide'],
                ['l', ["it's", 'y'], 'dq']], \
               [['L', [['a,b']]], ['L', [['x y', 'z'], []]], ['L', [['m'], ['m'], ['n']]]]
    v = _entry_vals(t)
    if t == 'links':
        return [['d', [['ka-title', 'Two Words'], ['ka-url', 'http://h/p?q=1&r=2']], 'named']], \
               [['K', [['ka', 'T1'], ['ka', 'T2']]], ['K', [['ka', 'U1', 'T1'], ['ka', 'T2']]]]
    if t == 'dict_str':
        return [['d', [['ka', 'a b=c'], ['ka', v[1]]], 'named']], \
               [['D', [['ka', v[2]], ['ka', v[3]]]], ['D', [['k.b', 'a=b']]]]
    neg = -v[0]                                     # dict_int / dict_float: negative entries, key given twice
    return [['d', [['ka', neg], ['ka', v[1]]], 'named']], \
           [['D', [['ka', v[2]], ['ka', v[3]]]], ['D', [['ka', neg]]]]


def gen_syntax(block, tier):
    _, synth, oi = block
    row = M.schema(synth)[oi]
    fvals, cvals = syntax_menu(row, tier)
    for X in fvals:
        for files, argv in _layerings_file(row, X, synth):
            yield {'fam': 'syntax', 'synth': synth, 'files': files, 'argv': argv}
    for X in cvals:
        for files, argv in _layerings_cli(row, X, synth):
            yield {'fam': 'syntax', 'synth': synth, 'files': files, 'argv': argv}


def reject_menu(row, synth):
    s, k, t, d, en, dis = row
    if t == 'bool':
        f = [['x', None, 'maybe'], ['x', None, ''], ['x', None, '2'], ['x', None, 'yes no']]
        c = [['X', ['@=yes']]]
        if not dis:
            c.append(['X', ['--no-' + en[0][2:]]])
        return f, c
    if t == 'int':
        return [['x', None, 'abc'], ['x', None, '1.5'], ['x', None, ''], ['x', None, '1 2']], [['X', ['@', 'abc']], ['X', ['@', '1.5']], ['X', ['@']]]
    if t == 'float':
        return [['x', None, 'abc'], ['x', None, ''], ['x', None, '1,5']], [['X', ['@', 'x']], ['X', ['@']]]
    if t == 'str':
        return [], [['X', ['@']]]
    if t == 'list':
        return [['x', None, '"abc'], ['x', None, "a 'b c"]], []
    first = M.first_dict_option(s, synth) == k
    f = [['x', None, 'novalue'], ['x', None, 'ka=1,novalue']]
    c = [['X', ['@', 'ka']]]
    if t in ('dict_int', 'dict_float'):
        f.append(['x', None, 'ka=notnum'])
        if first:
            f.append(['x', 'ka', 'notnum'])
        c.append(['X', ['@', 'ka', 'notnum']])
    if t == 'dict_int':
        f.append(['x', None, 'ka=1.5'])
    if t == 'links':
        c = [['X', ['@', 'ka']], ['X', ['@', 'a', 'b', 'c', 'd']]]
    else:
        c.append(['X', ['@', 'a', '1', '2']])
    return f, c


def gen_reject(block, tier):
    _, synth, oi = block
    row = M.schema(synth)[oi]
    fvals, cvals = reject_menu(row, synth)
    for X in fvals:
        for files, argv in _layerings_file(row, X, synth):
            yield {'fam': 'reject', 'synth': synth, 'files': files, 'argv': argv}
    for X in cvals:
        for files, argv in _layerings_cli(row, X, synth):
            yield {'fam': 'reject', 'synth': synth, 'files': files, 'argv': argv}
    if oi in (0, len(M.SCHEMA)):            # once per configuration: a flag that no option declares
        yield {'fam': 'reject', 'synth': synth, 'files': [], 'argv': [{'o': [row[0], row[1]], 'v': ['X', ['--zz-no-such-flag']]}]}


def dictws_blanks(tier):
    return [' '] if tier == 'quick' else [' ', '\t', '  ']


def gen_dictws(block, tier):
    """The inline k=v,k=v form under the option's own name with blanks at every placement, in the lowest,
    a middle and the top file, combined with overrides of the same key by a later file / the command line."""
    _, synth, oi = block
    row = M.schema(synth)[oi]
    s, k, t, d, en, dis = row
    o = [s, k]
    v = _entry_vals(t)
    first = M.first_dict_option(s, synth) == k
    ka, kb = ('ka-title', 'kb-url') if t == 'links' else ('ka', 'kb')
    lowers = [None, ['d', [[ka, v[4]], ['kc', v[5]]], 'named']] + ([['d', [[ka, v[6]]], 'routed']] if first else [])
    uppers = [None, ['d', [[ka, v[2]]], 'named']] + ([['d', [[ka, v[3]]], 'routed']] if first else [])
    clis = [None, ['K', [['ka', 'Tcli']]] if t == 'links' else ['D', [[ka, v[7]]]]]
    places = 4 if tier == 'quick' else 6
    for b in dictws_blanks(tier):
        for bits in itertools.product((0, 1), repeat=places):
            if not any(bits):
                if b != ' ':
                    continue        # the compact form: once
            be, ae, bc, ac = [b if x else '' for x in bits[:4]]
            lead, trail = (b if bits[4] else '', b if bits[5] else '') if places == 6 else ('', '')
            X = ['d', [[ka, v[0]], [kb, v[1]]], 'named', [lead, be, ae, bc, ac, trail]]
            for lo in lowers:
                for up in uppers:
                    for cli in clis:
                        files = [_flayer([{'o': o, 'v': fv}]) for fv in (lo, X, up) if fv is not None]
                        yield {'fam': 'dictws', 'synth': synth, 'files': files,
                               'argv': [] if cli is None else [{'o': o, 'v': cli}]}


# -- family 'api': the rest of the public configuration API ----------------------------------------------------
API_CASES = ['get', 'duplicate_section', 'duplicate_option', 'new_option', 'missing_reference', 'load_config_files',
             'plastex_entry', 'read_string_and_list', 'partial_dict', 'plastex_interrupt']


def gen_api(block, tier):
    for what in API_CASES:
        yield {'fam': 'api', 'what': what}


def judge_api(case):
    """-> (verdict, fids, expected, observed, detail); every expectation is spelled out literally here."""
    global LAST_OBS
    import plasTeX.client as cl
    from plasTeX.Config import defaultConfig
    from plasTeX import ConfigManager as CM
    what = case['what']
    so, se = sys.stdout, sys.stderr
    sys.stdout = sys.stderr = _Null()
    scratch = Scratch()
    exp = obs = None
    try:
        with core.time_limit(20.0):
            if what == 'get':
                config = defaultConfig()
                cl.collect_renderer_config(config)
                m = M.Model(False).snapshot()
                exp = dict(m)
                exp.update({'general/zz-missing': ['NoneType', 'None'], 'general/zz-missing|7': ['int', 7]})
                obs = {'%s/%s' % (sn, k): M.enc(config[sn].get(k)) for sn in config for k in config[sn].keys()}
                obs['general/zz-missing'] = M.enc(config['general'].get('zz-missing'))
                obs['general/zz-missing|7'] = M.enc(config['general'].get('zz-missing', 7))
            elif what == 'duplicate_section':
                config = defaultConfig()
                exp = 'ValueError'
                try:
                    config.addSection('files')
                    obs = 'accepted'
                except ValueError:
                    obs = 'ValueError'
            elif what == 'duplicate_option':
                config = defaultConfig()
                exp = ['ValueError', ['str', 'default']]
                try:
                    config['general']['theme'] = CM.StringOption('again', '--theme2', 'other')
                    r = 'accepted'
                except ValueError:
                    r = 'ValueError'
                obs = [r, M.enc(config['general']['theme'])]
            elif what == 'new_option':
                # an option added through the documented API takes part in files, command line and references
                config = defaultConfig()
                sec = config.addSection('zzapi')
                sec['zz-new'] = CM.StringOption('new', '--zz-new', 'n0')
                sec['zz-count'] = CM.IntegerOption('count', '--zz-count -Z', 1)
                from argparse import ArgumentParser
                parser = ArgumentParser('plasTeX')
                config.registerArgparse(parser)
                config.read([scratch.path_for('[zzapi]\nzz-new = from-file-%(zz-count)d\nzz-count = -5\n')])
                a = [M.enc(config['zzapi']['zz-new']), M.enc(config['zzapi']['zz-count'])]
                config.updateFromDict(vars(parser.parse_args(['-Z', '-6', '--theme', 't%(zz-new)s'])))
                obs = a + [M.enc(config['zzapi']['zz-new']), M.enc(config['zzapi']['zz-count']),
                           M.enc(config['general']['theme']), M.enc(config['zzapi'].get('zz-none', 'dflt'))]
                exp = [['str', 'from-file--5'], ['int', -5], ['str', 'from-file--6'], ['int', -6],
                       ['str', 'tfrom-file--6'], ['str', 'dflt']]
            elif what == 'missing_reference':
                mcase = {'fam': 'single', 'synth': False,
                         'files': [_flayer([{'o': ['general', 'theme'], 'v': ['s', 'a%(zz-no-such-option)sb']}])],
                         'argv': [{'o': ['html5', 'extra-css'], 'v': ['L', [['ok', '%(zz-none)s']]]}]}
                obs = observe(mcase, scratch)
                exp = expected(mcase, 0)
                if obs != exp:
                    exp, obs = _diff(exp, obs)
            elif what == 'load_config_files':
                if os.path.exists('/usr/local/etc/plasTeXrc') or os.path.exists('~/.plasTeXrc'):
                    exp = obs = 'skipped: a system configuration file exists on this machine'
                else:
                    config = defaultConfig(loadConfigFiles=True)
                    m = M.Model(False)
                    m.state[('logging', 'logging')] = dict(M.PACKAGED_RC_LOGGING)
                    exp = {k: v for k, v in m.snapshot().items()       # renderer sections are added by client.main
                           if k.split('/')[0] not in ('html5', 'mathjax-macros')}
                    obs = snapshot(config)
                    if exp != obs:
                        exp, obs = _diff(exp, obs)
            elif what == 'plastex_entry':
                cap = []
                orig_run, orig_argv = cl.run, sys.argv
                cl.run = lambda filename, config: cap.append((filename, config))
                sys.argv = ['plastex', '-c', scratch.path_for('[files]\nsplit-level = 7\n'), '--theme', 'zz', 'doc.tex']
                try:
                    cl.plastex()
                finally:
                    cl.run, sys.argv = orig_run, orig_argv
                exp = ['doc.tex', ['str', 'zz'], ['int', 7]]
                obs = [cap[0][0], M.enc(cap[0][1]['general']['theme']), M.enc(cap[0][1]['files']['split-level'])] \
                    if len(cap) == 1 else 'run called %d times' % len(cap)
            elif what == 'partial_dict':
                # updateFromDict with a dict that lacks most destinations: only the named options change
                config = defaultConfig()
                cl.collect_renderer_config(config)
                config.updateFromDict({'theme': 'zz', 'split-level': 0, 'xml': True})
                m = M.Model(False)
                m.state[('general', 'theme')] = 'zz'
                m.state[('files', 'split-level')] = 0
                m.state[('general', 'xml')] = True
                exp, obs = m.snapshot(), snapshot(config)
                if exp != obs:
                    exp, obs = _diff(exp, obs)
            elif what == 'plastex_interrupt':
                orig_run, orig_argv = cl.run, sys.argv

                def interrupted(filename, config):
                    raise KeyboardInterrupt()
                cl.run = interrupted
                sys.argv = ['plastex', 'doc.tex']
                try:
                    obs = ['returned', M.enc(cl.plastex())]
                except KeyboardInterrupt:
                    obs = 'KeyboardInterrupt propagated'
                finally:
                    cl.run, sys.argv = orig_run, orig_argv
                exp = ['returned', ['NoneType', 'None']]
            elif what == 'read_string_and_list':
                f1 = scratch.path_for('[files]\nsplit-level = 7\n[general]\nplugins = a\n')
                f2 = scratch.path_for('[files]\nsplit-level = 8\n[general]\nplugins = b\n')
                c1, c2 = defaultConfig(), defaultConfig()
                c1.read(f1)
                c1.read(f2)
                c2.read([f1, scratch.missing(0), f2])
                obs = [M.enc(c[sec][key]) for c in (c1, c2) for sec, key in (('files', 'split-level'), ('general', 'plugins'))]
                exp = [['int', 8], ['list', [['str', 'a'], ['str', 'b']]]] * 2
    except core.Timeout:
        obs = 'timeout'
    except SystemExit:
        obs = 'raises:SystemExit'
    except Exception as e:
        obs = 'raises:%s: %s' % (type(e).__name__, str(e)[:120])
    finally:
        sys.stdout, sys.stderr = so, se
        scratch.close()
    LAST_OBS = obs
    if exp == obs:
        return 'ok', [], exp, obs, ''
    if isinstance(exp, dict) and isinstance(obs, dict) and set(exp) != set() and len(exp) > 20:
        exp, obs = _diff(exp, obs)
    return 'violation', [], exp, obs, 'public configuration API case %r' % what


# -- family 'multisec': ONE file with several sections in every order, an unknown key in each ------------------
# Oracle (Model 'u' op): an unknown key of a section without a dictionary option changes no option at all; an
# unknown key of a section with a dictionary option goes to that section's (first) dictionary option only.
def gen_multisec(block, tier):
    _, first = block
    secs = M.section_order(True)                    # the 9 real sections + the synthetic renderer section
    idx = M.opt_index(True)
    maxn = 3 if tier == 'quick' else 4
    firstopt = {}
    for row in M.schema(True):
        firstopt.setdefault(row[0], row)
    for n in range(2, maxn + 1):
        for rest in itertools.permutations([x for x in secs if x != secs[first]], n - 1):
            order = [secs[first]] + list(rest)
            dictless = [x for x in order if M.first_dict_option(x, True) is None]
            for text in (0, 1):                     # stray value numeric / not numeric (in dictionary-less sections)
                if text and not dictless:
                    continue                        # same file as text == 0
                for pos in (0, 1):                  # the file alone / above a file that fills the dictionaries
                    ops = []
                    for j, sec in enumerate(order):
                        row = firstopt[sec]
                        hasdict = M.first_dict_option(sec, True) is not None
                        val = 'Draft %d' % j if (text and not hasdict) else '4%d' % j
                        ops.append({'o': [sec, row[1]], 'v': ['u', 'zzstray-%s' % sec.replace('-', ''), val]})
                        if (j + text) % 2 == 0 and not hasdict:
                            ops.append({'o': [sec, row[1]], 'v': pair_file_value(row, j % 3, True)})
                    files = [_flayer(ops)]
                    if pos:
                        low = [{'o': [r[0], r[1]], 'v': pair_file_value(r, 2, True)} for r in M.schema(True)
                               if (r[2].startswith('dict') or r[2] == 'links') and r[0] in order]
                        files.insert(0, _flayer(low))
                    yield {'fam': 'multisec', 'synth': True, 'files': files, 'argv': []}


GENS = {'multisec': gen_multisec, 'dictws': gen_dictws, 'syntax': gen_syntax, 'reject': gen_reject, 'api': gen_api, 'reread': gen_reread, 'single': gen_single, 'shapes': gen_shapes, 'pairs': gen_pairs, 'interp': gen_interp,
        'chain': gen_chain, 'doc': gen_doc}


def _sets_something(case):
    for layer in case.get('files', []):
        if layer and layer.get('st') == 'ok':
            for op in layer.get('ops', []):
                if op.get('v') is not None:
                    return True
    return bool(case.get('argv'))


def _features(case, rep):
    """Vacuity counters, computed from the abstract case only."""
    if case.get('fam') == 'multisec':
        seen_dict = False
        hit = False
        for op in case['files'][-1]['ops']:
            if op['v'][0] != 'u':
                continue
            if M.first_dict_option(op['o'][0], True) is not None:
                seen_dict = True
            elif seen_dict:
                hit = True
        if hit:
            rep.count('stray_key_in_dictless_section_after_dict_section')
    setters = {}
    for i, layer in enumerate(case.get('files', [])):
        if layer and layer.get('st') == 'ok':
            for op in layer.get('ops', []):
                v = op.get('v')
                if v is not None and v[0] != 'u':
                    setters.setdefault(tuple(op['o']), []).append(('f%d' % i, v))
                elif v is not None:
                    rep.count('unknown_key_lines')
    for op in case.get('argv', []):
        setters.setdefault(tuple(op['o']), []).append(('cli', op['v']))
    for o, lst in setters.items():
        srcs = [s for s, v in lst]
        if 'cli' in srcs and len(srcs) > 1:
            rep.count('cli_over_file')
        if len([s for s in srcs if s != 'cli']) > 1:
            rep.count('file_over_file')
        for s, v in lst:
            if v[0] == 'b' and v[1] is False:
                rep.count('file_bool_false_spelling')
            if v[0] == 'd' and v[2] == 'routed':
                rep.count('dict_routed_lines')
            if v[0] == 'd' and len(v) > 3 and any(v[3]):
                rep.count('dict_inline_blank_placements')
            if v[0] in ('s', 'S', 'l', 'L') and '%(' in json.dumps(v):
                rep.count('interpolation_refs')
            if v[0] == 'S' and any(x in ('', 0, 0.0) for x in v[1]):
                rep.count('cli_falsy_value')
        if lst[0][1][0] in ('l', 'L') and len(lst) > 1:
            rep.count('list_from_several_sources')


def run_block(block):
    fam, tier = block[0], block[-1]
    rep = core.Report()
    scratch = Scratch()
    try:
        for case in GENS[fam](block[:-1], tier):
            v, fids, exp, obs_d, detail = judge(case, scratch)
            if fam in ('doc', 'api'):
                outcome = (json.dumps(case, sort_keys=True), json.dumps(obs_d, sort_keys=True))
                nontrivial = True
            elif fam == 'reread':
                nontrivial = len(case['h']) >= 1
                outcome = json.dumps(LAST_OBS, sort_keys=True)
                chances = expected_reread(case, 0)[1]
                if chances:
                    rep.count('reread_histories_with_stale_cache_chance')
                rep.count('reread_readbacks', len(case['h']) + 1)
            else:
                nontrivial = _sets_something(case)
                outcome = None
            key = json.dumps(case, sort_keys=True)
            if fam not in ('doc', 'api', 'reread'):
                outcome = json.dumps(LAST_OBS, sort_keys=True)
                _features(case, rep)
                if fam == 'reject' and isinstance(LAST_OBS, str):
                    rep.count('rejected_' + LAST_OBS.split(':')[-1])
            rep.case(key=key, nontrivial=nontrivial, outcome=outcome)
            rep.count('fam_' + fam)
            if v == 'ok':
                if fam == 'reread':
                    if len(case['h']) >= 3 and len(rep.samples) < 1 and block[1] == 0 and block[2] == 1:
                        rep.sample({'family': fam, 'history': print_history(case)})
                elif nontrivial and len(rep.samples) < 1 and fam not in ('doc', 'api') and len(case.get('files', [])) + len(case['argv']) >= 2:
                    argv, texts = print_case(case, scratch)
                    rep.sample({'family': fam, 'argv': [a.replace(scratch.dir, '<dir>') for a in argv],
                                'files': texts})
            elif v == 'known':
                for f in fids:
                    rep.known_finding(f, case, detail)
            else:
                rep.violation(case, exp, obs_d, detail)
    finally:
        scratch.close()
    return rep.close_block()


def run(tier, seed, rep):
    blocks = [('doc', tier), ('chain', tier), ('api', tier)]
    nreal = len(M.SCHEMA)
    nall = len(M.schema(True))
    for synth, rng in ((False, range(nreal)), (True, range(nreal, nall))):
        for oi in rng:
            row = M.schema(synth)[oi]
            for first in range(1 + len(file_menu(row, tier, synth))):
                blocks.append(('single', synth, oi, first, tier))
            blocks.append(('shapes', synth, oi, tier))
            blocks.append(('syntax', synth, oi, tier))
            blocks.append(('reject', synth, oi, tier))
            if row[2].startswith('dict') or row[2] == 'links':
                blocks.append(('dictws', synth, oi, tier))
            blocks.append(('pairs', synth, oi, tier))
            if row[2] in ('str', 'list'):
                blocks.append(('interp', synth, oi, tier))
    nmenu, maxlen = reread_params(tier)
    for i in range(len(M.section_order(True))):
        blocks.append(('multisec', i, tier))
    blocks.append(('reread', -1, -1, tier))
    for i in range(nmenu):
        for j in range(-1, nmenu):
            blocks.append(('reread', i, j, tier))
    # the small families first, so that the example kept for a deviation is a short one
    small = [b for b in blocks if b[0] in ('doc', 'shapes')]
    rest = [b for b in blocks if b[0] not in ('doc', 'shapes')]
    root = Scratch()
    Scratch.ROOT = root.dir
    try:
        core.merge_all(run_block, core.rotate(small, seed), rep)
        core.merge_all(run_block, core.rotate(rest, seed), rep)
    finally:
        Scratch.ROOT = None
        root.close()
    bounds = {
        'options': nreal, 'synthetic_options': nall - nreal, 'max_config_files': 3,
        'single_sources': 4, 'bool_file_spellings': len(file_menu(M.SCHEMA[3], tier, False)),
        'shape_files_max': 2 if tier == 'quick' else 3, 'shape_states': len(SHAPE_STATES),
        'pair_sources': 2 if tier == 'quick' else 3,
        'interp_templates': 2 if tier == 'quick' else 3,
        'reread_step_menu': nmenu, 'reread_max_history': maxlen,
        'dictws_blank_placements': 4 if tier == 'quick' else 6, 'dictws_blank_kinds': len(dictws_blanks(tier)),
    }
    return {'exhaustive': True, 'bounds': bounds, 'blocks': len(blocks),
            'floors': {'evaluations': 50000, 'cli_over_file': 1000, 'file_over_file': 1000,
                       'file_bool_false_spelling': 1000, 'dict_routed_lines': 100, 'interpolation_refs': 1000,
                       'list_from_several_sources': 100, 'cli_falsy_value': 100, 'unknown_key_lines': 100,
                       'fam_reread': 1000, 'fam_dictws': 1000, 'fam_syntax': 500, 'fam_reject': 500,
                       'fam_api': len(API_CASES), 'fam_multisec': 2000, 'stray_key_in_dictless_section_after_dict_section': 500, 'dict_inline_blank_placements': 1000, 'reread_histories_with_stale_cache_chance': 200}}
