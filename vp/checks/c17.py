"""
C17 -- A document's result does not depend on what was processed before it.
Engine E2: nodes of the graph are interpreter-wide states (diff of a generic class-attribute snapshot against the
pristine one); events are documents from a menu of "stateful" documents; every history runs in a freshly forked
process.  Per edge: the snapshot after a completed document must equal the pristine one.  Per history A1..Ak;B:
the canonical tree of B (and, for a subset, its rendered files) must equal B processed alone; B;B must equal B.
"""
import re
from vp import core, state

ID = 'C17'
LEVEL = 'model_checking'
RULE = ('events = %d documents (register assignments, \\setlength, classes article/report/book, ifthen, \\newcolumntype, math / '
        'display math / lists / verbatim left open at end of input, \\openout, \\newif, \\appendix, index, babel, redefinitions, '
        'a plain witness); every document also contains an observer block (register tests, math, nested lists, a table, a '
        'section). States = leaked interpreter-wide state (snapshot diff). BFS: all histories of length <= 2 exhaustively, then '
        'from every distinct leaked state to depth k (thorough: additionally every ordered triple of documents); each history runs in a freshly forked process. Oracles: snapshot after a '
        'document = pristine snapshot; tree (and rendered files for a subset) of the last document = the same document alone; '
        'a difference is attributed to an open finding only if every leaked attribute is named by one and the difference '
        'disappears when the snapshot is restored before the last document. Non-trivial: history length >= 2.')
ASSUMPTIONS = [
    'the snapshot covers non-callable class attributes of all module-level Macro subclasses (vp/state.py); other hidden state '
    'is caught only through the differential oracle',
    'generated identifiers (a0000000017) and memory addresses are canonicalised',
]

OBS = ('\\ifdim\\parindent=20pt pA\\else pB\\fi \\ifdim\\parskip=0pt sA\\else sB\\fi \\ifnum\\tolerance=200 cA\\else cB\\fi '
       ' $m+n$ x \\begin{itemize}\\item i\\begin{enumerate}\\item j\\item k\\end{enumerate}\\end{itemize} '
       '\\begin{tabular}{l|c}a&b\\\\ c&d\\end{tabular} ')


def art(body, cls='article', pre=''):
    return '\\documentclass{%s}%s\\begin{document}\\section{S}%s%s\\end{document}' % (cls, pre, OBS, body)


MENU = {
    'plain': art('text \\textbf{b} \\ref{x}\\label{x}'),
    'parindent': art('\\parindent=7pt\\relax q'),
    'parindent_last': '\\documentclass{article}\\begin{document}\\section{S}' + OBS + ' q \\parindent=7pt\\relax r\\end{document}',
    'setlength': art('\\setlength{\\parskip}{3pt} q \\addtolength{\\parindent}{2pt}'),
    'count': art('\\tolerance=5\\relax q'),
    'book': art('\\chapter{C} t', cls='book'),
    'report': art('\\chapter{C} t', cls='report'),
    'bookindex': art('\\chapter{C}\\index{a}t\\printindex', cls='book', pre='\\usepackage{makeidx}\\makeindex'),
    'artindex': art('\\index{a}t\\printindex', pre='\\usepackage{makeidx}\\makeindex'),
    'artbib': art('\\cite{k}\\begin{thebibliography}{9}\\bibitem{k} K\\end{thebibliography}'),
    'bookbib': art('\\chapter{C}\\cite{k}\\begin{thebibliography}{9}\\bibitem{k} K\\end{thebibliography}', cls='book'),
    'ifthen': art('\\ifthenelse{1<2}{ya}{na} \\ifthenelse{\\equal{a}{b}}{yb}{nb} $q$', pre='\\usepackage{ifthen}'),
    'coltype': art('\\newcolumntype{Z}{c}\\begin{tabular}{Zl}u&v\\end{tabular}'),
    'openmath': '\\documentclass{article}\\begin{document}\\section{S}' + OBS + ' t $x',
    'opendisplay': '\\documentclass{article}\\begin{document}\\section{S}' + OBS + ' t \\[ x',
    'openmbox': '\\documentclass{article}\\begin{document}\\section{S}' + OBS + ' t \\mbox{u $x$ $y',
    'openlist': '\\documentclass{article}\\begin{document}\\section{S}' + OBS + ' \\begin{itemize}\\item a\\begin{enumerate}\\item b',
    'openverbatim': '\\documentclass{article}\\begin{document}\\section{S}' + OBS + ' \\begin{verbatim} v',
    'opengroup': '\\documentclass{article}\\begin{document}\\section{S}' + OBS + ' {\\bf t \\makeatletter',
    'openout': art('\\openout\\zzf=abc q'),
    'newif': art('\\newif\\ifzzq \\zzqtrue \\ifzzq ta\\else tb\\fi'),
    'appendix': art('\\appendix\\section{A} t'),
    'redef': art('\\renewcommand{\\thesection}{X\\arabic{section}}\\section{T} \\def\\textbf#1{[#1]}\\textbf{u}'),
    'babel': art('t', pre='\\usepackage[french]{babel}'),
    'title': art('t', pre='\\title{T}\\author{A}') .replace('\\section{S}', '\\maketitle\\section{S}'),
    'catcode': art('\\catcode`\\@=11\\relax \\def\\zz@a{k}\\zz@a \\catcode`\\~=12\\relax a~b'),
    'notclass': 'just text $a$ \\parskip=1pt\\relax',
    'ifx': art('\\def\\zza{xy}\\def\\zzb{xy}\\def\\zzc{}\\ifx\\zza\\zzb sa\\else da\\fi \\ifx\\zza\\zzc sb\\else db\\fi'),
    'newreg': art('\\newcount\\zzn \\zzn=5\\relax \\ifnum\\zzn=5 five\\else notfive\\fi \\newdimen\\zzd \\zzd=5pt\\relax '
                  '\\ifdim\\zzd>4pt big\\else small\\fi'),
    'eqnstar': art('\\begin{eqnarray*}a&=&b\\\\ c&=&d\\end{eqnarray*}'),
    'eqn': art('\\begin{eqnarray}a&=&b\\label{r1}\\\\ c&=&d\\\\ e&=&f\\end{eqnarray}\\begin{equation}g\\label{r2}\\end{equation}\\ref{r1}\\ref{r2}'),
    'inlinemath': art('u \\(a+b\\) v \\(c\\) w'),
    # math / a list left open although the document environment is closed
    'openmath_end': '\\documentclass{article}\\begin{document}t $x + y \\end{document}',
    'openlist_end': '\\documentclass{article}\\begin{document}\\begin{enumerate}\\item a\\begin{enumerate}\\item b \\end{document}',
    # a glue register assigned from another register
    'glueassign': art('\\parskip=\\baselineskip t \\topsep=\\parskip u'),
    # a column type that exists from the start (as if a package had registered it at import time) with no attributes
    'colW1': art('\\begin{tabular}{|W|c|}u&v\\end{tabular}'),
    'colW2': art('\\begin{tabular}{Wc}u&v\\end{tabular}'),
    # a program that edits its document's character substitutions in place
    'pycharsub': art('u -- v --- w'),
    'unkpkg': '\\documentclass{article}\\usepackage{zzunknownpkg}\\usepackage[opt]{zzotherpkg}\\begin{document}u v\\end{document}',
    'input': art('\\input{zz-no-such-file} t \\IfFileExists{zz-no-such-file.tex}{ya}{na}'),
    # programs that register a column type through the Python API before using it (same letter, different attributes)
    'pycolA': art('\\begin{tabular}{lY}u&v\\end{tabular}'),
    'pycolB': art('\\begin{tabular}{Yl}u&v\\end{tabular}'),
}
PYSETUP = {'pycolA': ('Y', {'text-align': 'center', 'font-style': 'italic'}),
           'pycolB': ('Y', {'text-align': 'right'})}
RENDER = ('plain', 'book', 'artindex')


def canon(s):
    ren = {}

    def r(m):
        k = m.group(0)
        if k not in ren:
            ren[k] = 'ID%d' % len(ren)
        return ren[k]
    s = re.sub(r'a\d{10}', r, s)
    s = re.sub(r'0x[0-9a-f]{6,}', '0xADDR', s)
    s = re.sub(r'at \d{9,}', 'at ADDR', s)
    return s


def process(name, do_render=False):
    """parse (and optionally render) one menu document in this process -> (canonical tree, canonical files, error)"""
    from plasTeX.TeX import TeX
    src = MENU[name]
    if do_render:
        from vp import render
        import vp.state as st
        # render() resets the interpreter state by design; here we must NOT reset, so call the pieces directly
        return _render_noreset(src)
    try:
        with core.time_limit(30):
            if name in PYSETUP:
                from plasTeX.Base.LaTeX.Arrays import ColumnType
                letter, style = PYSETUP[name]
                ColumnType.new(letter, {'style': dict(style)})
            tex = TeX()
            if name == 'pycharsub':
                cs = tex.ownerDocument.charsubs
                for pair in [x for x in cs if x[0] in ('--', '---')]:
                    cs.remove(pair)
            tex.ownerDocument.context.warnOnUnrecognized = False
            tex.input(src)
            doc = tex.parse()
            extra = ''
            if name in PYSETUP:
                cells = doc.getElementsByTagName('ArrayCell')
                extra = '\nSTYLES ' + repr([sorted((k, str(v)) for k, v in c.style.items()) for c in cells])
            return canon(doc.toXML() + extra), None, None
    except core.Timeout:
        return None, None, 'timeout'
    except Exception as e:
        return None, None, 'raises %s: %s' % (type(e).__name__, str(e)[:100])


def _render_noreset(src):
    import os, tempfile, shutil
    from plasTeX.TeX import TeX
    from plasTeX.DOM import Node
    cwd = os.getcwd()
    tmp = tempfile.mkdtemp(prefix='vp-c17-')
    try:
        os.chdir(tmp)
        with core.time_limit(60):
            tex = TeX()
            doc = tex.ownerDocument
            doc.context.warnOnUnrecognized = False
            cfg = doc.config
            cfg['images']['imager'] = 'none'
            cfg['images']['vector-imager'] = 'none'
            cfg['general']['copy-theme-extras'] = False
            cfg['files']['split-level'] = 1
            doc.userdata['jobname'] = 'doc'
            doc.userdata['working-dir'] = tmp
            tex.input(src)
            tex.parse()
            xml = canon(doc.toXML())
            from plasTeX.Renderers.HTML5 import Renderer
            Renderer().render(doc)
            files = {}
            for root, dirs, fs in os.walk(tmp):
                for f in fs:
                    if f.endswith('.html'):
                        with open(os.path.join(root, f), encoding='utf-8', errors='replace') as fh:
                            files[os.path.relpath(os.path.join(root, f), tmp)] = fh.read()
            blob = canon('\n'.join('%s\n%s' % (k, files[k]) for k in sorted(files)))
            return xml, blob, None
    except core.Timeout:
        return None, None, 'timeout'
    except Exception as e:
        return None, None, 'raises %s: %s' % (type(e).__name__, str(e)[:100])
    finally:
        try:
            if hasattr(Node, 'renderer'):
                from plasTeX.Renderers import unmix, Renderable
                del Node.renderer
                unmix(Node, Renderable)
        except Exception:
            pass
        os.chdir(cwd)
        shutil.rmtree(tmp, ignore_errors=True)


def run_history(arg):
    """executed in a freshly forked child: -> list of per-document records"""
    hist, restore_before_last, render_last = arg
    import os
    snap = state.pristine()
    env0 = {k: v for k, v in os.environ.items() if k.startswith('TEX')}

    def envdiff():
        cur = {k: v for k, v in os.environ.items() if k.startswith('TEX')}
        return [('os.environ', k, repr(env0.get(k))[:60], repr(cur.get(k))[:60]) for k in sorted(set(env0) | set(cur))
                if env0.get(k) != cur.get(k)]
    out = []
    for i, name in enumerate(hist):
        last = i == len(hist) - 1
        if last and restore_before_last:
            snap.restore()
            snap.restore_modules()
            for k in list(os.environ):
                if k.startswith('TEX'):
                    del os.environ[k]
            os.environ.update(env0)
        before = snap.diff() + snap.diff_modules() + envdiff()
        xml, files, err = process(name, do_render=(last and render_last))
        out.append({'doc': name, 'xml': core.h64(xml) if xml is not None else None, 'xml_text': xml if last else None,
                    'files': core.h64(files) if files is not None else None, 'error': err,
                    'leak_before': before, 'leak_after': snap.diff() + snap.diff_modules() + envdiff()})
    return out


# ---- open findings: which leaked attributes are known ------------------------------------------------------------
LEAK_PATTERNS = [       # (finding id, regex on 'module.Class.attr')
    # TeX parameters and registers keep their value on the class (ParameterCommand.invoke: type(self).value = ...)
    ('C17.REGISTER_VALUE_ON_CLASS', r'^plasTeX\.Base\.(TeX\.(Parameters|Registers)|LaTeX\.\w+)\.\w+\.value$'),
    # column types registered through ColumnType.new live in one dictionary on the class
    ('C17.COLUMNTYPE_REGISTRY_ON_CLASS', r'^plasTeX\.Base\.LaTeX\.Arrays\.ColumnType\.columnTypes$'),
]
# Every menu document that uses a non-builtin column letter registers it first, so a left-over registry entry can
# never explain a different result of a later document (first registration winning, say, is a different defect).
NOT_EXPLAINING = {'C17.COLUMNTYPE_REGISTRY_ON_CLASS'}


def leak_finding(entry):
    key = '%s.%s' % (entry[0], entry[1])
    for fid, rx in LEAK_PATTERNS:
        if re.search(rx, key):
            return fid
    return None


def fork_history(hist, restore=False, render_last=False):
    st, res = core.run_isolated(run_history, (tuple(hist), restore, render_last), timeout=300)
    if st != 'ok':
        return None, '%s %s' % (st, str(res)[:300])
    return res, None


_ALONE = {}


def alone(name, render_last):
    k = (name, render_last)
    if k not in _ALONE:
        res, err = fork_history((name,), False, render_last)
        _ALONE[k] = (res[0] if res else None, err)
    return _ALONE[k]


def judge(hist, render_last=False):
    """-> (verdict, fids, info, leak_key)"""
    hist = tuple(hist)
    res, err = fork_history(hist, False, render_last)
    if res is None:
        return 'error', [], {'harness': err}, None
    problems = []
    fids = set()
    # "processed to completion" is a premise: histories containing a failing document are not judged
    for r in res[:-1]:
        if r['error']:
            return 'skip', [], {'incomplete': r['doc'], 'error': r['error']}, None
    # edge invariant: after every completed document the interpreter-wide state is pristine
    for i, r in enumerate(res):
        if r['error'] and i == len(res) - 1:
            base, e0 = alone(r['doc'], render_last)
            if base is not None and base['error'] == r['error']:
                continue
        new = [e for e in r['leak_after'] if e not in (res[i - 1]['leak_after'] if i else [])]
        for e in new:
            f = leak_finding(e)
            if f:
                fids.add(f)
            else:
                problems.append('after %s: %s.%s = %s (pristine %s)' % (r['doc'], e[0], e[1], e[3], e[2]))
    # differential: last document equals the same document alone
    last = res[-1]
    base, e0 = alone(last['doc'], render_last)
    if base is None:
        return 'error', [], {'harness': e0}, None
    differs = (last['xml'] != base['xml'] or last['files'] != base['files'] or last['error'] != base['error'])
    if differs:
        leaked = last['leak_before']
        explained = (bool(leaked) and all(leak_finding(e) for e in leaked)
                     and any(leak_finding(e) not in NOT_EXPLAINING for e in leaked))
        res2, err2 = fork_history(hist, True, render_last)
        cured = res2 is not None and (res2[-1]['xml'], res2[-1]['files'], res2[-1]['error']) == (
            base['xml'], base['files'], base['error'])
        if explained and cured:
            for e in leaked:
                fids.add(leak_finding(e))
        else:
            what = 'tree' if last['xml'] != base['xml'] else ('files' if last['files'] != base['files'] else 'error')
            problems.append('%s of %s after %s differs from %s alone (%s; leaked: %s; cured by restoring the snapshot: %s)' % (
                what, last['doc'], list(hist[:-1]), last['doc'], _first_diff(base.get('xml_text'), last.get('xml_text')),
                ['%s.%s' % (e[0].split('.')[-1], e[1]) for e in leaked][:6], cured))
    leak_key = tuple(sorted((e[0], e[1], e[3]) for e in last['leak_after']))
    if problems:
        return 'violation', sorted(fids), {'problems': problems[:4]}, leak_key
    if fids:
        return 'known', sorted(fids), {'leaks': [list(e) for e in last['leak_after']][:6]}, leak_key
    return 'ok', [], {}, leak_key


def _first_diff(a, b):
    if a is None or b is None:
        return 'error/none'
    n = min(len(a), len(b))
    i = 0
    while i < n and a[i] == b[i]:
        i += 1
    return 'alone ...%r vs after ...%r' % (a[max(0, i - 30):i + 40], b[max(0, i - 30):i + 40])


def expand_chunk(hists):
    rep = core.Report()
    children = []
    if not hists:
        return rep, [((), core.h64(()))]
    for h in hists:
        for name in MENU_ORDER:
            h2 = tuple(h) + (name,)
            render_last = name in RENDER and len(h2) == 2
            v, fids, info, leak_key = judge(h2, render_last)
            rep.traces += 1
            if v == 'skip':
                rep.count('skipped_incomplete_history')
                continue
            rep.case(key=h2, nontrivial=len(h2) >= 2, outcome=(name, leak_key, v))
            rep.count('len_%d' % len(h2))
            case = {'hist': list(h2), 'render_last': render_last}
            if v == 'error':
                rep.error('history %s: %s' % (h2, info))
                continue
            if v == 'violation':
                rep.violation(case, 'same result as the last document alone; pristine interpreter state', info, MENU[name][:300])
            elif v == 'known':
                for f in fids:
                    rep.known_finding(f, case, repr(info)[:300])
            elif len(h2) >= 2:
                rep.sample({'history': list(h2)})
            # all histories of length 1 stay distinct (so that every ordered pair A;B is run: the differential oracle
            # must also see state the snapshot does not cover); deeper levels are merged by leaked state
            children.append((h2, core.h64(h2) if len(h2) == 1 else core.h64(('leak', leak_key))))
    return rep, children


MENU_ORDER = list(MENU)


def run_block_triples(block):
    """thorough: every ordered triple A1;A2;B with the given A1;A2 (no merging by leaked state: the differential oracle sees
    state the snapshot does not cover)"""
    a1, a2 = block
    rep = core.Report()
    for name in MENU_ORDER:
        h = (a1, a2, name)
        v, fids, info, leak_key = judge(h, False)
        rep.traces += 1
        if v == 'skip':
            rep.count('skipped_incomplete_history')
            continue
        rep.case(key=h, nontrivial=True, outcome=(name, leak_key, v))
        rep.count('all_triples')
        case = {'hist': list(h), 'render_last': False}
        if v == 'error':
            rep.error('history %s: %s' % (h, info))
        elif v == 'violation':
            rep.violation(case, 'same result as the last document alone; pristine interpreter state', info, MENU[name][:300])
        elif v == 'known':
            for f in fids:
                rep.known_finding(f, case, repr(info)[:300])
    return rep.close_block()


def replay(case):
    v, fids, info, leak_key = judge(tuple(case['hist']), case.get('render_last', False))
    if v in ('ok', 'skip'):
        return {'verdict': 'ok', 'expected': None, 'observed': None, 'detail': ''}
    if v == 'known':
        f = core.Findings()
        bad = [x for x in fids if not f.is_open(x)]
        if not bad:
            return {'verdict': 'known', 'fid': fids[0], 'expected': None, 'observed': info, 'detail': ''}
        return {'verdict': 'violation', 'expected': None, 'observed': info, 'detail': 'findings not open: %s' % bad}
    return {'verdict': 'violation', 'expected': 'same result as the last document alone; pristine interpreter state',
            'observed': info, 'detail': 'history %s' % case['hist']}


def run(tier, seed, rep):
    import os
    os.environ['TEXINPUTS'] = '/nonexistent-vp-texinputs'     # a search path that is set, so that restoring it matters
    from plasTeX.Base.LaTeX.Arrays import ColumnType
    ColumnType.new('W', {})         # before the pristine snapshot: part of the initial state of every history
    state.pristine()
    quick = tier == 'quick'
    global MENU_ORDER
    MENU_ORDER = core.rotate(list(MENU), seed)
    # level 1 and 2 exhaustively (all ordered pairs incl. B;B); deeper levels only from distinct leaked states
    info = core.bfs(expand_chunk, 3 if quick else 4, rep, chunk=1, state_cap=None)
    if not quick:
        core.merge_all(run_block_triples, [(a, b) for a in MENU_ORDER for b in MENU_ORDER], rep)
    return {'exhaustive': True, 'bounds': {'menu': len(MENU), 'depth': info['depth_completed'], 'levels': info['levels'],
                                           'all_ordered_triples': not quick,
                                           'rendered_last_documents': list(RENDER)},
            'floors': {'evaluations': 300}}
