"""
C18 -- The index lists every entry exactly once, under its key, in collation order.
Engine E1: every sequence of <= N index entries from a menu of entry ASTs, scattered over two sections
of a parsed article, compared with a reference index builder (vp/refs/index_model.py); the letter
groups / column split of every parsed document are evaluated for index-columns 1..4.
"""
import itertools
from vp import core, state
from vp.refs import index_model as M

ID = 'C18'
LEVEL = 'exploration'
RULE = ('every sequence (order matters) of n <= N entries drawn with repetition from a menu of \\index entry ASTs '
        '(1-3 levels, sort@display, |see |seealso |textbf, quoted ! @ | ", mixed case, accent, digit, underscore, '
        'ligature initial), printed into an article with two sections (the first k entries in section One, the rest '
        'in section Two; every k in 0..n for n <= 3 (quick, n = 3: k in {0, 1, 3}), k = n//2 for n >= 4) followed by '
        '\\printindex (and by a theindex environment for short sequences); for each parsed document the tree under '
        'the index node is compared with the reference builder and `groups` is evaluated for index-columns 1..4; '
        'blocks = (form, n, first two entries) (disjoint); non-trivial = at least one entry; distinct = distinct '
        '(form, sequence, k); outcomes = distinct observed (tree, groups)')
ASSUMPTIONS = [
    'strict collation key = Unicode Collation Algorithm as implemented by pyuca.Collator (DUCET 10.0); the transliteration '
    'used for headings is the unidecode package; both are third-party code, not plasTeX',
    'an entry without an explicit sort key is sorted by the text of its displayed key (plasTeX has no raw-string keys)',
    'the relative order of adjacent siblings whose collation keys are equal is not judged',
    'page references are identified by the \\index node they point to (its rank in document order), its section, '
    'its see/seealso flags, its format element and the ordinal text appended to it',
    'column split: exactly index-columns columns, concatenation = the group in order, empty columns only trailing; '
    'balance of the columns is not part of the statement and only counted (counter split_needlessly_empty_column)',
    'ranges |( |), empty keys and special characters inside braces are outside the menu',
]

FALLBACK = 'C18.COLLATOR_FALLBACK'
TIE = 'C18.TIE_SPLIT'
MULTI = 'C18.HEADING_MULTICHAR'


def E(*lv, **kw):
    return {'lv': [list(x) for x in lv], 'fmt': kw.get('fmt')}


def P(text, sort=None, src=None, mark=None):
    return (sort, text if src is None else src, text, mark)


MENU = [
    E(P('alpha')),                                                        # 0
    E(P('Alpha')),                                                        # 1
    E(P('beta')),                                                         # 2
    E(P('alpha'), P('sub')),                                              # 3
    E(P('alpha'), P('sub'), P('subsub')),                                 # 4
    E(P('Gamma', sort='gamma', src='\\textbf{Gamma}', mark='textbf')),    # 5
    E(P('1one')),                                                         # 6
    E(P('_under')),                                                       # 7
    E(P('\u00e9cole', src="\\'ecole")),                                   # 8
    E(P('Alpha'), fmt=['see', 'beta']),                                   # 9
    E(P('beta'), fmt=['textbf']),                                         # 10
    E(P('q!u@o|t"e')),                                                    # 11  printed q"!u"@o"|t""e
    E(P('beta'), P('sub')),                                               # 12
    E(P('Beta')),                                                         # 13
    # beyond the design menu
    E(P('Gamma', sort='gamma', src='\\emph{Gamma}', mark='emph'), P('sub')),   # 14 sort key on level 1 only
    E(P('alpha'), P('sub', sort='zz')),                                   # 15 sort key on level 2 only
    E(P('\u00c6sir', src='\\AE sir')),                                    # 16 initial transliterates to two letters
    E(P('echo')),                                                         # 17
    E(P('beta'), fmt=['seealso', 'alpha']),                               # 18
    E(P('Gamma', sort='gamma', src='\\emph{Gamma}', mark='emph')),           # 19 same sort key and text as 5, other markup
    E(P('_zeta')),                                                        # 20 second entry of the underscore group
    E(P('M\u00fcller', src='M\\"uller')),                                 # 21 accent macro whose name is the quote character
]
DESIGN_MENU = tuple(range(14))
FULL_MENU = tuple(range(len(MENU)))
MARKS = ('textbf', 'emph', 'textit', 'texttt')

PRE = ('\\documentclass{article}\n\\usepackage{makeidx}\n\\makeindex\n\\begin{document}\n')
FORMS = {'printindex': '\\printindex\n', 'theindex': '\\begin{theindex}\\end{theindex}\n'}


def source(specs, split, form, marker='wq'):
    out = [PRE, '\\section{One}\n']
    for i, s in enumerate(specs):
        if i == split:
            out.append('\\section{Two}\n')
        out.append('%s%d \\index{%s}\n' % (marker, i, M.spell(s)))
    if split >= len(specs):
        out.append('\\section{Two}\n')
    out.append('%sz\n' % marker)
    out.append(FORMS[form])
    out.append('\\end{document}\n')
    return ''.join(out)


# ---------------------------------------------------------------------------------------- observation
def _plain(x):
    """plasTeX text values are DOM nodes derived from str; keep only the characters."""
    return None if x is None else ''.join(x)


def _sub(node, rank):
    out = []
    for c in node:
        key = c.key
        marks = [_plain(n.nodeName) for n in key.childNodes if n.nodeName in MARKS]
        pages = []
        for p in c.pages:
            n = p._cr_node
            kind = 'see' if p.see else 'seealso' if p.seealso else 'normal'
            if (kind == 'normal') != bool(p.normal):
                kind += '?'
            fmt, shown = None, None
            kids = list(n.childNodes)
            if len(kids) == 1:
                k = kids[0]
                if k.nodeType == k.TEXT_NODE:
                    shown = _plain(k)
                else:
                    fmt, shown = _plain(k.nodeName), _plain(k.textContent)
            else:
                shown = 'children:%d' % len(kids)
            pages.append([rank.get(id(n), -1), kind, fmt, shown])
        ident = (_plain(c.sortkey) if isinstance(c.sortkey, str) else repr(c.sortkey), _plain(key.textContent),
                 marks[0] if len(marks) == 1 else (None if not marks else '+'.join(marks)))
        if c.parentNode is not node:
            ident = ident + ('parentNode mismatch',)
        out.append([ident, pages, _sub(c, rank)])
    return out


def observe(specs, split, form, marker='wq'):
    """-> dict(tree, sections, nentries, groups{cols: [(title, id, [[positions]])]})  |  'raises:...'"""
    from plasTeX.TeX import TeX
    state.reset()
    try:
        with core.time_limit(20.0):
            tex = TeX()
            tex.ownerDocument.context.warnOnUnrecognized = False
            tex.input(source(specs, split, form, marker))
            doc = tex.parse()
            nodes = doc.getElementsByTagName(form)
            if len(nodes) != 1:
                return 'index-nodes:%d' % len(nodes)
            idx = nodes[0]
            inodes = doc.getElementsByTagName('index')
            rank = {id(n): i for i, n in enumerate(inodes)}
            sections = []
            for n in inodes:
                sec = n.currentSection
                t = sec.attributes.get('title') if sec is not None and sec.attributes else None
                sections.append(_plain(t.textContent) if t is not None else None)
            tree = _sub(idx, rank)
            top = list(idx)
            pos = {id(n): i for i, n in enumerate(top)}
            groups = {}
            for cols in (1, 2, 3, 4):
                doc.config['document']['index-columns'] = cols
                gs = []
                for g in idx.groups:
                    gs.append((_plain(g.title), _plain(getattr(g, 'id', None)), [[pos.get(id(x), -1) for x in col] for col in g]))
                groups[cols] = gs
            return {'tree': tree, 'sections': sections, 'nentries': len(doc.userdata.get('index', [])),
                    'groups': groups}
    except core.Timeout:
        return 'timeout'
    except Exception as e:
        return 'raises:%s:%s' % (type(e).__name__, str(e)[:120])


# ---------------------------------------------------------------------------------------- oracle
TREE_VARIANTS = [((), 'uca', 'tree'), ((FALLBACK,), 'lower', 'tree'), ((TIE,), 'uca', 'flat'),
                 ((FALLBACK, TIE), 'lower', 'flat')]


def _ck(name):
    return M.uca() if name == 'uca' else M.lower


def _model(specs, ckname, builder):
    ck = _ck(ckname)
    return (M.tree_model if builder == 'tree' else M.flat_model)(specs, ck)


def judge(specs, split, form, marker='wq'):
    """-> (verdict, fids, expected, observed, detail, features)"""
    n = len(specs)
    obs = observe(specs, split, form, marker)
    strict = _model(specs, 'uca', 'tree')
    exp = {'tree': strict, 'sections': ['One'] * min(split, n) + ['Two'] * max(0, n - split), 'nentries': n}
    feats = {}
    if isinstance(obs, str):
        return 'violation', [], exp, obs, 'parsing the document or building the index failed', feats
    if obs['nentries'] != n:
        return 'violation', [], exp, obs, 'document records %d index entries, %d were written' % (obs['nentries'], n), feats
    if obs['sections'] != exp['sections']:
        return 'violation', [], exp, obs, 'an \\index node is not in the section it was written in', feats
    fids = None
    for devs, ckname, builder in TREE_VARIANTS:
        ck = _ck(ckname)
        model = strict if not devs else _model(specs, ckname, builder)
        if M.canon(obs['tree'], ck) == M.canon(model, ck):
            fids = list(devs)
            break
    if fids is None:
        return 'violation', [], exp, obs, 'index tree differs from the reference builder (also under every named deviation)', feats
    # ---- groups and columns, judged on the observed top level (its order was established above)
    top_sk = [node[0][0] for node in obs['tree']]
    g_strict = M.expected_groups(top_sk)
    g_dev = None
    exp['groups'] = g_strict
    multi = False
    for cols in (1, 2, 3, 4):
        gs = obs['groups'][cols]
        heads = [(t, i, [x for c in columns for x in c]) for (t, i, columns) in gs]
        if heads != g_strict:
            if g_dev is None:
                g_dev = M.expected_groups(top_sk, True)
            if heads == g_dev:
                multi = True
            else:
                # membership may be right and only the split wrong: say so precisely
                if [(t, i) for t, i, m in heads] == [(t, i) for t, i, m in g_strict]:
                    for (t, i, columns), (_, _, members) in zip(gs, g_strict):
                        msg = M.check_columns(columns, members, cols)
                        if msg:
                            return 'violation', [], exp, obs, 'index-columns=%d group %r: %s' % (cols, t, msg), feats
                return 'violation', [], exp, obs, 'index-columns=%d: groups %r, expected %r' % (cols, heads, g_strict), feats
        want = g_dev if heads != g_strict else g_strict
        for (t, i, columns), (_, _, members) in zip(gs, want):
            msg = M.check_columns(columns, members, cols)
            if msg:
                return 'violation', [], exp, obs, 'index-columns=%d group %r: %s' % (cols, t, msg), feats
            if len(members) >= cols and any(not c for c in columns):
                feats['split_needlessly_empty_column'] = 1
    if multi:
        fids.append(MULTI)
    titles = [t for t, i, m in (g_dev if multi else g_strict)]
    if len(set(titles)) != len(titles):
        feats['heading_repeated'] = 1
    if fids:
        return 'known', fids, exp, obs, 'matches the reference builder under deviations %s' % '+'.join(fids), feats
    return 'ok', [], exp, obs, '', feats


def replay(case):
    specs = case['specs']
    v, fids, exp, obs, detail, feats = judge(specs, case['split'], case.get('form', 'printindex'),
                                             case.get('marker', 'wq'))
    res = {'verdict': v, 'expected': exp, 'observed': obs, 'detail': detail,
           'input': source(specs, case['split'], case.get('form', 'printindex'), case.get('marker', 'wq'))}
    if v == 'known':
        f = core.Findings()
        notopen = [x for x in fids if not f.is_open(x)]
        res['fid'] = (notopen or fids)[0]
        res['fids'] = fids
    return res


# ---------------------------------------------------------------------------------------- exploration
def _splits(n, mode):
    if mode == 'all' or n <= 1:
        return list(range(n + 1))
    if mode == 'ends':
        return sorted({0, n // 2, n})
    return [n // 2]


def _features(rep, specs, obs_tree):
    if any(len(s['lv']) > 1 for s in specs):
        rep.count('has_subentry')
    if any(lv[0] is not None for s in specs for lv in s['lv']):
        rep.count('has_sortkey')
    if any(s['fmt'] for s in specs):
        rep.count('has_format')

    def walk(ch):
        for ident, pages, sub in ch:
            if len(pages) > 1:
                return True
            if walk(sub):
                return True
        return False
    if walk(obs_tree):
        rep.count('merged_line')


def run_block(block):
    form, n, prefix, menu, mode, marker = block
    rep = core.Report()
    M.uca()
    for tail in itertools.product(menu, repeat=n - len(prefix)):
        seq = tuple(prefix) + tail
        specs = [MENU[i] for i in seq]
        for k in _splits(n, mode):
            v, fids, exp, obs, detail, feats = judge(specs, k, form, marker)
            case = {'form': form, 'specs': specs, 'split': k, 'marker': marker}
            out = (repr(M.canon(obs['tree'], M.lower)), repr(obs['groups'])) if isinstance(obs, dict) else obs
            rep.case(key=(form, seq, k), nontrivial=n > 0, outcome=out)
            rep.count('documents')
            rep.count('group_evaluations', 4)
            for f in feats:
                rep.count(f)
            if isinstance(obs, dict):
                _features(rep, specs, obs['tree'])
            if v == 'ok':
                rep.count('strict_ok')
                if n >= 2:
                    rep.sample({'index': [M.spell(s) for s in specs], 'split': k,
                                'tree': M.canon(obs['tree'], M.lower), 'groups2': obs['groups'][2]})
            elif v == 'known':
                rep.count('explained_by:' + '+'.join(x.split('.')[1] for x in fids))
                for f in fids:
                    rep.known_finding(f, case, detail + ' | \\index: ' + ' , '.join(M.spell(s) for s in specs))
            else:
                rep.violation(case, exp, obs, detail)
    return rep.close_block()


def _blocks(form, n, menu, mode, marker):
    if n <= 2:
        return [(form, n, (), menu, mode, marker)]
    return [(form, n, (a, b), menu, mode, marker) for a in menu for b in menu]


def run(tier, seed, rep):
    state.pristine()
    M.uca()
    if not M.have_uca():
        rep.error('pyuca is not importable: no independent collation key for the strict oracle')
    marker = 'wq' + 'abcdefgh'[seed % 8]
    quick = tier == 'quick'
    plan = []                      # (form, n, menu, split mode)
    for n in range(0, 4):
        plan.append(('printindex', n, FULL_MENU, 'ends' if quick and n == 3 else 'all'))
    for n in range(0, 3 if quick else 4):
        plan.append(('theindex', n, FULL_MENU, 'all' if n <= 2 else 'mid'))
    if not quick:
        plan.append(('printindex', 4, FULL_MENU, 'mid'))
        plan.append(('printindex', 5, DESIGN_MENU, 'mid'))
    blocks = []
    bounds = {'menu': [M.spell(s) for s in MENU], 'index_columns': [1, 2, 3, 4], 'plan': []}
    for form, n, menu, mode in plan:
        blocks.extend(_blocks(form, n, menu, mode, marker))
        bounds['plan'].append({'form': form, 'entries': n, 'menu_size': len(menu), 'splits': mode,
                               'documents': len(menu) ** n * len(_splits(n, mode))})
    total = sum(p['documents'] for p in bounds['plan'])
    # big blocks first would starve the tail; rotate only (seed never changes the explored set)
    blocks = core.rotate(blocks, seed)
    core.merge_all(run_block, blocks, rep)
    return {'exhaustive': True, 'bounds': bounds, 'blocks': len(blocks), 'planned_documents': total,
            'floors': {'evaluations': total, 'has_subentry': 1000, 'has_sortkey': 1000, 'has_format': 1000,
                       'merged_line': 500, 'strict_ok': 500}}
