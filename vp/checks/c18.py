"""
C18 -- The index lists every entry exactly once, under its key, in collation order.
Engine E1: every sequence of <= N index entries from a menu of entry ASTs, scattered over two sections
of a parsed article, compared with a reference index builder (vp/refs/index_model.py); the letter
groups / column split of every parsed document are evaluated for index-columns 1..4.
"""
import itertools
from vp import core, state
from vp.refs import index_model as M

ID = 'C18'
LEVEL = 'exploration'
RULE = ('family seq: every sequence (order matters) of n <= N entries drawn with repetition from a menu of \\index entry '
        'ASTs (1-3 levels, sort@display, |see |seealso |textbf, quoted ! @ | ", mixed case, accents, digit, underscore, '
        'ligature initial), printed into an article with two sections (the first k entries in section One, the rest '
        'in section Two; every k in 0..n for n <= 3 (quick, n = 3: k in {0, 1, 3}), k = n//2 for n >= 4) followed by '
        '\\printindex, by an empty theindex environment, or by a theindex environment with hand-written items; '
        'family via: every sequence of n <= 2 (thorough 3) of (entry, way of writing it), the ways being inline and '
        'through a preamble macro defined while a subset of ! @ | " has category letter (\\makeatletter, \\catcode); '
        'family range: sequences of n <= 3 over range openers/closers |( |) |(textbf |)textbf and plain entries; '
        'family place: sequences of n <= 2 (thorough 3) of (entry, place), places = text, footnote, figure caption, '
        'subsection title, preamble; family split: one letter group of m <= 6 (thorough 8) entries with every weight '
        'vector in {1,2,3}^m (weight = 1 + sub-entries), index-columns 1..m_max+2; for each parsed document the tree '
        'under the index node is compared with the reference builder and `groups` is evaluated for index-columns 1..4; '
        'blocks = (family, n, first entries) (disjoint); non-trivial = at least one entry; distinct = distinct '
        '(family, form, sequence with ways and places, k); outcomes = distinct observed (tree, groups)')
ASSUMPTIONS = [
    'strict collation key = Unicode Collation Algorithm as implemented by pyuca.Collator (DUCET 10.0); the transliteration '
    'used for headings is the unidecode package; both are third-party code, not plasTeX',
    'an entry without an explicit sort key is sorted by the text of its displayed key (plasTeX has no raw-string keys)',
    'the relative order of adjacent siblings whose collation keys are equal is not judged',
    'page references are identified by the \\index node they point to (its rank in document order, preamble first), '
    'its section (the subsection whose title contains it; none in the preamble), its see/seealso flags, its format '
    'element and the ordinal text appended to it',
    'makeindex reads the .idx file as characters: the category codes under which an \\index argument was tokenised '
    '(macro body defined under \\makeatletter or \\catcode changes) do not change its meaning',
    'a range opener/closer is an ordinary reference of its line; the ( or ) it may show next to its ordinal is not judged',
    'column split: exactly index-columns columns, concatenation = the group in order, empty columns only trailing; '
    'balance of the columns is not part of the statement and only counted (counter split_needlessly_empty_column)',
    'empty keys, special characters inside braces, specials made active or space are outside the menu',
]

FALLBACK = 'C18.COLLATOR_FALLBACK'
TIE = 'C18.TIE_SPLIT'
MULTI = 'C18.HEADING_MULTICHAR'


def E(*lv, **kw):
    return {'lv': [list(x) for x in lv], 'fmt': kw.get('fmt')}


def P(text, sort=None, src=None, mark=None):
    return (sort, text if src is None else src, text, mark)


MENU = [
    E(P('alpha')),                                                        # 0
    E(P('Alpha')),                                                        # 1
    E(P('beta')),                                                         # 2
    E(P('alpha'), P('sub')),                                              # 3
    E(P('alpha'), P('sub'), P('subsub')),                                 # 4
    E(P('Gamma', sort='gamma', src='\\textbf{Gamma}', mark='textbf')),    # 5
    E(P('1one')),                                                         # 6
    E(P('_under')),                                                       # 7
    E(P('\u00e9cole', src="\\'ecole")),                                   # 8
    E(P('Alpha'), fmt=['see', 'beta']),                                   # 9
    E(P('beta'), fmt=['textbf']),                                         # 10
    E(P('q!u@o|t"e')),                                                    # 11  printed q"!u"@o"|t""e
    E(P('beta'), P('sub')),                                               # 12
    E(P('Beta')),                                                         # 13
    # beyond the design menu
    E(P('Gamma', sort='gamma', src='\\emph{Gamma}', mark='emph'), P('sub')),   # 14 sort key on level 1 only
    E(P('alpha'), P('sub', sort='zz')),                                   # 15 sort key on level 2 only
    E(P('\u00c6sir', src='\\AE sir')),                                    # 16 initial transliterates to two letters
    E(P('echo')),                                                         # 17
    E(P('beta'), fmt=['seealso', 'alpha']),                               # 18
    E(P('Gamma', sort='gamma', src='\\emph{Gamma}', mark='emph')),           # 19 same sort key and text as 5, other markup
    E(P('_zeta')),                                                        # 20 second entry of the underscore group
    E(P('M\u00fcller', src='M\\"uller')),                                 # 21 accent macro whose name is the quote character
    # only used by the families 'range' and 'place'
    E(P('alpha'), fmt=['(']),                                             # 22 range opener
    E(P('alpha'), fmt=[')']),                                             # 23 range closer
    E(P('alpha'), fmt=['(textbf']),                                       # 24
    E(P('alpha'), fmt=[')textbf']),                                       # 25
    E(P('alpha'), P('sub'), fmt=['(']),                                   # 26
    E(P('foo', sort='')),                                                 # 27 empty sort key: @foo
]
DESIGN_MENU = tuple(range(14))
BASE_MENU = tuple(range(22))                      # the sequence families draw from entries 0..21
FULL_MENU = tuple(range(len(MENU)))
MARKS = ('textbf', 'emph', 'textit', 'texttt')

PRE = '\\documentclass{article}\n\\usepackage{makeidx}\n\\makeindex\n'
FORMS = {'printindex': '\\printindex\n', 'theindex': '\\begin{theindex}\\end{theindex}\n',
         # a hand-written index body is thrown away and replaced by the generated entries
         'theindex_items': '\\begin{theindex}\\item old 1 \\subitem sub 2 \\indexspace \\item two 3\\end{theindex}\n'}
FORM_TAG = {'printindex': 'printindex', 'theindex': 'theindex', 'theindex_items': 'theindex'}

# How an occurrence is written: [via, place]
#   via   'inline'            \index{...} where it stands
#         'mac:<chars>'       \zzix<x>{} , a macro defined in the preamble while <chars> (a subset of ! @ | ") have
#                             category 11 (letter): @ through \makeatletter ... \makeatother, the others through
#                             \catcode`\!=11 ... \catcode`\!=12 ; 'mac:' = defined under the normal categories
#   place 'text' | 'footnote' | 'caption' (of a figure) | 'title' (of a \subsection) | 'preamble' (before \begin{document})
VIAS_QUICK = ['inline', 'mac:', 'mac:@', 'mac:!@|"']
VIAS_ALL = VIAS_QUICK + ['mac:!', 'mac:|', 'mac:"']
PLACES = ['text', 'footnote', 'caption', 'title', 'preamble']
DEFAULT_OCC = ['inline', 'text']


def _macname(i):
    return '\\zzix' + 'abcdefghij'[i]


def _definition(i, spec, via):
    letters = via[4:]
    body = '\\newcommand%s{\\index{%s}}' % (_macname(i), M.spell(spec))
    pre, post = '', ''
    for ch in letters:
        if ch == '@':
            pre, post = pre + '\\makeatletter ', '\\makeatother ' + post
        else:
            pre, post = pre + '\\catcode`\\%s=11\\relax ' % ch, '\\catcode`\\%s=12\\relax ' % ch + post
    return pre + body + post + '\n'


def layout(specs, split, occ):
    """-> (order, sections): the sequence positions in document order (preamble first) and, per sequence position,
    the title of the section the \\index node must belong to (None before the first section)."""
    n = len(specs)
    occ = occ or [DEFAULT_OCC] * n
    order = [i for i in range(n) if occ[i][1] == 'preamble'] + [i for i in range(n) if occ[i][1] != 'preamble']
    return order, occ


def source(specs, split, form, marker='wq', occ=None):
    """-> (LaTeX source, expected section title per sequence position)"""
    n = len(specs)
    order, occ = layout(specs, split, occ)
    calls = []
    pre = [PRE]
    for i, s in enumerate(specs):
        if occ[i][0] == 'inline':
            calls.append('\\index{%s}' % M.spell(s))
        else:
            pre.append(_definition(i, s, occ[i][0]))
            calls.append(_macname(i) + '{}')
    sections = [None] * n
    for i in range(n):
        if occ[i][1] == 'preamble':
            pre.append('%s\n' % calls[i])
    out = pre + ['\\begin{document}\n', '\\section{One}\n']
    cur = 'One'
    for i in range(n):
        if i == split:
            out.append('\\section{Two}\n')
            cur = 'Two'
        place = occ[i][1]
        if place == 'preamble':
            continue
        if place == 'text':
            out.append('%s%d %s\n' % (marker, i, calls[i]))
        elif place == 'footnote':
            out.append('%s%d\\footnote{fn %s}\n' % (marker, i, calls[i]))
        elif place == 'caption':
            out.append('\\begin{figure}%s%d\\caption{cap %s}\\end{figure}\n' % (marker, i, calls[i]))
        elif place == 'title':
            cur = 'S%s%d' % (marker, i)
            out.append('\\subsection{%s %s}\n' % (cur, calls[i]))
        sections[i] = cur
    if split >= n:
        out.append('\\section{Two}\n')
    out.append('%sz\n' % marker)
    out.append(FORMS[form])
    out.append('\\end{document}\n')
    return ''.join(out), sections


# ---------------------------------------------------------------------------------------- observation
def _plain(x):
    """plasTeX text values are DOM nodes derived from str; keep only the characters."""
    return None if x is None else ''.join(x)


def _sub(node, rank, odd):
    out = []
    for c in node:
        key = c.key
        marks = [_plain(n.nodeName) for n in key.childNodes if n.nodeName in MARKS]
        pages = []
        for p in c.pages:
            n = p._cr_node
            kind = 'see' if p.see else 'seealso' if p.seealso else 'normal'
            if (kind == 'normal') != bool(p.normal):
                kind += '?'
            # the destination object stands in for the \index node towards the renderers
            if p.nodeName != 'index' or not isinstance(str(p), str):
                odd.append('page reference does not proxy its \\index node')
            if kind != 'normal' and p.url is not None:
                odd.append('cross reference with a url')
            fmt, shown = None, None
            kids = list(n.childNodes)
            if kids and all(k.nodeType == k.TEXT_NODE for k in kids):
                # "(" / ")" of a range opener / closer next to the ordinal are not judged
                shown = ''.join(_plain(k) for k in kids).strip('()')
            elif len(kids) == 1:
                fmt, shown = _plain(kids[0].nodeName), _plain(kids[0].textContent)
            else:
                shown = 'children:%s' % '+'.join(_plain(k.nodeName) for k in kids)
            pages.append([rank.get(id(n), -1), kind, fmt, shown])
        ident = (_plain(c.sortkey) if isinstance(c.sortkey, str) else repr(c.sortkey), _plain(key.textContent),
                 marks[0] if len(marks) == 1 else (None if not marks else '+'.join(marks)))
        if c.parentNode is not node:
            ident = ident + ('parentNode mismatch',)
        if not isinstance(repr(c), str):
            odd.append('repr of an index line')
        out.append([ident, pages, _sub(c, rank, odd)])
    return out


def observe(specs, split, form, marker='wq', occ=None, cols_list=(1, 2, 3, 4)):
    """-> dict(tree, sections, nentries, flags, odd, groups{cols: [(title, id, [[positions]])]})  |  'raises:...'
    Occurrences are numbered in document order (rank of the \\index node)."""
    from plasTeX.TeX import TeX
    state.reset()
    try:
        with core.time_limit(20.0):
            tex = TeX()
            tex.ownerDocument.context.warnOnUnrecognized = False
            tex.input(source(specs, split, form, marker, occ)[0])
            doc = tex.parse()
            nodes = doc.getElementsByTagName(FORM_TAG[form])
            if len(nodes) != 1:
                return 'index-nodes:%d' % len(nodes)
            idx = nodes[0]
            inodes = doc.getElementsByTagName('index')
            rank = {id(n): i for i, n in enumerate(inodes)}
            sections = []
            odd = []
            for n in inodes:
                sec = n.currentSection
                t = sec.attributes.get('title') if sec is not None and sec.attributes else None
                sections.append(''.join(_plain(t.textContent).split()) if t is not None else None)
                if n.textContent != '':
                    odd.append('\\index node contributes text %r' % _plain(n.textContent))
            tree = _sub(idx, rank, odd)
            top = list(idx)
            pos = {id(n): i for i, n in enumerate(top)}
            groups = {}
            for cols in cols_list:
                doc.config['document']['index-columns'] = cols
                gs = []
                for g in idx.groups:
                    gs.append((_plain(g.title), _plain(getattr(g, 'id', None)), [[pos.get(id(x), -1) for x in col] for col in g]))
                groups[cols] = gs
            flags = []
            for e in doc.userdata.get('index', []):
                flags.append('see' if e.see else 'seealso' if e.seealso else 'normal' if e.normal else '?')
                if not isinstance(repr(e), str) or not isinstance(str(e), str):
                    odd.append('repr of an entry')
            return {'tree': tree, 'sections': sections, 'nentries': len(flags), 'flags': flags, 'odd': sorted(set(odd)),
                    'groups': groups}
    except core.Timeout:
        return 'timeout'
    except Exception as e:
        import traceback
        where = traceback.extract_tb(e.__traceback__)[-1]
        return 'raises:%s:%s @%s' % (type(e).__name__, str(e)[:120], where.name)


# ---------------------------------------------------------------------------------------- oracle
CATSPLIT = 'C18.CATCODE_SPLIT'
RANGE = 'C18.RANGE_CRASH'
RANGE_CRASH_OBS = "raises:AttributeError:'NoneType' object has no attribute 'replaceChild' @digest"

TREE_VARIANTS = [((), 'uca', 'tree'), ((FALLBACK,), 'lower', 'tree'), ((TIE,), 'uca', 'flat'),
                 ((FALLBACK, TIE), 'lower', 'flat'), ((CATSPLIT,), 'uca', 'flatcat')]


def _ck(name):
    return M.uca() if name == 'uca' else M.lower


def _model(specs, ckname, builder, sigs=None):
    ck = _ck(ckname)
    if builder == 'flatcat':
        return M.flat_catcode_model(specs, ck, sigs)
    return (M.tree_model if builder == 'tree' else M.flat_model)(specs, ck)


def judge(specs, split, form, marker='wq', occ=None, cols_list=(1, 2, 3, 4)):
    """-> (verdict, fids, expected, observed, detail, features)"""
    n = len(specs)
    order, occ = layout(specs, split, occ)
    src, secs = source(specs, split, form, marker, occ)
    dspecs = [specs[i] for i in order]                      # document order = numbering of the page references
    obs = observe(specs, split, form, marker, occ, cols_list)
    strict = _model(dspecs, 'uca', 'tree')
    exp = {'tree': strict, 'sections': [secs[i] for i in order], 'nentries': n, 'odd': [],
           'flags': [s['fmt'][0] if s['fmt'] and s['fmt'][0] in ('see', 'seealso') else 'normal' for s in dspecs]}
    feats = {}
    if isinstance(obs, str):
        if obs == RANGE_CRASH_OBS and any(M.is_range(s) for s in specs):
            return 'known', [RANGE], exp, obs, 'building the index raises for a range opener/closer (|( |))', feats
        return 'violation', [], exp, obs, 'parsing the document or building the index failed', feats
    if obs['nentries'] != n:
        return 'violation', [], exp, obs, 'document records %d index entries, %d were written' % (obs['nentries'], n), feats
    if obs['sections'] != exp['sections']:
        return 'violation', [], exp, obs, 'an \\index node is not in the section it was written in', feats
    if obs['flags'] != exp['flags']:
        return 'violation', [], exp, obs, 'see/seealso/normal flags of the recorded entries', feats
    if obs['odd']:
        return 'violation', [], exp, obs, '; '.join(obs['odd']), feats
    sigs = [M.letter_sig(specs[i], occ[i][0][4:] if occ[i][0] != 'inline' else '') for i in order]
    anysig = any(g for sg in sigs for g in sg)
    fids = None
    for devs, ckname, builder in TREE_VARIANTS:
        if builder == 'flatcat' and not anysig:
            continue
        ck = _ck(ckname)
        model = strict if not devs else _model(dspecs, ckname, builder, sigs)
        if M.canon(obs['tree'], ck) == M.canon(model, ck):
            fids = list(devs)
            break
    if fids is None:
        return 'violation', [], exp, obs, 'index tree differs from the reference builder (also under every named deviation)', feats
    # ---- groups and columns, judged on the observed top level (its order was established above)
    top_sk = [node[0][0] for node in obs['tree']]
    g_strict = M.expected_groups(top_sk)
    g_dev = None
    exp['groups'] = g_strict
    multi = False
    for cols in cols_list:
        gs = obs['groups'][cols]
        heads = [(t, i, [x for c in columns for x in c]) for (t, i, columns) in gs]
        if heads != g_strict:
            if g_dev is None:
                g_dev = M.expected_groups(top_sk, True)
            if heads == g_dev:
                multi = True
            else:
                # membership may be right and only the split wrong: say so precisely
                if [(t, i) for t, i, m in heads] == [(t, i) for t, i, m in g_strict]:
                    for (t, i, columns), (_, _, members) in zip(gs, g_strict):
                        msg = M.check_columns(columns, members, cols)
                        if msg:
                            return 'violation', [], exp, obs, 'index-columns=%d group %r: %s' % (cols, t, msg), feats
                return 'violation', [], exp, obs, 'index-columns=%d: groups %r, expected %r' % (cols, heads, g_strict), feats
        want = g_dev if heads != g_strict else g_strict
        for (t, i, columns), (_, _, members) in zip(gs, want):
            msg = M.check_columns(columns, members, cols)
            if msg:
                return 'violation', [], exp, obs, 'index-columns=%d group %r: %s' % (cols, t, msg), feats
            if len(members) >= cols and any(not c for c in columns):
                feats['split_needlessly_empty_column'] = 1
            feats['split:size=%d,cols=%d' % (len(members), cols)] = 1
    if multi:
        fids.append(MULTI)
    titles = [t for t, i, m in (g_dev if multi else g_strict)]
    if len(set(titles)) != len(titles):
        feats['heading_repeated'] = 1
    if fids:
        return 'known', fids, exp, obs, 'matches the reference builder under deviations %s' % '+'.join(fids), feats
    return 'ok', [], exp, obs, '', feats


def replay(case):
    specs = case['specs']
    args = (specs, case['split'], case.get('form', 'printindex'), case.get('marker', 'wq'), case.get('occ'))
    v, fids, exp, obs, detail, feats = judge(*args, cols_list=tuple(case.get('cols', (1, 2, 3, 4))))
    res = {'verdict': v, 'expected': exp, 'observed': obs, 'detail': detail, 'input': source(*args)[0]}
    if v == 'known':
        f = core.Findings()
        notopen = [x for x in fids if not f.is_open(x)]
        res['fid'] = (notopen or fids)[0]
        res['fids'] = fids
    return res


# ---------------------------------------------------------------------------------------- exploration
def _splits(n, mode):
    if mode == 'all' or n <= 1:
        return list(range(n + 1))
    if mode == 'ends':
        return sorted({0, n // 2, n})
    return [n // 2]


def _features(rep, specs, occ, obs_tree):
    if any(len(s['lv']) > 1 for s in specs):
        rep.count('has_subentry')
    if any(lv[0] is not None for s in specs for lv in s['lv']):
        rep.count('has_sortkey')
    if any(s['fmt'] for s in specs):
        rep.count('has_format')
    if any(M.is_range(s) for s in specs):
        rep.count('has_range')

    def walk(ch):
        for ident, pages, sub in ch:
            if len(pages) > 1:
                return True
            if walk(sub):
                return True
        return False
    merged = walk(obs_tree)
    if merged:
        rep.count('merged_line')
    if occ:
        vias = set(o[0] for o in occ)
        if len(vias) > 1 and 'inline' in vias:
            rep.count('macro_and_inline')
            for i, a in enumerate(specs):
                for j, b in enumerate(specs):
                    if i < j and a == b and occ[i][0] != occ[j][0] and merged:
                        rep.count('same_entry_macro_and_inline_merged')
                        return
        for o in occ:
            if o[1] != 'text':
                rep.count('place:' + o[1])


def _one(rep, key, specs, k, form, marker, occ, cols_list=(1, 2, 3, 4), family='seq'):
    v, fids, exp, obs, detail, feats = judge(specs, k, form, marker, occ, cols_list)
    case = {'form': form, 'specs': specs, 'split': k, 'marker': marker}
    if occ:
        case['occ'] = occ
    if tuple(cols_list) != (1, 2, 3, 4):
        case['cols'] = list(cols_list)
    out = (repr(M.canon(obs['tree'], M.lower)), repr(obs['groups'])) if isinstance(obs, dict) else obs
    rep.case(key=key, nontrivial=len(specs) > 0, outcome=out)
    rep.count('documents')
    rep.count('documents:' + family)
    rep.count('group_evaluations', len(cols_list))
    for f in feats:
        rep.count(f)
    if isinstance(obs, dict):
        _features(rep, specs, occ, obs['tree'])
    if v == 'ok':
        rep.count('strict_ok')
        if len(specs) >= 2:
            rep.sample({'index': [M.spell(s) for s in specs], 'split': k, 'how': occ,
                        'tree': M.canon(obs['tree'], M.lower), 'groups2': obs['groups'].get(2)})
    elif v == 'known':
        rep.count('explained_by:' + '+'.join(x.split('.')[1] for x in fids))
        for f in fids:
            rep.known_finding(f, case, detail + ' | \\index: ' + ' , '.join(M.spell(s) for s in specs)
                              + (' | written: %r' % (occ,) if occ else ''))
    else:
        rep.violation(case, exp, obs, detail)


def _weighted(ws):
    """One letter group: entry j is 'a'+letter with ws[j]-1 sub-entries (so its weight in the column split is ws[j])."""
    specs = []
    for j, w in enumerate(ws):
        name = 'a' + 'bcdefghijk'[j]
        specs.append(E(P(name)))
        for t in range(w - 1):
            specs.append(E(P(name), P('s' + 'xyz'[t])))
    return specs


def run_block(block):
    kind = block[0]
    rep = core.Report()
    M.uca()
    if kind == 'seq':
        _, form, n, prefix, menu, mode, marker = block
        for tail in itertools.product(menu, repeat=n - len(prefix)):
            seq = tuple(prefix) + tail
            specs = [MENU[i] for i in seq]
            for k in _splits(n, mode):
                _one(rep, (form, seq, k), specs, k, form, marker, None)
    elif kind == 'how':
        # items = (menu index, via, place); every sequence of n items
        _, fam, n, prefix, items, mode, marker = block
        for tail in itertools.product(range(len(items)), repeat=n - len(prefix)):
            seq = tuple(prefix) + tail
            specs = [MENU[items[i][0]] for i in seq]
            occ = [[items[i][1], items[i][2]] for i in seq]
            for k in _splits(n, mode):
                _one(rep, (fam, tuple(items[i] for i in seq), k), specs, k, 'printindex', marker, occ, family=fam)
    elif kind == 'split':
        _, m, first, maxw, cols_list, marker = block
        for rest in itertools.product(range(1, maxw + 1), repeat=m - 1):
            ws = (first,) + rest
            specs = _weighted(ws)
            _one(rep, ('split', ws), specs, len(specs) // 2, 'printindex', marker, None, cols_list, family='split')
    return rep.close_block()


def _blocks(form, n, menu, mode, marker):
    if n <= 2:
        return [('seq', form, n, (), menu, mode, marker)]
    return [('seq', form, n, (a, b), menu, mode, marker) for a in menu for b in menu]


def _how_blocks(fam, n, items, mode, marker):
    if n <= 1:
        return [('how', fam, n, (), items, mode, marker)]
    return [('how', fam, n, (a,), items, mode, marker) for a in range(len(items))]


VIA_MENU = (0, 3, 5, 9, 10, 11, 14, 15)          # entries whose spelling uses ! @ | " (and a plain one)
RANGE_MENU = (0, 22, 23, 24, 25, 26, 2)
PLACE_MENU = (0, 3, 5, 9, 10, 27)


def plan(tier, marker):
    """-> (blocks, bounds-plan)"""
    quick = tier == 'quick'
    blocks, desc = [], []

    def seq(form, n, menu, mode):
        blocks.extend(_blocks(form, n, menu, mode, marker))
        desc.append({'family': 'seq', 'form': form, 'entries': n, 'menu_size': len(menu), 'splits': mode,
                     'documents': len(menu) ** n * len(_splits(n, mode))})

    def how(fam, n, items, mode):
        blocks.extend(_how_blocks(fam, n, items, mode, marker))
        desc.append({'family': fam, 'entries': n, 'items': len(items), 'splits': mode,
                     'documents': len(items) ** n * len(_splits(n, mode))})

    for n in range(0, 4):
        seq('printindex', n, BASE_MENU, 'ends' if quick and n == 3 else 'all')
    for n in range(0, 3 if quick else 4):
        seq('theindex', n, BASE_MENU, 'all' if n <= 2 else 'mid')
    for n in range(1, 3):
        seq('theindex_items', n, BASE_MENU if n < 2 else DESIGN_MENU, 'mid')
    if not quick:
        seq('printindex', 4, BASE_MENU, 'mid')
        seq('printindex', 5, DESIGN_MENU, 'mid')
    # entries written through macros defined under other category codes, mixed with inline ones
    vias = VIAS_QUICK if quick else VIAS_ALL
    for n in (1, 2):
        how('via', n, [(m, v, 'text') for m in VIA_MENU for v in vias], 'all')
    if not quick:
        how('via', 3, [(m, v, 'text') for m in VIA_MENU for v in ('inline', 'mac:@', 'mac:!@|"')], 'mid')
    # range openers / closers
    for n in (1, 2, 3):
        how('range', n, [(m, 'inline', 'text') for m in RANGE_MENU], 'mid')
    # entries in footnotes, captions, section titles and the preamble (and one written through a macro there)
    pitems = [(m, 'inline', pl) for m in PLACE_MENU for pl in PLACES] + [(5, 'mac:@', pl) for pl in PLACES[1:]]
    for n in (1, 2):
        how('place', n, pitems, 'all')
    if not quick:
        how('place', 3, [(m, 'inline', pl) for m in PLACE_MENU[:4] for pl in PLACES], 'mid')
    # column split: one letter group of m entries with every weight vector, more columns than entries included
    maxm = 6 if quick else 8
    for m in range(1, maxm + 1):
        for first in (1, 2, 3):
            blocks.append(('split', m, first, 3, tuple(range(1, maxm + 3)), marker))
        desc.append({'family': 'split', 'group_size': m, 'weights': '{1,2,3}^%d' % m, 'index_columns': [1, maxm + 2],
                     'documents': 3 ** m})
    return blocks, desc


def run(tier, seed, rep):
    state.pristine()
    M.uca()
    if not M.have_uca():
        rep.error('pyuca is not importable: no independent collation key for the strict oracle')
    marker = 'wq' + 'abcdefgh'[seed % 8]
    blocks, desc = plan(tier, marker)
    bounds = {'menu': [M.spell(s) for s in MENU], 'index_columns': [1, 2, 3, 4], 'vias': VIAS_ALL, 'places': PLACES,
              'plan': desc}
    total = sum(p['documents'] for p in desc)
    blocks = core.rotate(blocks, seed)
    core.merge_all(run_block, blocks, rep)
    floors = {'evaluations': total, 'has_subentry': 1000, 'has_sortkey': 1000, 'has_format': 1000,
              'merged_line': 500, 'strict_ok': 500, 'same_entry_macro_and_inline_merged': 50, 'macro_and_inline': 500,
              'place:footnote': 100, 'place:caption': 100, 'place:title': 100, 'place:preamble': 100,
              'documents:split': 1000, 'documents:range': 50}
    return {'exhaustive': True, 'bounds': bounds, 'blocks': len(blocks), 'planned_documents': total, 'floors': floors}
