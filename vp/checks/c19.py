"""
C19 -- ifthen tests evaluate as the boolean expression they spell.
Engine E1: every concrete-syntax tree  Expr ::= Unary | Expr (\\and|\\or) Unary ;
Unary ::= Atom | \\not Unary | \\( Expr \\)  up to a depth bound (so every placement of \\not and of
redundant parentheses up to that depth), leaves ranging over truth classes of a menu of real ifthen
atoms; plus the complete atom space on its own, all operator spellings, nested conditionals and
\\whiledo loops of 0..6 iterations.  Oracle: fold over the generated tree (vp/refs/c19_model.py).
"""
import os, re, signal, pickle, struct, contextlib, traceback
from vp import core, state
from vp.refs import c19_model as M

ID = 'C19'
LEVEL = 'exploration'
RULE = ('part T: all trees of the grammar Expr ::= Unary | Expr op Unary, Unary ::= Atom | \\not Unary | \\( Expr \\) '
        'with depth <= d (atom 0; \\not, group, binary +1) over leaf classes {integer comparison, truth-token macro} x '
        '{true, false} (A=4) or {true, false} (A=2); the atom spelling of a leaf, \\and/\\AND spelling and blank style '
        'rotate deterministically over the menus; part A: every atom of the atom space alone and under \\not; part P: every '
        'tree of depth <= 2 x every upper/lower-case assignment x 3 blank styles; part N: nested conditionals in both '
        'branches; part W: \\whiledo over all trees with loop-variant leaves x bound N = 0..6 (tests needing > 6 '
        'iterations are outside the bound), plain body; part B: the same with the four bodies that contain an \\ifthenelse '
        '(without / with \\( \\)) or an inner \\whiledo (ungrouped / grouped test); part F: every tree of depth <= 1 over 8 fixed leaves (tests ending in a literal, a macro, '
        '\\value, a truth macro) as \\ifthenelse with all 9 pairs of {marker, empty, side-effect-only} branches x 2 blank styles, and '
        'every loop test of depth <= 1 x N, each directly followed by: end of input, a digit, a macro expanding to a digit, a '
        'letter, the closing brace of a group whose local definition the body uses; counters read back afterwards. '
        'Blocks = index ranges (disjoint); each '
        'block runs in its own process, and a case that is wrong there but right alone is a violation whose replay case '
        'is the (delta-debugged) list of cases of that process that reproduces it from untouched state. A case is non-trivial unless its test is a '
        'single bare atom in parts T/P; distinct = distinct (part, tree, atoms, spelling); outcomes = distinct '
        '(operator skeleton, leaf truth values, observed text)')
ASSUMPTIONS = [
    'oracle = fold over the generated syntax tree with tightest \\not and equal-precedence left-to-right \\and/\\or; '
    'atom values from structured operand descriptions (integers; lengths in TeX scaled-point integer arithmetic)',
    'length pairs on which TeX integer arithmetic and exact rational arithmetic disagree (e.g. 1in vs 72.27pt, 2.54cm vs 1in) '
    'are outside the alphabet; font-relative units (em, ex) excluded',
    'length registers are assigned with the primitive form \\zzL=1in\\relax (plasTeX\'s \\setlength is a no-op, outside the anchor)',
    'visible text is compared with whitespace removed',
    'tree cases marked "session" (quick: the trees of depth exactly 3 over 4 leaf classes; thorough: all trees of depth <= 4 '
    'over 2 leaf classes) run as consecutive \\ifthenelse of one document per block, each observed on its own output '
    'fragment; after an exception or a timeout a new document is started.  All other cases get a fresh interpreter with '
    'class-level state restored (vp.state.reset)',
    'histories: a process forked from each block process before its first case re-runs, on request, a single case or a '
    'sub-list of the block\'s earlier cases from untouched state; a history-dependent violation is reported only after '
    'it was reproduced that way twice, otherwise it is a harness error',
]

WS = re.compile(r'\s+')

# ---------------------------------------------------------------------------
# documents
# ---------------------------------------------------------------------------
PRE_ITEMS = [
    ('zzc', '\\newcounter{zzc}\\setcounter{zzc}{3}'),
    ('zzd', '\\newcounter{zzd}\\setcounter{zzd}{-2}'),
    ('zzw', '\\newcounter{zzw}'),
    ('zzv', '\\newcounter{zzv}'),
    ('zzt', '\\newcounter{zzt}'),
    ('zze', '\\newcounter{zze}'),
    ('zzD', '\\def\\zzD{4}'),
    ('zzL', '\\newlength{\\zzL}\\zzL=1in\\relax '),
    ('zzA', '\\def\\zzA{7}'),
    ('zzN', '\\newcommand{\\zzN}{-2}'),
    ('zzS', '\\def\\zzS{ab}'),
    ('zzE', '\\def\\zzE{}'),
    ('zzbt', '\\newboolean{zzbt}\\setboolean{zzbt}{true}'),
    ('zzbf', '\\newboolean{zzbf}\\setboolean{zzbf}{false}'),
    ('zzbp', '\\provideboolean{zzbp}'),
    ('zzbx', '\\newboolean{zzbx}\\setboolean{zzbx}{TRUE}'),
    ('zzby', '\\newboolean{zzby}\\setboolean{zzby}{true}\\setboolean{zzby}{False}'),
]
PRE_ALL = ''.join(v for _, v in PRE_ITEMS)
_NAME = re.compile(r'zz[A-Za-z]+')


def preamble_for(text):
    """Only the definitions the test mentions (keeps a document at ~3 ms)."""
    need = set(_NAME.findall(text))
    return ''.join(v for k, v in PRE_ITEMS if k in need)


def ite_body(test, tag=''):
    return ('\\def\\zzX{}\\def\\zzY{}wqa%s\\ifthenelse{%s}{wqt%s\\def\\zzX{wqx}}{wqe%s\\def\\zzY{wqy}}wqz%s\\zzX\\zzY'
            % (tag, test, tag, tag, tag))


def ite_text(v, tag=''):
    return ('wqa%swqt%swqz%swqx' if v else 'wqa%swqe%swqz%swqy') % (tag, tag, tag)


# loop bodies (part B): (text, visible text of round c).  0 is the plain body of part W; the others contain a
# conditional or a loop of their own -- constructs that touch the same class-level "\( \) mean grouping" switch.
BODIES = [
    ('wqb', lambda c: 'wqb'),
    ('\\ifthenelse{\\isodd{\\value{zzw}}}{wqo}{wqv}', lambda c: 'wqo' if c % 2 else 'wqv'),
    ('\\ifthenelse{\\( \\isodd{\\value{zzw}} \\) \\and \\not \\( 2<1 \\)}{wqo}{wqv}', lambda c: 'wqo' if c % 2 else 'wqv'),
    ('\\setcounter{zzv}{0}\\whiledo{\\value{zzv}<2}{wqi\\stepcounter{zzv}}', lambda c: 'wqiwqi'),
    ('\\setcounter{zzv}{0}\\whiledo{\\( \\value{zzv}<2 \\)}{wqi\\stepcounter{zzv}}', lambda c: 'wqiwqi'),
]


def loop_body(test, kind=0):
    return ('\\setcounter{zzw}{0}wqa\\whiledo{%s}{%s\\stepcounter{zzw}}wqz\\arabic{zzw}' % (test, BODIES[kind][0]))


def loop_text(k, kind=0):
    return 'wqa' + ''.join(BODIES[kind][1](c) for c in range(k)) + 'wqz%d' % k


class HardTimeout(BaseException):
    """Not an Exception: plasTeX's `except Exception` / logging handlers must not be able to absorb it."""


_ARMED = False


def _tick(signum, frame):
    if _ARMED:
        raise HardTimeout()


def _disarm():
    """Idempotent; retried when a late tick lands inside it (otherwise the timer would stay armed)."""
    global _ARMED
    while True:
        try:
            _ARMED = False
            signal.setitimer(signal.ITIMER_PROF, 0)
            signal.setitimer(signal.ITIMER_REAL, 0)
            return
        except HardTimeout:
            continue


@contextlib.contextmanager
def time_limit(seconds):
    """Raise HardTimeout after `seconds` of CPU time of this process (a loaded machine is not an endless loop), and
    again after every further 0.5 s of CPU time until the block is left: a timeout that is swallowed somewhere (bare
    except, __del__, generator cleanup) cannot turn an endless loop into a hung worker.  Wall-clock backstop at 40x."""
    global _ARMED
    signal.signal(signal.SIGPROF, _tick)
    signal.signal(signal.SIGALRM, _tick)
    try:
        _ARMED = True
        signal.setitimer(signal.ITIMER_PROF, seconds, 0.5)
        signal.setitimer(signal.ITIMER_REAL, seconds * 40, 5.0)
        yield
    finally:
        _disarm()


def new_tex():
    from plasTeX.TeX import TeX
    state.reset()
    tex = TeX()
    ctx = tex.ownerDocument.context
    ctx.warnOnUnrecognized = False
    ctx.loadPackage(tex, 'ifthen')
    return tex


def observe(src, limit=20.0, counters=()):
    """Process `src` as a fresh document with the ifthen package loaded.
    -> visible text without whitespace [+ '#' + final values of `counters`] | 'raises:<Type>' | 'timeout'"""
    try:
        try:
            with time_limit(limit):
                tex = new_tex()
                tex.input(src)
                doc = tex.parse()
                out = WS.sub('', doc.textContent)
                if counters:
                    cs = tex.ownerDocument.context.counters
                    out += '#' + ','.join(str(int(cs[c].value)) for c in counters)
                return out
        finally:
            _disarm()
    except HardTimeout:
        return 'timeout'
    except Exception as e:
        return 'raises:%s' % type(e).__name__


class Session(object):
    """Consecutive conditionals of one document, each observed on its own output fragment ("session" tree blocks)."""
    MAX_CASES = 4000

    def __init__(self):
        self.tex = None
        self.n = 0

    def start(self):
        tex = new_tex()
        tex.input(PRE_ALL)
        tex.parse()
        self.tex = tex
        self.depth = len(tex.ownerDocument.context.contexts)
        self.n = 0

    def run(self, body, limit=20.0):
        if self.tex is None or self.n >= self.MAX_CASES:
            self.start()
        self.n += 1
        tex = self.tex
        try:
            try:
                with time_limit(limit):
                    tex.input(body)
                    frag = tex.ownerDocument.createDocumentFragment()
                    tex.parse(frag)
                    return WS.sub('', frag.textContent)
            finally:
                _disarm()
        except HardTimeout:
            self.tex = None
            return 'timeout'
        except Exception as e:
            self.tex = None             # a real document would have ended here: the next case starts a new one
            return 'raises:%s' % type(e).__name__


# ---------------------------------------------------------------------------
# cases
# ---------------------------------------------------------------------------
def totuple(x):
    if isinstance(x, (list, tuple)):
        return tuple(totuple(v) for v in x)
    return x


def positional(t):
    """Same tree with leaves renumbered 0..k-1 in spelling order; also returns the original leaf ids."""
    ids = []

    def walk(n):
        k = n[0]
        if k == 'a':
            ids.append(n[1])
            return ('a', len(ids) - 1)
        if k in 'ng':
            return (k, walk(n[1]))
        l = walk(n[2])
        return ('b', n[1], l, walk(n[3]))
    return walk(t), ids


def case_test(case):
    """(tree, atoms, test text)"""
    tree = totuple(case['tree'])
    atoms = totuple(case['atoms'])
    style = case.get('style', 0)
    txt = M.spell(M.tokens(tree), lambda i: M.atom_text(atoms[i], style), case.get('upper', 0), style)
    return tree, atoms, txt


def predict(case, dev=0):
    """Predicted observation of the case under the deviation set `dev` (0 = the property's statement)."""
    tree, atoms, _ = case_test(case)
    toks = M.tokens(tree)
    part = case['part']
    if part == 'F':
        if case['kind'] == 'ite':
            return follower_text(case, M.value(tree, lambda i: M.atom_value(atoms[i])))
        k = M.loop_iterations(lambda c: M.value(tree, lambda i: M.atom_value(atoms[i], 0, loopvar=c)))
        return 'timeout' if k is None else follower_text(case, k)
    if part in 'WB':
        def evaluate(c):
            lv = lambda i: M.atom_value(atoms[i], dev, loopvar=c)
            if dev & (M.D_NOT_INFIX | M.D_WHILE_GROUP):
                return M.machine(toks, lv, dev)
            return M.value(tree, lv)
        k = M.loop_iterations(evaluate, cap=case.get('cap', M.LOOP_CAP))
        if k is None:
            return 'timeout'
        if isinstance(k, tuple):
            return 'raises:IndexError'
        return loop_text(k, case.get('body', 0))
    lv = lambda i: M.atom_value(atoms[i], dev)
    if dev & M.D_NOT_INFIX:
        v = M.machine(toks, lv, dev)
        if v == M.UNDERFLOW:
            return 'raises:IndexError'
    else:
        v = M.value(tree, lv)
    if part == 'N':
        itree, iatoms = totuple(case['inner_tree']), totuple(case['inner_atoms'])
        ilv = lambda i: M.atom_value(iatoms[i], dev)
        if dev & M.D_NOT_INFIX:
            iv = M.machine(M.tokens(itree), ilv, dev)
            if iv == M.UNDERFLOW:
                return 'raises:IndexError'
        else:
            iv = M.value(itree, ilv)
        return nested_text(v, iv)
    return ite_text(v)


# part F: what directly follows the construct (no blank in between), and what the branches are made of.
# (spelling, visible text); the last entry is "the closing brace of a group whose local definition the body uses"
FOLLOWERS = [('', ''), ('3', '3'), ('\\zzD ', '4'), ('k', 'k'), None]     # the blank ends the macro name
BRANCH_KINDS = 'mes'            # marker word / empty / side effect only (\stepcounter)
F_ATOMS = [('int', ('lit', 1), '<', ('lit', 2)), ('int', ('lit', 2), '<', ('lit', 1)),
           ('int', ('lit', 6), '<', ('mac', 'zzA')), ('int', ('lit', 9), '<', ('mac', 'zzA')),
           ('int', ('lit', 2), '<', ('val', 'zzc')), ('int', ('lit', 5), '<', ('val', 'zzc')),
           ('isodd', ('lit', 3)), ('isodd', ('lit', 2))]


def _branch(kind, marker, counter, grouped):
    if kind == 'm':
        return marker + ('\\zzG' if grouped else ''), marker + ('wqg' if grouped else ''), 0
    if kind == 's':
        return '\\stepcounter{%s}' % counter, '', 1
    return '', '', 0


def follower_doc(case, test):
    """(document body, counters observed through the API)"""
    grouped = FOLLOWERS[case['follow']] is None
    if case['kind'] == 'ite':
        cons = '\\ifthenelse{%s}{%s}{%s}' % (test, _branch(case['then'], 'wqt', 'zzt', grouped)[0],
                                            _branch(case['else'], 'wqe', 'zze', grouped)[0])
        counters = ('zzt', 'zze')
    else:
        cons = '\\whiledo{%s}{wqb%s\\stepcounter{zzw}}' % (test, '\\zzG' if grouped else '')
        counters = ('zzw',)
    if grouped:
        return 'wqa{\\def\\zzG{wqg}%s}wqh' % cons, counters
    f = FOLLOWERS[case['follow']][0]
    return 'wqa' + cons + f + ('wqz' if f else ''), counters


def follower_text(case, v):
    """expected observation; v = value of the test (ite) / number of rounds (loop)"""
    grouped = FOLLOWERS[case['follow']] is None
    if grouped:
        tail = 'wqh'
    else:
        f = FOLLOWERS[case['follow']]
        tail = f[1] + ('wqz' if f[0] else '')
    if case['kind'] == 'ite':
        t = _branch(case['then'], 'wqt', 'zzt', grouped)
        e = _branch(case['else'], 'wqe', 'zze', grouped)
        return 'wqa' + (t[1] if v else e[1]) + tail + '#%d,%d' % (t[2] if v else 0, 0 if v else e[2])
    return 'wqa' + ('wqb' + ('wqg' if grouped else '')) * v + tail + '#%d' % v


def nested_body(test, inner):
    return ('wqa\\ifthenelse{%s}{wqt\\ifthenelse{%s}{wqi}{wqj}wqu}{wqe\\ifthenelse{%s}{wqk}{wql}wqf}wqz'
            % (test, inner, inner))


def nested_text(v, iv):
    if v:
        return 'wqawqt' + ('wqi' if iv else 'wqj') + 'wquwqz'
    return 'wqawqe' + ('wqk' if iv else 'wql') + 'wqfwqz'


def case_source(case, full_preamble=False):
    _, _, test = case_test(case)
    part = case['part']
    if part == 'F':
        body = follower_doc(case, test)[0]
        return preamble_for(body + (' zzt zze' if case['kind'] == 'ite' else '')) + body
    if part in 'WB':
        body = loop_body(test, case.get('body', 0))
    elif part == 'N':
        itree, iatoms = totuple(case['inner_tree']), totuple(case['inner_atoms'])
        inner = M.spell(M.tokens(itree), lambda i: M.atom_text(iatoms[i], 0), 0, 0)
        body = nested_body(test, inner)
    else:
        body = ite_body(test)
    return (PRE_ALL if full_preamble else preamble_for(body)) + body


_LOOP_DEVS = (M.D_NOT_INFIX, M.D_WHILE_GROUP, M.D_LEN_FLOAT)
APPLICABLE = {'W': _LOOP_DEVS, 'B': _LOOP_DEVS, 'F': ()}
DEFAULT_APPLICABLE = (M.D_NOT_INFIX, M.D_LEN_FLOAT)


def dev_sets(part):
    bits = APPLICABLE.get(part, DEFAULT_APPLICABLE)
    out = []
    for mask in range(1, 1 << len(bits)):
        d = 0
        for i, b in enumerate(bits):
            if mask >> i & 1:
                d |= b
        out.append(d)
    out.sort(key=lambda d: (bin(d).count('1'), d))
    return out


def classify(case, obs):
    """-> (verdict, fids, expected)   verdict 'ok' | 'known' | 'violation'"""
    exp = predict(case, 0)
    if obs == exp:
        return 'ok', [], exp
    for d in dev_sets(case['part']):
        if predict(case, d) == obs:
            return 'known', [M.DEV_NAMES[b] for b in sorted(M.DEV_NAMES) if d & b], exp
    return 'violation', [], exp


def limit_for(case):
    return 1.0 if case['part'] in 'WB' or case.get('kind') == 'loop' else 20.0


CONFIRM_LIMIT = 4.0


def observe_case(case, full_preamble=False):
    """Observation of a case in a fresh document.  A loop that hits the short limit is run again with a long
    one, so that a busy machine is not mistaken for an endless loop."""
    src = case_source(case, full_preamble)
    counters = follower_doc(case, '')[1] if case['part'] == 'F' else ()
    obs = observe(src, limit_for(case), counters)
    if obs == 'timeout' and limit_for(case) < CONFIRM_LIMIT:
        obs = observe(src, CONFIRM_LIMIT, counters)
    return obs


# ---------------------------------------------------------------------------
# histories: what one process did before a case
# ---------------------------------------------------------------------------
def run_step(mode, case, session):
    """Observation of one case in this process: as the next conditional of the running document ('session')
    or as a fresh document with class-level state restored ('isolated')."""
    if mode == 'session':
        return session.run(ite_body(case_test(case)[2]), limit_for(case))
    return observe_case(case)


def run_history(mode, steps):
    """Observations of `steps` executed in this order in this process."""
    session = Session() if mode == 'session' else None
    return [run_step(mode, c, session) for c in steps]


def history_source(mode, steps):
    bodies = [ite_body(case_test(c)[2]) if mode == 'session' else case_source(c) for c in steps]
    if mode == 'session':
        return PRE_ALL + '\n'.join(bodies)
    return '\n%% ---- next document, same process ----\n'.join(bodies)


def replay(case):
    """run.py calls this in a process forked from the never-used parent, i.e. with no history of its own."""
    if case['part'] == 'H':
        steps = case['steps']
        obs_all = run_history(case['mode'], steps)
        last, obs = steps[-1], obs_all[-1]
        src = history_source(case['mode'], steps)
    else:
        last = case
        src = case_source(case)
        obs = observe_case(case)
    v, fids, exp = classify(last, obs)
    res = {'verdict': v, 'expected': exp, 'observed': obs, 'input': src, 'detail': ''}
    if v == 'known':
        f = core.Findings()
        notopen = [x for x in fids if not f.is_open(x)]
        res['fid'] = (notopen or fids)[0]
        res['fids'] = fids
        res['detail'] = 'observation equals the oracle with deviation(s) %s switched on' % ', '.join(fids)
    elif v == 'violation':
        res['detail'] = VIOLATION_TEXT if case['part'] != 'H' else HISTORY_TEXT % (len(case['steps']) - 1)
    return res


VIOLATION_TEXT = 'branch / iteration count differs from the value of the expression tree'
HISTORY_TEXT = ('the last test evaluates wrongly after the %d preceding one(s) were processed in the same process, although it '
                'evaluates correctly on its own: the value of a test depends on what was evaluated before')


class Zygote(object):
    """A process forked from the block's process before it has run anything.  On request it forks a child that
    executes a history (a list of cases) from that untouched state and reports the observations: the only way to
    ask "what does this case do alone / after exactly these cases" from inside a process that already has a past."""

    def __init__(self):
        req_r, req_w = os.pipe()
        res_r, res_w = os.pipe()
        pid = os.fork()
        if pid == 0:
            try:
                keep = (req_r, res_w)
                for fd in range(3, 1024):
                    if fd not in keep:
                        try:
                            os.close(fd)
                        except OSError:
                            pass
                self._serve(os.fdopen(req_r, 'rb'), res_w)
            finally:
                os._exit(0)
        os.close(req_r)
        os.close(res_w)
        self.pid = pid
        self.wf = os.fdopen(req_w, 'wb')
        self.rf = os.fdopen(res_r, 'rb')
        self.calls = 0

    @staticmethod
    def _serve(rf, res_w):
        while True:
            try:
                mode, steps = pickle.load(rf)
            except EOFError:
                return
            r, w = os.pipe()
            g = os.fork()
            if g == 0:
                code = 0
                try:
                    os.close(r)
                    try:
                        out = ('ok', run_history(mode, steps))
                    except BaseException:
                        out = ('exc', traceback.format_exc())
                    with os.fdopen(w, 'wb') as f:
                        pickle.dump(out, f)
                except BaseException:
                    code = 3
                finally:
                    os._exit(code)
            os.close(w)
            data = b''
            while True:
                chunk = os.read(r, 1 << 16)
                if not chunk:
                    break
                data += chunk
            os.close(r)
            os.waitpid(g, 0)
            os.write(res_w, struct.pack('<Q', len(data)))
            view = memoryview(data)
            while view:
                n = os.write(res_w, view)
                view = view[n:]

    def observe(self, mode, steps):
        """List of observations of `steps` run from untouched state; raises RuntimeError on harness trouble."""
        self.calls += 1
        pickle.dump((mode, steps), self.wf)
        self.wf.flush()
        head = self.rf.read(8)
        if len(head) < 8:
            raise RuntimeError('history process went away')
        n = struct.unpack('<Q', head)[0]
        data = self.rf.read(n)
        if not n or len(data) < n:
            raise RuntimeError('history child died without a result')
        st, out = pickle.loads(data)
        if st != 'ok':
            raise RuntimeError('history child failed: %s' % out)
        return out

    def close(self):
        try:
            self.wf.close()
            self.rf.close()
            os.waitpid(self.pid, 0)
        except Exception:
            pass


def ddmin(items, fails, budget):
    """Zeller's delta debugging: a sublist of `items` (order kept) for which fails() still holds; every reduction it
    keeps was observed to fail, so the result is valid whenever the search stops (budget = max calls of fails)."""
    n = 2
    calls = [0]

    def test(sub):
        calls[0] += 1
        return fails(sub)
    while len(items) >= 2 and calls[0] < budget:
        size = -(-len(items) // n)
        chunks = [items[i:i + size] for i in range(0, len(items), size)]
        reduced = False
        for ch in chunks:
            if calls[0] >= budget:
                break
            if test(ch):
                items, n, reduced = ch, 2, True
                break
        if not reduced and len(chunks) > 2:
            for i in range(len(chunks)):
                if calls[0] >= budget:
                    break
                comp = [x for j, ch in enumerate(chunks) if j != i for x in ch]
                if test(comp):
                    items, n, reduced = comp, max(n - 1, 2), True
                    break
        if not reduced:
            if n >= len(items):
                break
            n = min(len(items), n * 2)
    if len(items) == 1 and calls[0] < budget and test([]):
        items = []
    return items


# ---------------------------------------------------------------------------
# leaf menus and rotation
# ---------------------------------------------------------------------------
_MENU = None


def menus():
    """A=4: class index -> atoms (cmpT, cmpF, tokT, tokF); A=2: (T, F) with comparison and macro atoms interleaved."""
    global _MENU
    if _MENU is None:
        m = M.tree_menu()
        four = [m[('cmp', True)], m[('cmp', False)], m[('tok', True)], m[('tok', False)]]

        def inter(a, b):
            out = []
            for i in range(max(len(a), len(b))):
                if i < len(a):
                    out.append(a[i])
                if i < len(b):
                    out.append(b[i])
            return out
        two = [inter(m[('cmp', True)], m[('tok', True)]), inter(m[('cmp', False)], m[('tok', False)])]
        _MENU = {4: four, 2: two}
    return _MENU


def pick_atoms(nleaf, ids, idx, seed):
    menu = menus()[nleaf]
    out = []
    for pos, cls in enumerate(ids):
        lst = menu[cls]
        out.append(lst[(idx * 3 + pos * 5 + seed) % len(lst)])
    return out


def loop_leaves(N, nleaf, idx, seed):
    """leaf menu of the \\whiledo part for bound N"""
    m = menus()[2]
    t = m[0][(idx + seed) % len(m[0])]
    f = m[1][(idx + seed) % len(m[1])]
    lt = ('int', ('loop',), '<', ('lit', N))
    eq = ('int', ('loop',), '=', ('lit', N))
    gt = ('int', ('lit', N), '>', ('loop',))
    odd = ('isodd', ('loop',))
    if nleaf == 3:
        return [lt, eq, t]
    return [lt, gt, eq, odd, t, f]


_SK = {'and': '&', 'or': '|', 'not': '!', '(': '(', ')': ')'}


def skeleton(tree):
    return ''.join(_SK[tk] if isinstance(tk, str) else 'a' for tk in M.tokens(tree))


# ---------------------------------------------------------------------------
# blocks
# ---------------------------------------------------------------------------
def iter_section(nleaf, depth, section, lo, hi):
    """(global index, tree) for the trees of one block (depth >= 1).  section 'U': the unary trees
    U_depth[lo:hi] = atoms + not(U_{depth-1}) + group(E_{depth-1}); 'and' / 'or': binary trees whose left
    operand is E_{depth-1}[lo:hi], each paired with every right operand in U_{depth-1}."""
    E1, U1 = M.levels(nleaf, depth - 1)
    usize = nleaf + len(U1) + len(E1)
    if section == 'U':
        for i in range(lo, hi):
            if i < nleaf:
                yield i, ('a', i)
            elif i < nleaf + len(U1):
                yield i, ('n', U1[i - nleaf])
            else:
                yield i, ('g', E1[i - nleaf - len(U1)])
        return
    base = usize + (0 if section == 'and' else len(E1) * len(U1))
    for li in range(lo, hi):
        l = E1[li]
        for ri, r in enumerate(U1):
            yield base + li * len(U1) + ri, ('b', section, l, r)


def tree_blocks(tag, nleaf, depth, extra, target):
    """Partition of levels(nleaf, depth)[0] into blocks of about `target` cases."""
    blocks = []
    ne, nu = M.count(nleaf, depth - 1)
    usize = nleaf + nu + ne
    for lo in range(0, usize, target):
        blocks.append((tag, nleaf, depth, 'U', lo, min(usize, lo + target)) + extra)
    step = max(1, target // nu)
    for op in ('and', 'or'):
        for lo in range(0, ne, step):
            blocks.append((tag, nleaf, depth, op, lo, min(ne, lo + step)) + extra)
    return blocks


class Block(object):
    """What a block's process needs besides the Report: how cases are run, what it has run so far, and the
    untouched twin process that can re-run any history."""

    def __init__(self, mode='isolated'):
        self.mode = mode
        self.session = Session() if mode == 'session' else None
        self.history = []
        self.zygote = Zygote()
        self.stop = False


def judge_candidate(rep, blk, case, obs, exp):
    """A case whose observation in this process is wrong.  Alone in an untouched process it is either wrong as well
    (plain violation, replayable from the case) or right -- then the wrong answer is due to what this process did
    before, which is a violation too: the replay case is the shortest history found that reproduces it."""
    zy = blk.zygote

    def bad(o):
        return classify(case, o)[0] == 'violation'
    alone = zy.observe(blk.mode, [case])[-1]
    if bad(alone):
        rep.violation(case, exp, alone, VIOLATION_TEXT)
        return
    before = blk.history[:-1]

    def fails(sub):
        return bad(zy.observe(blk.mode, sub + [case])[-1])
    blk.stop = True                     # this process is tainted; later failures in it would say nothing new
    if not fails(before):
        rep.error('case %s is wrong in its block process (%s), right alone (%s) and right when the block history of %d '
                  'cases is re-run from untouched state: not reproducible' % (case, obs, alone, len(before)))
        return
    steps = ddmin(before, fails, budget=60) + [case]
    if not (fails(steps[:-1]) and fails(steps[:-1])):
        steps = before + [case]
    rep.count('history_dependent')
    rep.violation({'part': 'H', 'mode': blk.mode, 'steps': steps}, exp, obs, HISTORY_TEXT % (len(steps) - 1))


def run_case(rep, blk, case, nontrivial=True):
    """Run one case in this block's process, judge it, record it."""
    tree, atoms, _ = case_test(case)
    exp = predict(case, 0)
    obs = run_step(blk.mode, case, blk.session)
    blk.history.append(case)
    truth = tuple(M.atom_value(a, 0, loopvar=0) for a in atoms)
    rep.case(key=core.h64(repr(sorted(case.items()))), nontrivial=nontrivial,
             outcome=((case['part'], skeleton(tree), truth, case.get('N'), case.get('body')), obs))
    if obs == exp:
        return obs, 'ok'
    v, fids, exp = classify(case, obs)
    if v == 'known':
        for f in fids:
            rep.known_finding(f, case, 'expected %s, observed %s' % (exp, obs))
        rep.count('known_' + ('raises' if obs.startswith('raises') else obs if obs == 'timeout' else 'wrong_value'))
    else:
        judge_candidate(rep, blk, case, obs, exp)
    return obs, v


CUT = 4             # a block that already holds this many violation candidates stops (the run fails anyway)
STOP_AFTER = 40     # ... and once this many were seen in the whole run the remaining blocks are skipped
_STOP = None        # multiprocessing.Value shared through fork


def run_block(block):
    """Each block runs in a process forked for it: plasTeX keeps every processed document alive (about 150 kB per
    fresh interpreter, also after gc.collect()), which would add up to > 1 GB per long-lived pool worker."""
    st, res = core.run_isolated(_block_child, block, timeout=6 * 3600)
    if st != 'ok':
        raise RuntimeError('block %r failed in its child process: %s %s' % (block, st, res))
    return res


def _block_child(block):
    rep = core.Report()
    if _STOP is not None and _STOP.value >= STOP_AFTER:
        rep.count('blocks_skipped_after_violations')
        return rep.close_block()
    blk = Block('session' if block[0] == 'T' and block[6] == 'session' else 'isolated')
    try:
        _run_block(block, rep, blk)
    finally:
        blk.zygote.close()
    if _STOP is not None and rep.nviolations:
        with _STOP.get_lock():
            _STOP.value += rep.nviolations
    return rep.close_block()


def cut(rep, blk):
    if blk.stop or rep.nviolations >= CUT:
        rep.count('block_cut_short_after_violations')
        return True
    return False


def _run_block(block, rep, blk):
    tag = block[0]
    if tag == 'A':
        _, lo, hi, seed = block
        atoms, _ = M.all_atoms()
        for i in range(lo, hi):
            a = atoms[i]
            for neg in (0, 1):
                tree = ('n', ('a', 0)) if neg else ('a', 0)
                case = {'part': 'A', 'tree': tree, 'atoms': [a], 'upper': (i + seed) & 1 if neg else 0,
                        'style': (i + neg + seed) % 3}
                obs, v = run_case(rep, blk, case)
                rep.count('atom_' + a[0])
                rep.count('atom_true' if M.atom_value(a) else 'atom_false')
                if i % 600 == 1 and neg:
                    rep.sample({'input': case_source(case), 'observed': obs})
            if cut(rep, blk):
                return
    elif tag == 'P':
        _, lo, hi, seed = block
        E = M.levels(2, 2)[0]
        for i in range(lo, hi):
            tree, ids = positional(E[i])
            atoms = pick_atoms(2, ids, i, seed)
            nops = M.n_operators(M.tokens(tree))
            for upper in range(1 << nops):
                for style in (0, 1, 2):
                    case = {'part': 'P', 'tree': tree, 'atoms': atoms, 'upper': upper, 'style': style}
                    run_case(rep, blk, case, nontrivial=tree[0] != 'a')
                    rep.count('spelling_cases')
            if cut(rep, blk):
                return
    elif tag == 'N':
        _, lo, hi, seed = block
        E = M.levels(2, 1)[0]
        for i in range(lo, hi):
            tree, ids = positional(E[i])
            atoms = pick_atoms(2, ids, i, seed)
            for j, inner in enumerate(E):
                itree, iids = positional(inner)
                iatoms = pick_atoms(2, iids, i + j + 1, seed)
                case = {'part': 'N', 'tree': tree, 'atoms': atoms, 'inner_tree': itree, 'inner_atoms': iatoms,
                        'upper': 0, 'style': 0}
                run_case(rep, blk, case)
                rep.count('nested_cases')
                if cut(rep, blk):
                    return
    elif tag == 'T':
        _, nleaf, depth, section, lo, hi, mode, min_depth, seed = block
        for idx, t in iter_section(nleaf, depth, section, lo, hi):
            if min_depth and M.depth_of(t) < min_depth:
                continue                # enumerated by the isolated blocks of the same leaf classes
            tree, ids = positional(t)
            atoms = pick_atoms(nleaf, ids, idx, seed)
            nops = M.n_operators(M.tokens(tree))
            upper = (core.h64((idx, seed)) >> 8) & ((1 << nops) - 1) if (idx + seed) % 3 else 0
            case = {'part': 'T', 'tree': tree, 'atoms': atoms, 'upper': upper, 'style': (idx + seed) % 3}
            obs, v = run_case(rep, blk, case, nontrivial=t[0] != 'a')
            if cut(rep, blk):
                return
            for f in M.features(t):
                rep.count('shape_' + f)
            rep.count('depth_%d' % M.depth_of(t))
            rep.count('then_taken' if 'wqt' in obs else 'else_taken' if 'wqe' in obs else 'no_branch')
            if idx % 20011 == 7:
                rep.sample({'input': case_source(case), 'observed': obs})
    elif tag == 'W':
        _, nleaf, depth, section, lo, hi, N, bodies, min_depth, seed = block
        for idx, t in iter_section(nleaf, depth, section, lo, hi):
            if min_depth and M.depth_of(t) < min_depth:
                continue
            tree, ids = positional(t)
            menu = loop_leaves(N, nleaf, idx, seed)
            atoms = [menu[c] for c in ids]
            nops = M.n_operators(M.tokens(tree))
            for kind in bodies:
                case = {'part': 'B' if kind else 'W', 'tree': tree, 'atoms': atoms, 'N': N,
                        'upper': (core.h64((idx, N, seed)) >> 8) & ((1 << nops) - 1) if (idx + N + seed) % 2 else 0,
                        'style': (idx + N + seed) % 3}
                if kind:
                    case['body'] = kind
                exp = predict(case, 0)
                if exp == 'timeout':
                    rep.count('loop_excluded_more_than_6_iterations')
                    continue
                obs, v = run_case(rep, blk, case)
                if cut(rep, blk):
                    return
                rep.count('loop_iterations_%s' % exp.rsplit('wqz', 1)[1])
                rep.count('loop_body_%d' % kind)
                if kind and 'g' in skeleton_kinds(tree):
                    rep.count('grouped_test_with_nested_body')
                for f in M.features(t):
                    rep.count('loopshape_' + f)
                if idx % 4001 == 5 or (kind and idx % 997 == 3):
                    rep.sample({'input': case_source(case), 'observed': obs})
    elif tag == 'F':
        _, kind, N, lo, hi, seed = block
        E = M.levels(8 if kind == 'ite' else 6, 1)[0]
        for i in range(lo, hi):
            tree, ids = positional(E[i])
            nops = M.n_operators(M.tokens(tree))
            if kind == 'ite':
                atoms = [F_ATOMS[c] for c in ids]
                styles = [(t, e, sp) for t in BRANCH_KINDS for e in BRANCH_KINDS for sp in (0, 1)]
            else:
                menu = loop_leaves(N, 6, i, seed)
                atoms = [menu[c] for c in ids]
                styles = [('m', 'm', (i + N + seed) % 2)]
            for follow in range(len(FOLLOWERS)):
                for t, e, sp in styles:
                    case = {'part': 'F', 'kind': kind, 'tree': tree, 'atoms': atoms, 'follow': follow, 'style': sp,
                            'upper': (core.h64((i, N, follow, seed)) >> 8) & ((1 << nops) - 1) if (i + follow + seed) % 2 else 0}
                    if kind == 'ite':
                        case['then'], case['else'] = t, e
                    else:
                        case['N'] = N
                    exp = predict(case, 0)
                    if exp == 'timeout':
                        rep.count('loop_excluded_more_than_6_iterations')
                        continue
                    obs, v = run_case(rep, blk, case)
                    if cut(rep, blk):
                        return
                    rep.count('follower_%d_%s' % (follow, kind))
                    if kind == 'ite':
                        taken = t if 'wqt' in exp or exp.endswith('#1,0') or (exp.endswith('#0,0') and M.value(
                            tree, lambda j: M.atom_value(atoms[j]))) else e
                        rep.count('selected_branch_' + {'m': 'marker', 'e': 'empty', 's': 'side_effect_only'}[taken])
                    if (i * 7 + follow) % 211 == 3 and t == 'e':
                        rep.sample({'input': case_source(case), 'observed': obs})
    else:
        raise ValueError(block)


def skeleton_kinds(tree):
    k = tree[0]
    if k == 'a':
        return 'a'
    if k in 'ng':
        return k + skeleton_kinds(tree[1])
    return 'b' + skeleton_kinds(tree[2]) + skeleton_kinds(tree[3])


def run(tier, seed, rep):
    state.pristine()
    quick = tier == 'quick'
    M.levels(4, 2), M.levels(2, 3 if not quick else 2), M.levels(6, 1), M.levels(3, 2), M.levels(3, 1), M.levels(8, 1)    # built once, inherited by fork
    menus()
    blocks = []
    natoms = len(M.all_atoms()[0])
    for lo in range(0, natoms, 40):
        blocks.append(('A', lo, min(natoms, lo + 40), seed))
    nP = len(M.levels(2, 2)[0])
    for lo in range(0, nP, 10):
        blocks.append(('P', lo, min(nP, lo + 10), seed))
    nN = len(M.levels(2, 1)[0])
    for lo in range(nN):
        blocks.append(('N', lo, lo + 1, seed))
    bounds = {'atoms_alone_and_negated': natoms,
              'length_pairs_outside_alphabet': len(M.all_atoms()[1]),
              'spelling_product': {'leaf_classes': 2, 'depth': 2, 'trees': nP},
              'nested': {'outer_trees': nN, 'inner_trees': nN}}
    # part T: "isolated" = one fresh document per case; "session" = consecutive conditionals of one document
    iso_depth = 2 if quick else 3
    blocks += tree_blocks('T', 4, iso_depth, ('isolated', 0, seed), 600)
    bounds['trees_isolated'] = {'leaf_classes': 4, 'depth': '<= %d' % iso_depth, 'trees': M.count(4, iso_depth)[0]}
    if quick:
        blocks += tree_blocks('T', 4, 3, ('session', 3, seed), 600)
        bounds['trees_session'] = {'leaf_classes': 4, 'depth': '= 3', 'trees': M.count(4, 3)[0] - M.count(4, 2)[0]}
    else:
        blocks += tree_blocks('T', 2, 4, ('session', 0, seed), 6000)
        bounds['trees_session'] = {'leaf_classes': 2, 'depth': '<= 4', 'trees': M.count(2, 4)[0]}
    # part W (plain body) and part B (bodies with a conditional / a loop of their own)
    nested = (1, 2, 3, 4)
    wcfg = [(6, 2, (0,), 0), (6, 1, nested, 0), (3, 2, nested, 2)] if quick else \
        [(6, 2, (0,), 0), (3, 3, (0,), 0), (6, 2, nested, 0)]
    bounds['whiledo'] = []
    for nleaf, depth, bodies, min_depth in wcfg:
        for N in range(0, 7):
            blocks += tree_blocks('W', nleaf, depth, (N, bodies, min_depth, seed), 400 // len(bodies))
        trees = M.count(nleaf, depth)[0] - (M.count(nleaf, min_depth - 1)[0] if min_depth else 0)
        bounds['whiledo'].append({'leaf_menu': nleaf, 'depth': ('= %d' if min_depth else '<= %d') % depth, 'trees': trees,
                                  'bodies': list(bodies), 'bound_N': '0..6', 'max_iterations': M.LOOP_CAP})
    # part F: followers and branch alphabet
    nF = len(M.levels(8, 1)[0])
    for lo in range(0, nF, 4):
        blocks.append(('F', 'ite', 0, lo, min(nF, lo + 4), seed))
    nL = len(M.levels(6, 1)[0])
    for N in range(0, 7):
        for lo in range(0, nL, 45):
            blocks.append(('F', 'loop', N, lo, min(nL, lo + 45), seed))
    bounds['followers'] = {'followers': ['end of input', 'digit', 'macro expanding to a digit', 'letter',
                                         'closing brace of a group whose local definition the body uses'],
                           'conditional': {'trees': nF, 'depth': '<= 1', 'leaves': len(F_ATOMS),
                                           'branch_kinds': 'marker/empty/side-effect-only, all 9 pairs', 'blank_styles': 2},
                           'loop': {'trees': nL, 'depth': '<= 1', 'leaf_menu': 6, 'bound_N': '0..6'}}
    blocks = core.rotate(blocks, seed)
    global _STOP
    import multiprocessing
    _STOP = multiprocessing.get_context('fork').Value('i', 0)
    core.merge_all(run_block, blocks, rep)
    complete = not rep.counters.get('blocks_skipped_after_violations') and \
        not rep.counters.get('block_cut_short_after_violations')
    return {'exhaustive': complete, 'bounds': bounds, 'blocks': len(blocks),
            'floors': {'evaluations': 150000 if quick else 3500000, 'then_taken': 20000, 'else_taken': 20000,
                       'shape_not_after_operator': 10000, 'shape_redundant_group': 10000,
                       'loop_iterations_6': 50, 'loop_iterations_0': 50, 'spelling_cases': 2000,
                       'grouped_test_with_nested_body': 2000,
                       'selected_branch_empty': 2000, 'selected_branch_side_effect_only': 2000,
                       'follower_1_ite': 1000, 'follower_2_ite': 1000, 'follower_4_ite': 1000, 'follower_1_loop': 300}}
