"""
C19 -- ifthen tests evaluate as the boolean expression they spell.
Engine E1: every concrete-syntax tree  Expr ::= Unary | Expr (\\and|\\or) Unary ;
Unary ::= Atom | \\not Unary | \\( Expr \\)  up to a depth bound (so every placement of \\not and of
redundant parentheses up to that depth), leaves ranging over truth classes of a menu of real ifthen
atoms; plus the complete atom space on its own, all operator spellings, nested conditionals and
\\whiledo loops of 0..6 iterations.  Oracle: fold over the generated tree (vp/refs/c19_model.py).
"""
import re, signal, contextlib
from vp import core, state
from vp.refs import c19_model as M

ID = 'C19'
LEVEL = 'exploration'
RULE = ('part T: all trees of the grammar Expr ::= Unary | Expr op Unary, Unary ::= Atom | \\not Unary | \\( Expr \\) '
        'with depth <= d (atom 0; \\not, group, binary +1) over leaf classes {integer comparison, truth-token macro} x '
        '{true, false} (A=4) or {true, false} (A=2); the atom spelling of a leaf, \\and/\\AND spelling and blank style '
        'rotate deterministically over the menus; part A: every atom of the atom space alone and under \\not; part P: every '
        'tree of depth <= 2 x every upper/lower-case assignment x 3 blank styles; part N: nested conditionals in both '
        'branches; part W: \\whiledo over all trees with loop-variant leaves x bound N = 0..6 (tests needing > 6 '
        'iterations are outside the bound). Blocks = index ranges (disjoint). A case is non-trivial unless its test is a '
        'single bare atom in parts T/P; distinct = distinct (part, tree, atoms, spelling); outcomes = distinct '
        '(operator skeleton, leaf truth values, observed text)')
ASSUMPTIONS = [
    'oracle = fold over the generated syntax tree with tightest \\not and equal-precedence left-to-right \\and/\\or; '
    'atom values from structured operand descriptions (integers; lengths in TeX scaled-point integer arithmetic)',
    'length pairs on which TeX integer arithmetic and exact rational arithmetic disagree (e.g. 1in vs 72.27pt, 2.54cm vs 1in) '
    'are outside the alphabet; font-relative units (em, ex) excluded',
    'length registers are assigned with the primitive form \\zzL=1in\\relax (plasTeX\'s \\setlength is a no-op, outside the anchor)',
    'visible text is compared with whitespace removed',
    'tree cases marked "session" (quick: the trees of depth exactly 3 over 4 leaf classes; thorough: all trees of depth <= 4 '
    'over 2 leaf classes) run as consecutive \\ifthenelse of '
    'one document per block, each observed on its own output fragment; after the evaluator\'s IndexError the input stack is '
    'cleared and \\( \\) re-enabled, after any other exception or a timeout a new document is started; every candidate '
    'violation is re-judged in a fresh isolated document.  All other cases (atoms, spellings, nested, loops, trees of depth <= 2 '
    'quick / <= 3 thorough) get a fresh interpreter with class-level state restored',
]

WS = re.compile(r'\s+')

# ---------------------------------------------------------------------------
# documents
# ---------------------------------------------------------------------------
PRE_ITEMS = [
    ('zzc', '\\newcounter{zzc}\\setcounter{zzc}{3}'),
    ('zzd', '\\newcounter{zzd}\\setcounter{zzd}{-2}'),
    ('zzw', '\\newcounter{zzw}'),
    ('zzL', '\\newlength{\\zzL}\\zzL=1in\\relax '),
    ('zzA', '\\def\\zzA{7}'),
    ('zzN', '\\newcommand{\\zzN}{-2}'),
    ('zzS', '\\def\\zzS{ab}'),
    ('zzE', '\\def\\zzE{}'),
    ('zzbt', '\\newboolean{zzbt}\\setboolean{zzbt}{true}'),
    ('zzbf', '\\newboolean{zzbf}\\setboolean{zzbf}{false}'),
    ('zzbp', '\\provideboolean{zzbp}'),
    ('zzbx', '\\newboolean{zzbx}\\setboolean{zzbx}{TRUE}'),
    ('zzby', '\\newboolean{zzby}\\setboolean{zzby}{true}\\setboolean{zzby}{False}'),
]
PRE_ALL = ''.join(v for _, v in PRE_ITEMS)
_NAME = re.compile(r'zz[A-Za-z]+')


def preamble_for(text):
    """Only the definitions the test mentions (keeps a document at ~3 ms)."""
    need = set(_NAME.findall(text))
    return ''.join(v for k, v in PRE_ITEMS if k in need)


def ite_body(test, tag=''):
    return ('\\def\\zzX{}\\def\\zzY{}wqa%s\\ifthenelse{%s}{wqt%s\\def\\zzX{wqx}}{wqe%s\\def\\zzY{wqy}}wqz%s\\zzX\\zzY'
            % (tag, test, tag, tag, tag))


def ite_text(v, tag=''):
    return ('wqa%swqt%swqz%swqx' if v else 'wqa%swqe%swqz%swqy') % (tag, tag, tag)


def loop_body(test):
    return '\\setcounter{zzw}{0}wqa\\whiledo{%s}{wqb\\stepcounter{zzw}}wqz\\arabic{zzw}' % test


def loop_text(k):
    return 'wqa' + 'wqb' * k + 'wqz%d' % k


class HardTimeout(BaseException):
    """Not an Exception: plasTeX's `except Exception` / logging handlers must not be able to absorb it."""


_ARMED = False


def _tick(signum, frame):
    if _ARMED:
        raise HardTimeout()


def _disarm():
    """Idempotent; retried when a late tick lands inside it (otherwise the timer would stay armed)."""
    global _ARMED
    while True:
        try:
            _ARMED = False
            signal.setitimer(signal.ITIMER_PROF, 0)
            signal.setitimer(signal.ITIMER_REAL, 0)
            return
        except HardTimeout:
            continue


@contextlib.contextmanager
def time_limit(seconds):
    """Raise HardTimeout after `seconds` of CPU time of this process (a loaded machine is not an endless loop), and
    again after every further 0.5 s of CPU time until the block is left: a timeout that is swallowed somewhere (bare
    except, __del__, generator cleanup) cannot turn an endless loop into a hung worker.  Wall-clock backstop at 40x."""
    global _ARMED
    signal.signal(signal.SIGPROF, _tick)
    signal.signal(signal.SIGALRM, _tick)
    try:
        _ARMED = True
        signal.setitimer(signal.ITIMER_PROF, seconds, 0.5)
        signal.setitimer(signal.ITIMER_REAL, seconds * 40, 5.0)
        yield
    finally:
        _disarm()


def new_tex():
    from plasTeX.TeX import TeX
    state.reset()
    tex = TeX()
    ctx = tex.ownerDocument.context
    ctx.warnOnUnrecognized = False
    ctx.loadPackage(tex, 'ifthen')
    return tex


def observe(src, limit=20.0):
    """Process `src` as a fresh document with the ifthen package loaded.
    -> visible text without whitespace | 'raises:<Type>' | 'timeout'"""
    try:
        try:
            with time_limit(limit):
                tex = new_tex()
                tex.input(src)
                doc = tex.parse()
                return WS.sub('', doc.textContent)
        finally:
            _disarm()
    except HardTimeout:
        return 'timeout'
    except Exception as e:
        return 'raises:%s' % type(e).__name__


class Session(object):
    """Consecutive conditionals of one document, each observed on its own output fragment ("session" tree blocks)."""
    MAX_CASES = 4000

    def __init__(self):
        self.tex = None
        self.n = 0

    def start(self):
        tex = new_tex()
        tex.input(PRE_ALL)
        tex.parse()
        self.tex = tex
        self.depth = len(tex.ownerDocument.context.contexts)
        self.n = 0

    def run(self, body, limit=20.0):
        if self.tex is None or self.n >= self.MAX_CASES:
            self.start()
        self.n += 1
        tex = self.tex
        try:
            try:
                with time_limit(limit):
                    tex.input(body)
                    frag = tex.ownerDocument.createDocumentFragment()
                    tex.parse(frag)
                    return WS.sub('', frag.textContent)
            finally:
                _disarm()
        except HardTimeout:
            self.tex = None
            return 'timeout'
        except Exception as e:
            name = type(e).__name__
            del tex.inputs[:]
            if name == 'IndexError':
                # the evaluator's "pop from empty list" is raised after argument parsing, by code without
                # side effects; \ifthenelse had switched \( \) off and never got to switch them on again
                from plasTeX.Base.LaTeX.Math import BeginMath, EndMath
                BeginMath.disableMath = EndMath.disableMath = False
                if len(tex.ownerDocument.context.contexts) != self.depth:
                    self.tex = None
            else:
                self.tex = None         # anything else: start over (new_tex() restores class-level state)
            return 'raises:%s' % name


# ---------------------------------------------------------------------------
# cases
# ---------------------------------------------------------------------------
def totuple(x):
    if isinstance(x, (list, tuple)):
        return tuple(totuple(v) for v in x)
    return x


def positional(t):
    """Same tree with leaves renumbered 0..k-1 in spelling order; also returns the original leaf ids."""
    ids = []

    def walk(n):
        k = n[0]
        if k == 'a':
            ids.append(n[1])
            return ('a', len(ids) - 1)
        if k in 'ng':
            return (k, walk(n[1]))
        l = walk(n[2])
        return ('b', n[1], l, walk(n[3]))
    return walk(t), ids


def case_test(case):
    """(tree, atoms, test text)"""
    tree = totuple(case['tree'])
    atoms = totuple(case['atoms'])
    style = case.get('style', 0)
    txt = M.spell(M.tokens(tree), lambda i: M.atom_text(atoms[i], style), case.get('upper', 0), style)
    return tree, atoms, txt


def predict(case, dev=0):
    """Predicted observation of the case under the deviation set `dev` (0 = the property's statement)."""
    tree, atoms, _ = case_test(case)
    toks = M.tokens(tree)
    part = case['part']
    if part == 'W':
        def evaluate(c):
            lv = lambda i: M.atom_value(atoms[i], dev, loopvar=c)
            if dev & (M.D_NOT_INFIX | M.D_WHILE_GROUP):
                return M.machine(toks, lv, dev)
            return M.value(tree, lv)
        k = M.loop_iterations(evaluate, cap=case.get('cap', M.LOOP_CAP))
        if k is None:
            return 'timeout'
        if isinstance(k, tuple):
            return 'raises:IndexError'
        return loop_text(k)
    lv = lambda i: M.atom_value(atoms[i], dev)
    if dev & M.D_NOT_INFIX:
        v = M.machine(toks, lv, dev)
        if v == M.UNDERFLOW:
            return 'raises:IndexError'
    else:
        v = M.value(tree, lv)
    if part == 'N':
        itree, iatoms = totuple(case['inner_tree']), totuple(case['inner_atoms'])
        ilv = lambda i: M.atom_value(iatoms[i], dev)
        if dev & M.D_NOT_INFIX:
            iv = M.machine(M.tokens(itree), ilv, dev)
            if iv == M.UNDERFLOW:
                return 'raises:IndexError'
        else:
            iv = M.value(itree, ilv)
        return nested_text(v, iv)
    return ite_text(v)


def nested_body(test, inner):
    return ('wqa\\ifthenelse{%s}{wqt\\ifthenelse{%s}{wqi}{wqj}wqu}{wqe\\ifthenelse{%s}{wqk}{wql}wqf}wqz'
            % (test, inner, inner))


def nested_text(v, iv):
    if v:
        return 'wqawqt' + ('wqi' if iv else 'wqj') + 'wquwqz'
    return 'wqawqe' + ('wqk' if iv else 'wql') + 'wqfwqz'


def case_source(case, full_preamble=False):
    _, _, test = case_test(case)
    part = case['part']
    if part == 'W':
        body = loop_body(test)
    elif part == 'N':
        itree, iatoms = totuple(case['inner_tree']), totuple(case['inner_atoms'])
        inner = M.spell(M.tokens(itree), lambda i: M.atom_text(iatoms[i], 0), 0, 0)
        body = nested_body(test, inner)
    else:
        body = ite_body(test)
    return (PRE_ALL if full_preamble else preamble_for(body)) + body


APPLICABLE = {'W': (M.D_NOT_INFIX, M.D_WHILE_GROUP, M.D_LEN_FLOAT)}
DEFAULT_APPLICABLE = (M.D_NOT_INFIX, M.D_LEN_FLOAT)


def dev_sets(part):
    bits = APPLICABLE.get(part, DEFAULT_APPLICABLE)
    out = []
    for mask in range(1, 1 << len(bits)):
        d = 0
        for i, b in enumerate(bits):
            if mask >> i & 1:
                d |= b
        out.append(d)
    out.sort(key=lambda d: (bin(d).count('1'), d))
    return out


def classify(case, obs):
    """-> (verdict, fids, expected)   verdict 'ok' | 'known' | 'violation'"""
    exp = predict(case, 0)
    if obs == exp:
        return 'ok', [], exp
    for d in dev_sets(case['part']):
        if predict(case, d) == obs:
            return 'known', [M.DEV_NAMES[b] for b in sorted(M.DEV_NAMES) if d & b], exp
    return 'violation', [], exp


def limit_for(case):
    return 1.0 if case['part'] == 'W' else 20.0


CONFIRM_LIMIT = 4.0


def observe_case(case, full_preamble=False):
    """Observation of a case in a fresh document.  A loop that hits the short limit is run again with a long
    one, so that a busy machine is not mistaken for an endless loop."""
    src = case_source(case, full_preamble)
    obs = observe(src, limit_for(case))
    if obs == 'timeout' and limit_for(case) < CONFIRM_LIMIT:
        obs = observe(src, CONFIRM_LIMIT)
    return obs


def replay(case):
    src = case_source(case)
    obs = observe_case(case)
    v, fids, exp = classify(case, obs)
    res = {'verdict': v, 'expected': exp, 'observed': obs, 'input': src, 'detail': ''}
    if v == 'known':
        f = core.Findings()
        notopen = [x for x in fids if not f.is_open(x)]
        res['fid'] = (notopen or fids)[0]
        res['fids'] = fids
        res['detail'] = 'observation equals the oracle with deviation(s) %s switched on' % ', '.join(fids)
    elif v == 'violation':
        res['detail'] = 'branch / iteration count differs from the value of the expression tree'
    return res


# ---------------------------------------------------------------------------
# leaf menus and rotation
# ---------------------------------------------------------------------------
_MENU = None


def menus():
    """A=4: class index -> atoms (cmpT, cmpF, tokT, tokF); A=2: (T, F) with comparison and macro atoms interleaved."""
    global _MENU
    if _MENU is None:
        m = M.tree_menu()
        four = [m[('cmp', True)], m[('cmp', False)], m[('tok', True)], m[('tok', False)]]

        def inter(a, b):
            out = []
            for i in range(max(len(a), len(b))):
                if i < len(a):
                    out.append(a[i])
                if i < len(b):
                    out.append(b[i])
            return out
        two = [inter(m[('cmp', True)], m[('tok', True)]), inter(m[('cmp', False)], m[('tok', False)])]
        _MENU = {4: four, 2: two}
    return _MENU


def pick_atoms(nleaf, ids, idx, seed):
    menu = menus()[nleaf]
    out = []
    for pos, cls in enumerate(ids):
        lst = menu[cls]
        out.append(lst[(idx * 3 + pos * 5 + seed) % len(lst)])
    return out


def loop_leaves(N, nleaf, idx, seed):
    """leaf menu of the \\whiledo part for bound N"""
    m = menus()[2]
    t = m[0][(idx + seed) % len(m[0])]
    f = m[1][(idx + seed) % len(m[1])]
    lt = ('int', ('loop',), '<', ('lit', N))
    eq = ('int', ('loop',), '=', ('lit', N))
    gt = ('int', ('lit', N), '>', ('loop',))
    odd = ('isodd', ('loop',))
    if nleaf == 3:
        return [lt, eq, t]
    return [lt, gt, eq, odd, t, f]


_SK = {'and': '&', 'or': '|', 'not': '!', '(': '(', ')': ')'}


def skeleton(tree):
    return ''.join(_SK[tk] if isinstance(tk, str) else 'a' for tk in M.tokens(tree))


# ---------------------------------------------------------------------------
# blocks
# ---------------------------------------------------------------------------
def iter_section(nleaf, depth, section, lo, hi):
    """(global index, tree) for the trees of one block (depth >= 1).  section 'U': the unary trees
    U_depth[lo:hi] = atoms + not(U_{depth-1}) + group(E_{depth-1}); 'and' / 'or': binary trees whose left
    operand is E_{depth-1}[lo:hi], each paired with every right operand in U_{depth-1}."""
    E1, U1 = M.levels(nleaf, depth - 1)
    usize = nleaf + len(U1) + len(E1)
    if section == 'U':
        for i in range(lo, hi):
            if i < nleaf:
                yield i, ('a', i)
            elif i < nleaf + len(U1):
                yield i, ('n', U1[i - nleaf])
            else:
                yield i, ('g', E1[i - nleaf - len(U1)])
        return
    base = usize + (0 if section == 'and' else len(E1) * len(U1))
    for li in range(lo, hi):
        l = E1[li]
        for ri, r in enumerate(U1):
            yield base + li * len(U1) + ri, ('b', section, l, r)


def tree_blocks(tag, nleaf, depth, extra, target):
    """Partition of levels(nleaf, depth)[0] into blocks of about `target` cases."""
    blocks = []
    ne, nu = M.count(nleaf, depth - 1)
    usize = nleaf + nu + ne
    for lo in range(0, usize, target):
        blocks.append((tag, nleaf, depth, 'U', lo, min(usize, lo + target)) + extra)
    step = max(1, target // nu)
    for op in ('and', 'or'):
        for lo in range(0, ne, step):
            blocks.append((tag, nleaf, depth, op, lo, min(ne, lo + step)) + extra)
    return blocks


def record(rep, case, obs, verdict, fids, exp, nontrivial, outcome_key):
    rep.case(key=core.h64(repr(sorted(case.items()))), nontrivial=nontrivial, outcome=(outcome_key, obs))
    if verdict == 'ok':
        return
    if verdict == 'known':
        for f in fids:
            rep.known_finding(f, case, 'expected %s, observed %s' % (exp, obs))
        rep.count('known_' + ('raises' if obs.startswith('raises') else obs if obs == 'timeout' else 'wrong_value'))
    else:
        rep.violation(case, exp, obs, 'branch / iteration count differs from the value of the expression tree')


def run_case(rep, case, session=None, nontrivial=True):
    """Run one case, judge it, record it."""
    tree, atoms, _ = case_test(case)
    exp = predict(case, 0)
    if session is not None:
        _, _, test = case_test(case)
        obs = session.run(ite_body(test), limit_for(case))
        if obs != exp:
            v, fids, exp = classify(case, obs)
            if v == 'violation':            # re-judge in isolation before believing the session
                obs = observe_case(case, full_preamble=True)
                rep.count('session_rejudged')
    else:
        obs = observe_case(case)
    if obs == exp:
        v, fids = 'ok', []
    else:
        v, fids, exp = classify(case, obs)
    truth = tuple(M.atom_value(a, 0, loopvar=0) for a in atoms)
    record(rep, case, obs, v, fids, exp, nontrivial, (case['part'], skeleton(tree), truth, case.get('N')))
    return obs, v


CUT = 4             # a block that already holds this many violation candidates stops (the run fails anyway)
STOP_AFTER = 40     # ... and once this many were seen in the whole run the remaining blocks are skipped
_STOP = None        # multiprocessing.Value shared through fork


def run_block(block):
    """Each block runs in a process forked for it: plasTeX keeps every processed document alive (about 150 kB per
    fresh interpreter, also after gc.collect()), which would add up to > 1 GB per long-lived pool worker."""
    st, res = core.run_isolated(_block_child, block, timeout=6 * 3600)
    if st != 'ok':
        raise RuntimeError('block %r failed in its child process: %s %s' % (block, st, res))
    return res


def _block_child(block):
    rep = core.Report()
    if _STOP is not None and _STOP.value >= STOP_AFTER:
        rep.count('blocks_skipped_after_violations')
        return rep.close_block()
    _run_block(block, rep)
    if _STOP is not None and rep.nviolations:
        with _STOP.get_lock():
            _STOP.value += rep.nviolations
    return rep.close_block()


def _run_block(block, rep):
    tag = block[0]
    if tag == 'A':
        _, lo, hi, seed = block
        atoms, _ = M.all_atoms()
        for i in range(lo, hi):
            a = atoms[i]
            for neg in (0, 1):
                tree = ('n', ('a', 0)) if neg else ('a', 0)
                case = {'part': 'A', 'tree': tree, 'atoms': [a], 'upper': (i + seed) & 1 if neg else 0,
                        'style': (i + neg + seed) % 3}
                obs, v = run_case(rep, case)
                rep.count('atom_' + a[0])
                rep.count('atom_true' if M.atom_value(a) else 'atom_false')
                if i % 600 == 1 and neg:
                    rep.sample({'input': case_source(case), 'observed': obs})
    elif tag == 'P':
        _, lo, hi, seed = block
        E = M.levels(2, 2)[0]
        for i in range(lo, hi):
            tree, ids = positional(E[i])
            atoms = pick_atoms(2, ids, i, seed)
            nops = M.n_operators(M.tokens(tree))
            for upper in range(1 << nops):
                for style in (0, 1, 2):
                    case = {'part': 'P', 'tree': tree, 'atoms': atoms, 'upper': upper, 'style': style}
                    run_case(rep, case, nontrivial=tree[0] != 'a')
                    rep.count('spelling_cases')
    elif tag == 'N':
        _, lo, hi, seed = block
        E = M.levels(2, 1)[0]
        for i in range(lo, hi):
            tree, ids = positional(E[i])
            atoms = pick_atoms(2, ids, i, seed)
            for j, inner in enumerate(E):
                itree, iids = positional(inner)
                iatoms = pick_atoms(2, iids, i + j + 1, seed)
                case = {'part': 'N', 'tree': tree, 'atoms': atoms, 'inner_tree': itree, 'inner_atoms': iatoms,
                        'upper': 0, 'style': 0}
                run_case(rep, case)
                rep.count('nested_cases')
    elif tag == 'T':
        _, nleaf, depth, section, lo, hi, mode, min_depth, seed = block
        session = Session() if mode == 'session' else None
        for idx, t in iter_section(nleaf, depth, section, lo, hi):
            if min_depth and M.depth_of(t) < min_depth:
                continue                # enumerated by the isolated blocks of the same leaf classes
            tree, ids = positional(t)
            atoms = pick_atoms(nleaf, ids, idx, seed)
            nops = M.n_operators(M.tokens(tree))
            upper = (core.h64((idx, seed)) >> 8) & ((1 << nops) - 1) if (idx + seed) % 3 else 0
            case = {'part': 'T', 'tree': tree, 'atoms': atoms, 'upper': upper, 'style': (idx + seed) % 3}
            obs, v = run_case(rep, case, session=session, nontrivial=t[0] != 'a')
            if rep.nviolations >= CUT:
                rep.count('block_cut_short_after_violations')
                break
            for f in M.features(t):
                rep.count('shape_' + f)
            rep.count('depth_%d' % M.depth_of(t))
            rep.count('then_taken' if 'wqt' in obs else 'else_taken' if 'wqe' in obs else 'no_branch')
            if idx % 20011 == 7:
                rep.sample({'input': case_source(case), 'observed': obs})
    elif tag == 'W':
        _, nleaf, depth, section, lo, hi, N, seed = block
        for idx, t in iter_section(nleaf, depth, section, lo, hi):
            tree, ids = positional(t)
            menu = loop_leaves(N, nleaf, idx, seed)
            atoms = [menu[c] for c in ids]
            nops = M.n_operators(M.tokens(tree))
            case = {'part': 'W', 'tree': tree, 'atoms': atoms, 'N': N,
                    'upper': (core.h64((idx, N, seed)) >> 8) & ((1 << nops) - 1) if (idx + N + seed) % 2 else 0,
                    'style': (idx + N + seed) % 3}
            exp = predict(case, 0)
            if exp == 'timeout':
                rep.count('loop_excluded_more_than_6_iterations')
                continue
            obs, v = run_case(rep, case)
            if rep.nviolations >= CUT:
                rep.count('block_cut_short_after_violations')
                break
            rep.count('loop_iterations_%s' % exp[3:].count('wqb'))
            for f in M.features(t):
                rep.count('loopshape_' + f)
            if idx % 4001 == 5:
                rep.sample({'input': case_source(case), 'observed': obs})
    else:
        raise ValueError(block)


def run(tier, seed, rep):
    state.pristine()
    quick = tier == 'quick'
    M.levels(4, 2), M.levels(2, 3 if not quick else 2), M.levels(6, 1), M.levels(3, 2)    # built once, inherited by fork
    menus()
    blocks = []
    natoms = len(M.all_atoms()[0])
    for lo in range(0, natoms, 40):
        blocks.append(('A', lo, min(natoms, lo + 40), seed))
    nP = len(M.levels(2, 2)[0])
    for lo in range(0, nP, 10):
        blocks.append(('P', lo, min(nP, lo + 10), seed))
    nN = len(M.levels(2, 1)[0])
    for lo in range(nN):
        blocks.append(('N', lo, lo + 1, seed))
    bounds = {'atoms_alone_and_negated': natoms,
              'length_pairs_outside_alphabet': len(M.all_atoms()[1]),
              'spelling_product': {'leaf_classes': 2, 'depth': 2, 'trees': nP},
              'nested': {'outer_trees': nN, 'inner_trees': nN}}
    # part T: "isolated" = one fresh document per case; "session" = consecutive conditionals of one document
    iso_depth = 2 if quick else 3
    blocks += tree_blocks('T', 4, iso_depth, ('isolated', 0, seed), 600)
    bounds['trees_isolated'] = {'leaf_classes': 4, 'depth': '<= %d' % iso_depth, 'trees': M.count(4, iso_depth)[0]}
    if quick:
        blocks += tree_blocks('T', 4, 3, ('session', 3, seed), 600)
        bounds['trees_session'] = {'leaf_classes': 4, 'depth': '= 3', 'trees': M.count(4, 3)[0] - M.count(4, 2)[0]}
    else:
        blocks += tree_blocks('T', 2, 4, ('session', 0, seed), 6000)
        bounds['trees_session'] = {'leaf_classes': 2, 'depth': '<= 4', 'trees': M.count(2, 4)[0]}
    # part W
    wcfg = [(6, 2)] if quick else [(6, 2), (3, 3)]
    bounds['whiledo'] = []
    for nleaf, depth in wcfg:
        for N in range(0, 7):
            blocks += tree_blocks('W', nleaf, depth, (N, seed), 400)
        bounds['whiledo'].append({'leaf_menu': nleaf, 'depth': depth, 'trees': M.count(nleaf, depth)[0],
                                  'bound_N': '0..6', 'max_iterations': M.LOOP_CAP})
    blocks = core.rotate(blocks, seed)
    global _STOP
    import multiprocessing
    _STOP = multiprocessing.get_context('fork').Value('i', 0)
    core.merge_all(run_block, blocks, rep)
    complete = not rep.counters.get('blocks_skipped_after_violations') and \
        not rep.counters.get('block_cut_short_after_violations')
    return {'exhaustive': complete, 'bounds': bounds, 'blocks': len(blocks),
            'floors': {'evaluations': 150000 if quick else 3500000, 'then_taken': 20000, 'else_taken': 20000,
                       'shape_not_after_operator': 10000, 'shape_redundant_group': 10000,
                       'loop_iterations_6': 50, 'loop_iterations_0': 50, 'spelling_cases': 2000}}
