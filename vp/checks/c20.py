"""
C20 -- Cross-document label data survives a round trip and never blocks processing.

Engines E3 + E2 (DESIGN.md section 2, C20):

  round trip   every pool document is really rendered (HTML5 and XHTML) through the real call sites
               (Compile.parse -> Renderer.render -> Context.persist); the saved file must equal the label
               set captured from the live rendered nodes, a fresh Context must restore it exactly, per
               renderer key, and a second document that \\ref's the labels must render links to them.
  E3           EVERY byte prefix, EVERY single-bit flip, every 2-bit flip inside a stated window, and a
               menu of foreign files, for every saved file: restore never raises and yields what the
               (reference-unpickled) file says or nothing; persist never raises and leaves a loadable
               file holding the complete current label set (other renderers' data merged when the old
               content was well shaped); the re-saved file restores completely.
  E2           breadth-first search over sequences of {persist, restore} x two renderer keys and
               {truncate, flip, replace, delete} on ONE file, every history replayed on the real code
               in lock-step with the abstract-content model (vp/refs/c20_model.py).

Faulted loads run in freshly forked children under RLIMIT_AS and an alarm.
"""
import os, sys, re, html, pickle, pickletools, shutil, tempfile, importlib, resource, signal, contextlib

from vp import core
from vp import state as vstate
from vp.refs import c20_model as M

ID = 'C20'
LEVEL = 'fault_enumeration'
RULE = ('label sets of 7 small really-rendered documents x {HTML5, XHTML} (+ 2 file-x-current-document pairs: the file of '
        'one document met by a run of another revision); per saved file: every byte prefix, '
        'every single-bit flip, every 2-bit flip in the stated window (quick: all bit pairs inside the first 13 '
        'bytes [PROTO, FRAME, first opcode] and inside every 2-byte window starting at an opcode boundary; '
        'thorough: additionally all bit pairs at byte distance <= 8 and first-13-bytes x whole-file pairs), a menu of 25 '
        'foreign files; plus round-trip / cross-document (incl. neighbours whose job names extend or are contained in the '
        'current one) / faulted-previous-file renders through the real call sites, document sequences with overlapping '
        'and twice-defined label names through plasTeX.Compile.run (same directory, paux-dirs, output directory, two '
        'renderers into one file), 6 layouts of neighbour files over the working directory and listed paux-dirs, and a BFS over persist/restore/corrupt histories on one file with two renderer keys; a case is '
        'non-trivial when the file content presented to plasTeX differs from the intact saved file (fault cases) or '
        'the label set is non-empty (round trips); distinct = distinct (document, renderer, fault) / history; '
        'outcomes = distinct (reference reading of the faulted bytes, restored label count, re-save result)')
ASSUMPTIONS = [
    'the standard-library unpickler (pickle.load on a buffered reader, as for a file opened with open(path, "rb")) is the reference reader of faulted bytes: what labels a '
    'bit-flipped but still loadable file "says" is defined by it, not by plasTeX',
    'expected label attributes are captured from the live rendered nodes inside Renderer.cleanup (mix-ins still active), '
    'with an own copy of the attribute list (macroName, ref, title, captionName, id, url)',
    'in the mass fault enumeration the re-save step uses synthetic label nodes that carry the captured rendered strings '
    '(a render per fault would cost 0.15 s); the real Renderer.render call site with a faulted previous file is '
    'exercised on a smaller menu (block kind "prev")',
    'a bit flip that leaves a loadable pickle with altered strings is expected to restore the altered strings '
    '(no checksum exists; the statement only promises absence of failure)',
    'faults outside the statement (directory in place of the file, unreadable file, concurrent writers) are not enumerated',
]

RENDERERS = ('HTML5', 'XHTML')
TL = 10.0                       # seconds per plasTeX call on a faulted file
AS_EXTRA = 1 << 30              # address-space head room of a fault child (bytes)

DOCS = {
    'sec': r'''\documentclass{article}
\begin{document}
\section{Alpha wqa}\label{sec:a}
Text \ref{sec:a} and \ref{sub:b}.
\subsection{Beta wqb}\label{sub:b}
\section{Gamma wqc}\label{sec:c}
\end{document}
''',
    'sec2': r'''\documentclass{article}
\begin{document}
\section{New wqn}\label{sec:n}
\section{Alpha wqa revised}\label{sec:a}
\subsection{Beta wqb}\label{sub:b}
\end{document}
''',
    'eq': r'''\documentclass{article}
\begin{document}
\begin{equation}x=1\label{eq:one}\end{equation}
\begin{equation}y=2\label{eq:two}\end{equation}
See \ref{eq:two}.
\begin{eqnarray} a&=&b\label{ea:1}\\ c&=&d\label{ea:2}\end{eqnarray}
\end{document}
''',
    'float': r'''\documentclass{article}
\begin{document}
\begin{figure}\caption{Cap wqa}\label{fig:f}\end{figure}
\begin{table}\caption{Tab wqb}\label{tab:t}\end{table}
\begin{figure}\caption{Cap wqc}\label{fig:g}\end{figure}
\end{document}
''',
    'mix': r'''\documentclass{article}
\begin{document}
\section{Alpha wqa}\label{sec:a}
\begin{equation}x=1\label{eq:one}\end{equation}
\subsection{Beta $x$ wqb}\label{sub:b}
\begin{figure}\caption{Cap wqc}\label{fig:f}\end{figure}
\begin{enumerate}\item\label{it:1} one wqd\end{enumerate}
\end{document}
''',
    'uni': r'''\documentclass{article}
\begin{document}
\section{Caf\'e <b> \& "q" ünï wqa}\label{sec:é x}
See \ref{sec:é x}.
\subsection{A\_b \% c wqb}\label{sub-1.2}
\end{document}
''',
    'thm': r'''\documentclass{article}
\newtheorem{thm}{Theorem}
\begin{document}
\begin{thm}\label{thm:1} wqa \end{thm}
\begin{thm}[Named wqb]\label{thm:2} wqc \end{thm}
\begin{enumerate}\item\label{it:1} one \item\label{it:2} two\end{enumerate}
\end{document}
''',
    'empty': r'''\documentclass{article}
\begin{document}
\section{Nolabel wqa}
\end{document}
''',
}
# label names each source defines (own list, kept next to the sources)
DOC_LABELS = {
    'sec': ['sec:a', 'sub:b', 'sec:c'], 'sec2': ['sec:n', 'sec:a', 'sub:b'],
    'eq': ['eq:one', 'eq:two', 'ea:1', 'ea:2'], 'float': ['fig:f', 'tab:t', 'fig:g'],
    'mix': ['sec:a', 'eq:one', 'sub:b', 'fig:f', 'it:1'], 'uni': ['sec:é x', 'sub-1.2'],
    'thm': ['thm:1', 'thm:2', 'it:1', 'it:2'], 'empty': [],
}
POOL = ['sec', 'eq', 'float', 'mix', 'uni', 'thm', 'empty']      # 'sec2' is the revision used by the BFS only
PAIRS = ['empty+sec', 'sec+sec2']     # file saved by the first document, met by a run of the second (fault kinds only)


# ---------------------------------------------------------------------------
# small utilities
# ---------------------------------------------------------------------------
class _Fired(object):
    fired = False


@contextlib.contextmanager
def limit(seconds):
    """Alarm that also leaves a trace: persist/restore swallow exceptions, so a timeout raised inside them
    would vanish; `fired` tells."""
    box = _Fired()

    def handler(signum, frame):
        box.fired = True
        raise core.Timeout('case exceeded its time limit')
    old = signal.signal(signal.SIGALRM, handler)
    signal.setitimer(signal.ITIMER_REAL, seconds)
    try:
        yield box
    finally:
        signal.setitimer(signal.ITIMER_REAL, 0)
        signal.signal(signal.SIGALRM, old)


def _mkdtemp():
    """Scratch directory (removed by the caller); on tmpfs when there is one -- a case does ~6 file operations."""
    shm = '/dev/shm'
    if os.path.isdir(shm) and os.access(shm, os.W_OK):
        return tempfile.mkdtemp(prefix='vp-c20-', dir=shm)
    return tempfile.mkdtemp(prefix='vp-c20-')


def _read(path):
    try:
        with open(path, 'rb') as f:
            return f.read()
    except FileNotFoundError:
        return None


def _write(path, data):
    if data is None:
        if os.path.exists(path):
            os.remove(path)
        return
    with open(path, 'wb') as f:
        f.write(data)


def _other(rname):
    return RENDERERS[1 - RENDERERS.index(rname)]


def _harden_child():
    """Inside a forked fault child: address-space limit (a corrupted pickle can ask for gigabytes) and a quiet
    stderr (CPython prints unraisable SystemErrors when a MemoryError hits the unpickler's readinto)."""
    try:
        with open('/proc/self/statm') as f:
            vsize = int(f.read().split()[0]) * os.sysconf('SC_PAGE_SIZE')
    except Exception:
        vsize = 1 << 30
    lim = vsize + AS_EXTRA
    resource.setrlimit(resource.RLIMIT_AS, (lim, lim))
    try:
        dn = os.open(os.devnull, os.O_WRONLY)
        os.dup2(dn, 2)
        os.close(dn)
    except OSError:
        pass


# ---------------------------------------------------------------------------
# really rendering a document through the real call sites
# ---------------------------------------------------------------------------
def _config(rname):
    from plasTeX.Config import defaultConfig
    config = defaultConfig()
    config['general']['renderer'] = rname
    config['files']['log'] = False
    config['images']['enabled'] = False
    config['images']['imager'] = 'none'
    config['images']['vector-imager'] = 'none'
    return config


def _capture(document, names=None):
    """Label set as the statement describes it, read off the live rendered nodes (own rule, own attribute list).
    `names` = the label names the document source defines (known to the generator); the node of a name is the one
    the document itself resolves \\ref{name} to (context.labels), NOT the library's to-be-saved set."""
    from plasTeX.DOM import Node
    out = {}
    if names is None:
        pairs = list(document.context.persistentLabels.items())
    else:
        pairs = [(n, document.context.labels[n]) for n in names if n in document.context.labels]
    for label, node in pairs:
        a = {}
        for name in M.REF_ATTRS:
            v = getattr(node, name, None)
            if v is None:
                continue
            if isinstance(v, Node):
                v = '%s' % (str(v),)        # the rendered string, as an exact str
            a[name] = v
        out[label] = a
    return out


def render(src, rname, jobname='job', pre=None, labels=None, extra=None):
    """Parse with plasTeX.Compile.parse (restores every other *.paux of the directory) and render with the
    stock renderer in a scratch directory.  `pre` = {filename: bytes | '<dir>'} placed there first;
    `labels` = label names defined by `src`; `extra` = [{filename: bytes}, ...]: further directories, created
    outside the working directory and listed in config general/paux-dirs in that order.
    -> dict(exc, paux, captured, files, pages, ctx_labels)"""
    import plasTeX.Compile
    from plasTeX.Logging import disableLogging
    vstate.reset()
    res = {'exc': None, 'paux': None, 'captured': None, 'files': [], 'pages': {}, 'ctx_labels': {}}
    wd = _mkdtemp()
    xroot = _mkdtemp() if extra else None
    xdirs = []
    old = os.getcwd()
    os.chdir(wd)
    try:
        for i, files in enumerate(extra or []):
            d = os.path.join(xroot, 'pauxdir%d' % i)
            os.makedirs(d)
            xdirs.append(d)
            for name, data in files.items():
                _write(os.path.join(d, name), data)
        for name, data in (pre or {}).items():
            if data == '<dir>':
                os.makedirs(os.path.join(wd, name))
            else:
                _write(os.path.join(wd, name), data)
        with open(jobname + '.tex', 'w', encoding='utf-8') as f:
            f.write(src)
        box = {}
        try:
            with core.time_limit(60.0):
                config = _config(rname)
                if xdirs:
                    config['general']['paux-dirs'] = list(xdirs)
                tex = plasTeX.Compile.parse(jobname + '.tex', config)
                disableLogging()
                doc = tex.ownerDocument
                own = set(doc.context.persistentLabels) if labels is None else set(labels)
                res['ctx_labels'] = {k: _node_dump(n) for k, n in doc.context.labels.items() if k not in own}
                r = importlib.import_module('plasTeX.Renderers.' + rname).Renderer()
                orig = r.cleanup

                def cleanup(document, files, postProcess=None):
                    box['captured'] = _capture(document, labels)
                    return orig(document, files, postProcess=postProcess)
                r.cleanup = cleanup
                r.render(doc)
        except BaseException as e:
            if isinstance(e, KeyboardInterrupt):
                raise
            res['exc'] = '%s: %s' % (type(e).__name__, str(e)[:200])
        finally:
            disableLogging()
            # a failed render leaves its mix-ins on Node; take them off again
            try:
                from plasTeX.DOM import Node
                from plasTeX.Renderers import unmix
                if 'renderer' in vars(Node):
                    del Node.renderer
                if '_mixed_' in vars(Node):
                    unmix(Node)
            except Exception:
                pass
        res['captured'] = box.get('captured')
        res['paux'] = _read(os.path.join(wd, jobname + '.paux'))
        for dp, dn, fn in os.walk(wd):
            for f in fn:
                rel = os.path.relpath(os.path.join(dp, f), wd)
                res['files'].append(rel)
                if rel.endswith('.html'):
                    with open(os.path.join(dp, f), encoding='utf-8', errors='replace') as fh:
                        res['pages'][rel] = fh.read()
        res['files'].sort()
    finally:
        os.chdir(old)
        shutil.rmtree(wd, ignore_errors=True)
        if xroot:
            shutil.rmtree(xroot, ignore_errors=True)
    return res


_SAVED = {}


def saved(doc, rname):
    """Render pool document `doc` once per process with renderer `rname` (no other paux around)."""
    key = (doc, rname)
    if key not in _SAVED:
        r = render(DOCS[doc], rname, labels=DOC_LABELS[doc])
        r.pop('pages', None)
        _SAVED[key] = r
    return _SAVED[key]


def usable(doc, rname):
    """The pool render produced a loadable dict file and a captured label set (otherwise the 'rt' block reports
    the defect and the fault spaces of that file are not enumerated)."""
    s = saved(doc, rname)
    if s['exc'] or s['paux'] is None or s['captured'] is None:
        return False
    P = M.ref_load(s['paux'])
    return M.is_data(P) and type(P[1]) is dict


def _render_job(key):
    return key, saved(*key)


def prewarm(keys):
    todo = [k for k in keys if k not in _SAVED]
    for k, v in core.pmap(_render_job, todo):
        _SAVED[k] = v


# ---------------------------------------------------------------------------
# observing plasTeX
# ---------------------------------------------------------------------------
def _node_dump(n):
    try:
        d = vars(n)
    except TypeError:
        return {'<no vars>': repr(n)[:40]}
    return {(k[1:] if k.startswith('@') else k): v for k, v in d.items()}


def dump_labels(ctx):
    return {k: _node_dump(n) for k, n in list(ctx.labels.items())}


def obs_restore(path, rtype, ctx=None):
    """-> (status, labels dump, warnOnUnrecognized, ctx)"""
    from plasTeX.Context import Context
    if ctx is None:
        ctx = Context()
    st = 'ok'
    try:
        with limit(TL) as box:
            ctx.restore(path, rtype)
        if box.fired:
            st = 'timeout'
    except core.Timeout:
        st = 'timeout'
    except KeyboardInterrupt:
        raise
    except BaseException as e:
        st = 'raises:%s' % type(e).__name__
    return st, dump_labels(ctx), ctx.warnOnUnrecognized, ctx


def persist_ctx(current):
    """A context whose persistentLabels are synthetic nodes carrying the captured rendered strings."""
    from plasTeX.Context import Context
    ctx = Context()
    ctx.warnOnUnrecognized = False
    for label, attrs in current.items():
        n = ctx['Macro']()
        for k, v in attrs.items():
            setattr(n, k, v)
        ctx.persistentLabels[label] = ctx.labels[label] = n
    return ctx


def obs_persist(pctx, path, rtype):
    st = 'ok'
    try:
        with limit(TL) as box:
            pctx.persist(path, rtype)
        if box.fired:
            st = 'timeout'
    except core.Timeout:
        st = 'timeout'
    except KeyboardInterrupt:
        raise
    except BaseException as e:
        st = 'raises:%s' % type(e).__name__
    return st


def labels_match(mode, want, got):
    """'' or a description of the mismatch between restored labels and the model."""
    if mode == 'exact':
        if M.same(got, want):
            return ''
        miss = [k for k in want if k not in got]
        extra = [k for k in got if k not in want]
        if miss or extra:
            return 'restored label set differs: missing %r, unexpected %r' % (miss[:4], extra[:4])
        bad = [k for k in want if not M.same(got[k], want[k])]
        return 'attributes of restored label %r differ: %r != %r' % (bad[0], got[bad[0]], want[bad[0]])
    for k, v in got.items():
        if k not in want:
            return 'restored a label %r that the file does not hold' % (k,)
        if not M.same(v, want[k]):
            return 'attributes of restored label %r differ: %r != %r' % (k, v, want[k])
    return ''


# ---------------------------------------------------------------------------
# E3: one faulted file
# ---------------------------------------------------------------------------
def check_reload(path, rtype, current, Q):
    """The run after a successful save restores the re-saved file: the complete current label set must be there.
    -> (observation, problem or '', deviation ids)"""
    st3, got3, warn3, _ = obs_restore(path, rtype)
    cur_view = {k: M.node_view(v) for k, v in current.items()}
    miss = [k for k in cur_view if not M.same(got3.get(k), cur_view[k])]
    rmode, rwant = M.restore(Q, rtype)
    if st3 != 'ok':
        return st3, 'restore %s on the re-saved file' % st3, []
    if miss:
        o = 'missing %r' % (miss[:4],)
        if rmode == 'subset' and not labels_match(rmode, rwant, got3) and warn3 is False:
            return o, '', [DEV_STALE]       # restore aborted at a malformed entry that persist carried over
        return o, 're-saved file does not restore the complete current label set: missing %r' % (miss[:4],), []
    msg = labels_match(rmode, rwant, got3)
    return 'ok', ('reload: ' + msg) if msg else '', []


DEV_WARN = 'C20.RESTORE_ABORT_LEAVES_WARNINGS_OFF'
DEV_JUNK = 'C20.PERSIST_RAISES_ON_NON_MAPPING_UNDER_RENDERER_KEY'
DEV_STALE = 'C20.STALE_MALFORMED_ENTRY_KEPT_BLOCKS_RELOAD'


def judge_file(faulted, rtype, current, pctx, path, second=None):
    """The whole protocol on one file content.
    faulted: bytes or None; current: {label: attrs} of the document being processed; pctx: persist_ctx(current);
    second: (path2, labels2) of an intact file of ANOTHER document that the same run restores afterwards.
    -> dict(verdict, fids, expected, observed, detail, outcome, feats)"""
    P = M.ref_load(faulted)
    problems = []
    devs = []
    feats = []
    obs = {}
    _write(path, faulted)

    # -- a run that restores the faulted file --------------------------------
    st, got, warn, ctx = obs_restore(path, rtype)
    obs['restore'] = st
    obs['restored'] = sorted(map(repr, got))
    mode, want = M.restore(P, rtype)
    if st != 'ok':
        problems.append('restore %s on the faulted file' % st)
    msg = labels_match(mode, want, got)
    if msg:
        problems.append('restore: ' + msg)
    ents = M.entries(P, rtype)
    aborted = M.has_junk_under(P, rtype) or (mode == 'subset' and ents is not None and len(got) < len(ents))
    if mode == 'subset':
        feats.append('malformed_entries')
    obs['warnOnUnrecognized'] = warn
    if warn is not True:
        if aborted and warn is False:
            devs.append(DEV_WARN)
        else:
            problems.append('restore left warnOnUnrecognized=%r' % (warn,))
    if _read(path) != faulted:
        problems.append('restore modified the file')
    if second is not None:
        st2, got2, _, _ = obs_restore(second[0], rtype, ctx)
        miss = [k for k in second[1] if not M.same(got2.get(k), second[1][k])]
        lost = [k for k in got if k not in got2]
        obs['second_file'] = st2 if not (miss or lost) else '%s missing=%r lost=%r' % (st2, miss[:3], lost[:3])
        if st2 != 'ok' or miss or lost:
            problems.append('after the faulted file, an intact file of another document did not restore completely')

    # -- the run of the document itself: save over the faulted previous file ---
    before = _read(path)
    ps = obs_persist(pctx, path, rtype)
    obs['persist'] = ps
    after = _read(path)
    Q = M.ref_load(after)
    junk = M.has_junk_under(P, rtype)
    reload_needed = True
    if ps != 'ok':
        if junk and ps == 'raises:TypeError' and current and after == before:
            devs.append(DEV_JUNK)
            reload_needed = False
        else:
            problems.append('persist %s over the faulted file' % ps)
            reload_needed = False
    elif junk and not current and M.is_data(Q) and M.canon(Q[1]) == M.canon(P[1]):
        devs.append(DEV_JUNK)           # nothing to assign, junk written back unchanged
        reload_needed = False
    else:
        pmode, pwant = M.persist(P, rtype, current)
        msg = M.persist_ok(pmode, pwant, Q, rtype)
        if msg:
            problems.append('persist: ' + msg)
            reload_needed = False
    obs['resaved'] = Q[0] if not M.is_data(Q) else 'DATA keys=%s' % (
        sorted(map(repr, Q[1])) if isinstance(Q[1], dict) else type(Q[1]).__name__)

    # -- the next run restores the re-saved file -------------------------------
    if reload_needed:
        robs, rprob, rdevs = check_reload(path, rtype, current, Q)
        obs['reload'] = robs
        if rprob:
            problems.append(rprob)
        devs.extend(rdevs)

    outcome = ('%s:%s' % P if P[0] == 'GARBAGE' else P[0], mode, len(got), warn, ps, obs.get('resaved'), obs.get('reload'))
    expected = {'restore': 'ok', 'restored': sorted(map(repr, want)) if mode == 'exact' else 'any subset of %r' % sorted(map(repr, want)),
                'warnOnUnrecognized': True, 'persist': 'ok',
                'resaved': 'DATA dict with the complete current label set under %r' % rtype, 'reload': 'ok'}
    if second is not None:
        expected['second_file'] = 'ok'
    if problems:
        return {'verdict': 'violation', 'fids': devs, 'expected': expected, 'observed': obs,
                'detail': '; '.join(problems), 'outcome': outcome, 'feats': feats, 'P': P}
    if devs:
        return {'verdict': 'known', 'fids': devs, 'expected': expected, 'observed': obs,
                'detail': 'matches the oracle under deviations %s' % devs, 'outcome': outcome, 'feats': feats, 'P': P}
    return {'verdict': 'ok', 'fids': [], 'expected': expected, 'observed': obs, 'detail': '', 'outcome': outcome,
            'feats': feats, 'P': P}


# -- fault spaces --------------------------------------------------------------
HEAD = 13        # PROTO(2) + FRAME(9) + first opcode and its MEMOIZE


def opcode_positions(data):
    try:
        return [pos for op, arg, pos in pickletools.genops(data)]
    except Exception:
        return []


def flip2_partners(data, tier, ops=None):
    """For every first bit i: the sorted list of second bits j > i of the stated window.
    quick:    both bits inside bytes [0, HEAD)  or  both inside a 2-byte window [p, p+2) starting at an opcode
    thorough: i inside bytes [0, HEAD) (j anywhere)  or  byte(j) - byte(i) <= DIST   (a superset of quick)"""
    n = len(data)
    hb = min(HEAD, n) * 8
    if tier == 'thorough':
        def partners(i):
            if i < hb:
                return range(i + 1, n * 8)
            return range(i + 1, min(n, (i >> 3) + DIST + 1) * 8)
        return partners
    opset = set(opcode_positions(data) if ops is None else ops)

    def partners(i):
        js = set()
        if i < hb:
            js.update(range(i + 1, hb))
        b = i >> 3
        for p in (b - 1, b):
            if p in opset:
                js.update(range(i + 1, min(p + 2, n) * 8))
        return sorted(js)
    return partners


DIST = 8


def foreign_menu(rname, base, other_bytes):
    o = _other(rname)
    obj = pickle.loads(base)
    both = dict(pickle.loads(other_bytes))
    both.update(obj)
    ok_entry = {'ref': '7', 'id': 'aa:ok', 'url': 'x.html#aa:ok'}
    menu = [
        ('missing', None),
        ('intact', base),
        ('text', b'% plasTeX aux\nsec:a 1 sec-a.html\n'),
        ('nul', b'\x00' * 64),
        ('json', b'{"%s": {}}' % rname.encode()),
        ('list', pickle.dumps([1, 2])),
        ('str', pickle.dumps(rname)),
        ('int', pickle.dumps(5)),
        ('none', pickle.dumps(None)),
        ('r_str', pickle.dumps({rname: 'x'})),
        ('r_none', pickle.dumps({rname: None})),
        ('r_list', pickle.dumps({rname: []})),
        ('r_int', pickle.dumps({rname: 5})),
        ('other_none', pickle.dumps({o: None})),
        ('entry_none', pickle.dumps({rname: {'zz:stale': None}})),
        ('entry_str', pickle.dumps({rname: {'zz:stale': '1'}})),
        ('entry_mixed', pickle.dumps({rname: {'aa:ok': ok_entry, 'zz:stale': None, 'zz:after': {'ref': '8'}}})),
        ('entry_badmacro', pickle.dumps({rname: {'zz:m': {'macroName': 5, 'ref': '1'}}})),
        ('entry_extra_attr', pickle.dumps({rname: {'zz:x': {'ref': '1', 'note': 'n'}}})),
        ('other_renderer', other_bytes),
        ('both_renderers', pickle.dumps(both)),
        ('proto0', pickle.dumps(obj, 0)),
        ('proto2', pickle.dumps(obj, 2)),
        ('trailing_junk', base + b'garbage'),
        ('doubled', base + base),
    ]
    return menu


def fault_index_size(doc, rname, kind, tier):
    """Faults of one kind are addressed by an index range; for flip2 the index is the FIRST bit."""
    doc = _base_doc(doc)
    base = saved(doc, rname)['paux']
    n = len(base)
    if kind == 'prefix':
        return n
    if kind in ('flip1', 'flip2'):
        return n * 8
    if kind == 'foreign':
        return len(foreign_menu(rname, base, saved(doc, _other(rname))['paux']))
    raise ValueError(kind)


def fault_iter(doc, rname, kind, tier, lo, hi):
    """Canonical enumeration of the fault descriptors (JSON-able lists) with index in [lo, hi)."""
    doc = _base_doc(doc)
    base = saved(doc, rname)['paux']
    if kind == 'prefix':
        for k in range(lo, hi):
            yield ['prefix', k]
    elif kind == 'flip1':
        for i in range(lo, hi):
            yield ['flip', i]
    elif kind == 'flip2':
        partners = flip2_partners(base, tier)
        for i in range(lo, hi):
            for j in partners(i):
                yield ['flip', i, j]
    elif kind == 'foreign':
        for name, _ in foreign_menu(rname, base, saved(doc, _other(rname))['paux'])[lo:hi]:
            yield ['foreign', name]
    else:
        raise ValueError(kind)


def fault_blocks(doc, rname, kind, tier, target):
    """Split the index range into blocks of about `target` cases; -> ([(lo, hi)], total cases)."""
    n = fault_index_size(doc, rname, kind, tier)
    if kind != 'flip2':
        return [(lo, min(n, lo + target)) for lo in range(0, n, target)], n
    partners = flip2_partners(saved(_base_doc(doc), rname)['paux'], tier)
    out, lo, acc, total = [], 0, 0, 0
    for i in range(n):
        c = len(partners(i))
        acc += c
        total += c
        if acc >= target:
            out.append((lo, i + 1))
            lo, acc = i + 1, 0
    if lo < n and acc:
        out.append((lo, n))
    return out, total


def apply_fault(doc, rname, fault):
    doc = _base_doc(doc)
    base = saved(doc, rname)['paux']
    if fault[0] == 'prefix':
        return base[:fault[1]]
    if fault[0] == 'flip':
        b = bytearray(base)
        for i in fault[1:]:
            b[i >> 3] ^= 1 << (i & 7)
        return bytes(b)
    if fault[0] == 'foreign':
        return dict(foreign_menu(rname, base, saved(doc, _other(rname))['paux']))[fault[1]]
    raise ValueError(fault)


def _base_doc(doc):
    """'empty+sec' = the file saved by document 'empty', met by a run of document 'sec' (the document gained
    labels since the file was written); plain names use the same document for both."""
    return doc.split('+')[0]


def _cur_doc(doc):
    return doc.split('+')[-1]


def _second_doc(doc):
    return 'eq' if 'sec' in doc.split('+') else 'sec'


class Env(object):
    """Everything a fault case of (doc, rname) needs; scratch directory owned by the caller."""

    def __init__(self, doc, rname, tmp):
        s = saved(_base_doc(doc), rname)
        c = saved(_cur_doc(doc), rname)
        for x in (_base_doc(doc), _cur_doc(doc), _second_doc(doc)):
            if not usable(x, rname):
                raise RuntimeError('pool document %s/%s did not render to a loadable file: %s' % (x, rname, saved(x, rname)['exc']))
        self.doc, self.rname = doc, rname
        self.base = s['paux']
        self.current = c['captured']
        self.pctx = persist_ctx(self.current)
        self.path = os.path.join(tmp, 'job.paux')
        s2 = saved(_second_doc(doc), rname)
        self.path2 = os.path.join(tmp, 'other.paux')
        _write(self.path2, s2['paux'])
        self.second = (self.path2, {k: M.node_view(v) for k, v in s2['captured'].items()})

    def judge(self, fault):
        data = apply_fault(self.doc, self.rname, fault)
        r = judge_file(data, self.rname, self.current, self.pctx, self.path, self.second)
        r['nontrivial'] = data != self.base
        return r


def _fault_block(arg):
    """Runs inside a hardened forked child.  arg = (doc, rname, kind, [fault, ...])"""
    doc, rname, kind, faults = arg
    _harden_child()
    rep = core.Report()
    tmp = _mkdtemp()
    try:
        env = Env(doc, rname, tmp)
        for fault in faults:
            r = env.judge(fault)
            case = {'kind': 'fault', 'doc': doc, 'rname': rname, 'fault': fault}
            rep.case(key=(doc, rname, tuple(fault)), nontrivial=r['nontrivial'], outcome=(kind,) + tuple(map(repr, r['outcome'])))
            P = r['P']
            rep.count('%s.ref_%s' % (kind, 'loads' if M.is_data(P) else 'garbage'))
            if M.is_data(P) and r['nontrivial']:
                rep.count('%s.loads_%s' % (kind, 'with_labels' if M.entries(P, rname) else 'without_labels'))
            for f in r['feats']:
                rep.count('%s.%s' % (kind, f))
            if r['verdict'] == 'ok':
                if kind != 'flip2' or (fault[1] % 997) == 0:
                    rep.sample({'case': case, 'reference_reading': P[0] if not M.is_data(P) else 'DATA',
                                'restored_labels': r['observed']['restored'], 'persist': r['observed']['persist'],
                                'resaved': r['observed']['resaved']})
            elif r['verdict'] == 'known':
                for f in r['fids']:
                    rep.known_finding(f, case, r['detail'])
                    rep.count('deviation.%s.%s' % (kind, f.split('.')[1]))
            else:
                rep.violation(case, r['expected'], r['observed'], r['detail'])
    finally:
        shutil.rmtree(tmp, ignore_errors=True)
    return rep.close_block()


def _isolated_faults(doc, rname, kind, faults):
    """Run a list of fault cases in a fresh hardened child; a dead / hung child is narrowed down by bisection."""
    st, res = core.run_isolated(_fault_block, (doc, rname, kind, faults), timeout=120 + len(faults) * 0.05)
    if st == 'ok':
        return res
    rep = core.Report()
    if len(faults) > 1:
        mid = len(faults) // 2
        rep.merge(_isolated_faults(doc, rname, kind, faults[:mid]))
        rep.merge(_isolated_faults(doc, rname, kind, faults[mid:]))
        return rep
    fault = faults[0]
    rep.case(key=(doc, rname, tuple(fault)), nontrivial=True, outcome='process died')
    rep.violation({'kind': 'fault', 'doc': doc, 'rname': rname, 'fault': fault}, 'processing continues',
                  'child process %s: %s' % (st, str(res)[-300:]), 'the process handling the faulted file died or hung')
    return rep.close_block()


def _isolated_real(block):
    st, res = core.run_isolated(_real_block, block, timeout=300)
    if st == 'ok':
        return res
    rep = core.Report()
    rep.error('isolated block %r failed: %s %s' % (block, st, str(res)[-400:]))
    return rep


# ---------------------------------------------------------------------------
# round trips through the real call sites
# ---------------------------------------------------------------------------
def _rt_checks(doc, rname):
    """-> list of (sub, nontrivial, problem or '', expected, observed)"""
    from plasTeX.Context import Context
    out = []
    s = saved(doc, rname)
    cap = s['captured']
    if s['exc'] or cap is None:
        return [('render', True, 'rendering raised %s' % s['exc'], 'no exception', s['exc'])]
    if doc != 'empty' and not cap:
        return [('render', True, 'no label was captured from the rendered document', 'labels', cap)]
    if set(cap) != set(DOC_LABELS[doc]):
        return [('render', True, 'the document does not know every label its source defines', sorted(DOC_LABELS[doc]), sorted(cap))]
    P = M.ref_load(s['paux'])
    want = {rname: cap}
    prob = ''
    if not M.is_data(P):
        prob = 'Renderer.render left no loadable <jobname>.paux in the working directory (%s)' % (P,)
    elif type(P[1]) is not dict or P[1] != want:
        prob = 'saved file differs from the label set of the rendered document'
    out.append(('saved==rendered', bool(cap), prob, want, P[1] if M.is_data(P) else P))
    for label, a in cap.items():
        for need in ('ref', 'id', 'url'):
            if need not in a:
                out.append(('attrs', True, 'rendered label %r has no %s' % (label, need), need, a))
        target = str(a.get('url', '')).split('#')[0]
        if target and target not in s['files']:
            out.append(('target', True, 'target file of label %r was not produced' % label, target, s['files']))
    tmp = _mkdtemp()
    try:
        path = os.path.join(tmp, 'a.paux')
        _write(path, s['paux'])
        st, got, warn, ctx = obs_restore(path, rname)
        wantv = {k: M.node_view(v) for k, v in cap.items()}
        prob = '' if st == 'ok' else 'restore %s' % st
        prob = prob or labels_match('exact', wantv, got)
        if not prob:
            for label, a in cap.items():
                n = ctx.labels[label]
                for k, v in a.items():
                    g = getattr(n, M.REMAP.get(k, k), None)
                    if g != v:
                        prob = 'restored node of %r: %s is %r, saved %r' % (label, M.REMAP.get(k, k), g, v)
        if not prob and warn is not True:
            prob = 'restore left warnOnUnrecognized=%r' % warn
        out.append(('restore', bool(cap), prob, wantv, got))
        for other in (_other(rname), 'none', rname.lower()):
            st, got, warn, _ = obs_restore(path, other)
            prob = '' if (st == 'ok' and not got) else 'restore under renderer key %r: %s, labels %r' % (other, st, sorted(got))
            out.append(('restore-other-key:' + other, bool(cap), prob, {}, got))
        st, got, warn, _ = obs_restore(os.path.join(tmp, 'nonexistent.paux'), rname)
        out.append(('restore-missing', True, '' if (st == 'ok' and not got) else 'restore of a missing file: %s' % st, {}, got))
        # both renderers into one file, either order: separately per renderer
        so = saved(doc, _other(rname))
        if not so['exc'] and so['captured'] is not None:
            p2 = os.path.join(tmp, 'two.paux')
            _write(p2, None)
            a = obs_persist(persist_ctx(cap), p2, rname)
            b = obs_persist(persist_ctx(so['captured']), p2, _other(rname))
            Q = M.ref_load(_read(p2))
            want2 = {rname: cap, _other(rname): so['captured']}
            prob = ''
            if a != 'ok' or b != 'ok':
                prob = 'persist %s / %s' % (a, b)
            elif not M.is_data(Q) or Q[1] != want2:
                prob = 'file after saving under both renderer keys differs from the two label sets'
            else:
                for rn, c in want2.items():
                    st, got, _, _ = obs_restore(p2, rn)
                    prob = prob or ('' if st == 'ok' else 'restore %s' % st) or labels_match(
                        'exact', {k: M.node_view(v) for k, v in c.items()}, got)
            out.append(('two-renderers', True, prob, want2, Q[1] if M.is_data(Q) else Q))
    finally:
        shutil.rmtree(tmp, ignore_errors=True)
    return out


_A_RE = re.compile(r'<a\b[^>]*?\bhref="([^"]*)"[^>]*>(.*?)</a>', re.S)


def _xdoc_check(doc, rname, variant):
    """Document B in the same directory as A's saved file refers to A's labels."""
    s = saved(doc, rname)
    cap = s['captured'] or {}
    pre = {'docA.paux': s['paux']}
    if variant == 'with_bad':
        pre['0bad.paux'] = s['paux'][:len(s['paux']) // 2]
        pre['zbad.paux'] = pickle.dumps([1, 2])
        pre['text.paux'] = b'not a pickle\n'
        pre['mbad.paux'] = b''
    body = ['\\section{Own wqz}\\label{own:z}', 'Own \\ref{own:z}.']
    for i, label in enumerate(cap):
        body.append('wqr%d \\ref{%s}.' % (i, label))
    src = '\\documentclass{article}\n\\begin{document}\n%s\n\\end{document}\n' % '\n'.join(body)
    pre_dir = {'dir.paux': '<dir>'} if variant == 'with_bad' else {}
    pre.update(pre_dir)
    r = render(src, rname, jobname='docB', pre=pre, labels=['own:z'])
    if r['exc']:
        return 'processing document B raised %s' % r['exc'], 'no exception', r['exc']
    wantv = {k: M.node_view(v) for k, v in cap.items()}
    msg = labels_match('exact', wantv, r['ctx_labels'])
    if msg:
        return 'labels of A in the context of B: ' + msg, wantv, r['ctx_labels']
    anchors = set()
    for page in r['pages'].values():
        for href, text in _A_RE.findall(page):
            anchors.add((html.unescape(href), html.unescape(re.sub(r'<[^>]*>', '', text)).strip()))
    for label, a in cap.items():
        want = (str(a['url']), str(a['ref']))
        if want not in anchors:
            return ('\\ref{%s} in B did not render a link to A' % label, list(want),
                    sorted(x for x in anchors if x[1] == want[1] or x[0] == want[0])[:6])
    B = M.ref_load(r['paux'])
    if not M.is_data(B) or not isinstance(B[1], dict) or set(B[1]) != {rname} or 'own:z' not in B[1][rname]:
        return 'docB.paux was not written with B\'s own labels under the renderer key', {rname: ['own:z']}, repr(B)[:200]
    return '', None, None


XNAME_JOBS = ['paper', 'ab']
XNAME_DOCS = ['sec', 'eq', 'float', 'thm', 'uni']          # pairwise disjoint label names


def xname_others(job):
    """Job names of the other documents in the directory, by their relation to the current job name:
    two proper suffix-extensions, a prefix-extension, an unrelated name, a proper suffix of the current name."""
    return ['supplement-' + job, 'x' + job, job + '2', 'other', job[1:]]


def _xnames_check(job, rname):
    """The directory of document `job` holds the saved files of five other documents whose job names extend /
    are contained in / are unrelated to `job`; every label of every one of them must resolve in `job`
    through the real Compile.parse path (which skips only <job>.paux itself)."""
    pre, cap, owner = {}, {}, {}
    for name, doc in zip(xname_others(job), XNAME_DOCS):
        s = saved(doc, rname)
        if not usable(doc, rname):
            return 'pool document %s did not render' % doc, None, s['exc']
        pre[name + '.paux'] = s['paux']
        for k, v in s['captured'].items():
            cap[k] = v
            owner[k] = name
    body = ['\\section{Own wqz}\\label{own:z}', 'Own \\ref{own:z}.']
    for i, label in enumerate(cap):
        body.append('wqr%d \\ref{%s}.' % (i, label))
    src = '\\documentclass{article}\n\\begin{document}\n%s\n\\end{document}\n' % '\n'.join(body)
    r = render(src, rname, jobname=job, pre=pre, labels=['own:z'])
    if r['exc']:
        return 'processing document %s raised %s' % (job, r['exc']), 'no exception', r['exc']
    wantv = {k: M.node_view(v) for k, v in cap.items()}
    got = r['ctx_labels']
    miss = sorted(set(owner[k] + '.paux' for k in wantv if k not in got))
    if miss:
        return ('labels of %s were not restored while processing %s.tex' % (', '.join(miss), job),
                sorted(wantv), sorted(got))
    msg = labels_match('exact', wantv, got)
    if msg:
        return 'labels of the other documents in the context of %s: %s' % (job, msg), wantv, got
    anchors = set()
    for page in r['pages'].values():
        for href, text in _A_RE.findall(page):
            anchors.add((html.unescape(href), html.unescape(re.sub(r'<[^>]*>', '', text)).strip()))
    for label, a in cap.items():
        want = (str(a['url']), str(a['ref']))
        if want not in anchors:
            return ('\\ref{%s} (label of %s.paux) did not render a link' % (label, owner[label]), list(want),
                    sorted(x for x in anchors if x[1] == want[1] or x[0] == want[0])[:6])
    B = M.ref_load(r['paux'])
    if not M.is_data(B) or not isinstance(B[1], dict) or set(B[1]) != {rname} or set(B[1][rname]) != {'own:z'}:
        return '%s.paux was not written with exactly the document\'s own labels' % job, {rname: ['own:z']}, repr(B)[:200]
    return '', None, None


# ---------------------------------------------------------------------------
# sequences of documents with OVERLAPPING label names, through plasTeX.Compile.run
# ---------------------------------------------------------------------------
SEQ_A = r"""\documentclass{article}
\begin{document}
\section{Intro A wqa}\label{sec:intro}
\subsection{Sub A wqb}
\subsection{Summary A wqc}\label{sec:summary}
\begin{equation}x=1\label{eq:main}\end{equation}
Own wqo \ref{sec:intro} \ref{sec:summary} \ref{eq:main}.
\end{document}
"""
SEQ_A_EXPECT = {'sec:intro': ('1', 'Intro A wqa'), 'sec:summary': ('1.2', 'Summary A wqc'), 'eq:main': ('1', None)}
SEQ_B = r"""\documentclass{article}
\begin{document}
\section{First B wqd}\label{sec:b}
\begin{equation}y=0\end{equation}
\section{Second B wqe}
\section{\emph{Summary} \textbf{B} wqf}\label{sec:summary}
\begin{equation}y=2\label{eq:main}\end{equation}
\section{Dup first wqg}\label{dup:x}
\section{Dup last wqh}\label{dup:x}
Own wqo \ref{sec:b} \ref{sec:summary} \ref{eq:main} \ref{dup:x}. Other wqp \ref{sec:intro}.
\end{document}
"""
# number / plain title words the SOURCE gives every label of B; a name defined twice means its LAST definition
SEQ_B_EXPECT = {'sec:b': ('1', 'First B wqd'), 'sec:summary': ('3', None), 'eq:main': ('2', None),
                'dup:x': ('5', 'Dup last wqh')}
SEQ_C = r"""\documentclass{article}
\begin{document}
\section{Own C wqi}\label{own:c}
Refs wqq \ref{sec:b} \ref{sec:summary} \ref{eq:main} \ref{dup:x} \ref{own:c}.
\end{document}
"""
SEQ_VARIANTS = ['samedir', 'pauxdirs', 'outdir', 'alone']     # 'alone': docB without docA around (only the twice-defined label)


def compile_run(wd, jobname, src, rname, paux_dirs=(), outdir=None):
    """plasTeX.Compile.run (the command-line path: parse with paux discovery, load_renderer, render) in directory wd.
    -> dict(exc, paux, pages)"""
    import io
    import plasTeX.Compile
    from plasTeX.Logging import disableLogging
    vstate.reset()
    res = {'exc': None, 'paux': None, 'pages': {}}
    old = os.getcwd()
    os.chdir(wd)
    out_abs = os.path.join(wd, outdir.replace('$jobname', jobname)) if outdir else wd
    try:
        for dp, dn, fn in os.walk(wd):          # pages of an earlier document must not be mistaken for this one's
            for f in fn:
                if f.endswith('.html'):
                    os.remove(os.path.join(dp, f))
        with open(jobname + '.tex', 'w', encoding='utf-8') as f:
            f.write(src)
        config = _config(rname)
        if paux_dirs:
            config['general']['paux-dirs'] = list(paux_dirs)
        if outdir:
            config['files']['directory'] = outdir
        try:
            with core.time_limit(60.0), contextlib.redirect_stdout(io.StringIO()):
                plasTeX.Compile.run(jobname + '.tex', config)
        except BaseException as e:
            if isinstance(e, KeyboardInterrupt):
                raise
            res['exc'] = '%s: %s' % (type(e).__name__, str(e)[:200])
        finally:
            disableLogging()
        res['paux'] = _read(os.path.join(wd, jobname + '.paux'))
        for dp, dn, fn in os.walk(out_abs):
            for f in fn:
                if f.endswith('.html'):
                    with open(os.path.join(dp, f), encoding='utf-8', errors='replace') as fh:
                        res['pages'][os.path.relpath(os.path.join(dp, f), out_abs)] = fh.read()
    finally:
        os.chdir(old)
    return res


def _anchors(pages):
    out = set()
    for page in pages.values():
        for href, text in _A_RE.findall(page):
            out.add((html.unescape(href), html.unescape(re.sub(r'<[^>]*>', '', text)).strip()))
    return out


def _own_saved_ok(who, r, rname, expect, extra_keys=()):
    """The file a document saved holds, under the renderer key, exactly the labels its source defines, with the
    number the source gives them, the title it gives them, and the target its own \\ref{} links to.
    -> (problem, expected, observed, mapping)"""
    if r['exc']:
        return 'processing %s raised %s' % (who, r['exc']), 'no exception', r['exc'], None
    P = M.ref_load(r['paux'])
    if not M.is_data(P) or type(P[1]) is not dict or set(P[1]) != {rname} | set(extra_keys) or type(P[1].get(rname)) is not dict:
        return '%s.paux is not a dict with the renderer key(s)' % who, sorted({rname} | set(extra_keys)), repr(P)[:300], None
    got = P[1][rname]
    if set(got) != set(expect):
        return ('%s.paux does not hold exactly the labels %s defines (missing %s, unexpected %s)'
                % (who, who, sorted(set(expect) - set(got)), sorted(set(got) - set(expect))), sorted(expect), sorted(got), None)
    anchors = _anchors(r['pages'])
    alltext = '\n'.join(r['pages'].values())
    for label, (ref, title) in expect.items():
        a = got[label]
        if type(a) is not dict or a.get('ref') != ref or a.get('id') != label:
            return ('%s.paux: label %s saved with number %r, the document gives it %r (last definition wins)'
                    % (who, label, a.get('ref') if type(a) is dict else a, ref), {'ref': ref, 'id': label}, a, None)
        if title is not None and a.get('title') != title:
            return '%s.paux: title of %s' % (who, label), title, a.get('title'), None
        if 'title' in a and str(a['title']) not in alltext:
            return ('%s.paux: saved title of %s is not what the document rendered' % (who, label), 'a string of the output pages',
                    a['title'], None)
        if (str(a.get('url')), ref) not in anchors:
            return ('%s.paux: saved target of %s is not where the document\'s own \\ref{%s} links to' % (who, label, label),
                    sorted(x for x in anchors if x[1] == ref)[:5], [a.get('url'), ref], None)
    return '', None, None, got


def _seq_check(variant, rname):
    """A, then B (same label names, other numbers/targets; one name defined twice) in A's directory, B again with
    the other renderer, A again, then C seeing ONLY B's file: B's saved data is B's complete label set with B's
    own values, and C resolves to them."""
    o = _other(rname)
    outdir = 'out-$jobname' if variant == 'outdir' else None
    top = _mkdtemp()
    try:
        D = os.path.join(top, 'ab'); os.makedirs(D)
        os.makedirs(os.path.join(D, 'dir.paux'))                 # "unreadable" neighbours
        os.symlink(os.path.join(D, 'nowhere'), os.path.join(D, 'dangling.paux'))
        alone = variant == 'alone'
        if not alone:
            ra = compile_run(D, 'docA', SEQ_A, rname, outdir=outdir)
            prob, e, ob, A = _own_saved_ok('docA', ra, rname, SEQ_A_EXPECT)
            if prob:
                return 'step A: ' + prob, e, ob
            a_bytes = ra['paux']
        rb = compile_run(D, 'docB', SEQ_B, rname, outdir=outdir)
        prob, e, ob, B = _own_saved_ok('docB', rb, rname, SEQ_B_EXPECT)
        if prob:
            return ('step B (alone): ' if alone else 'step B (after restoring docA.paux, which shares label names): ') + prob, e, ob
        if not alone:
            if _read(os.path.join(D, 'docA.paux')) != a_bytes:
                return 'step B: processing docB modified docA.paux', None, None
            want = (str(A['sec:intro']['url']), '1')
            if want not in _anchors(rb['pages']):
                return 'step B: \\ref{sec:intro} did not resolve to docA', list(want), sorted(x for x in _anchors(rb['pages']) if x[1] == '1')[:5]
        rb2 = compile_run(D, 'docB', SEQ_B, o, outdir=outdir)
        prob, e, ob, B2 = _own_saved_ok('docB', rb2, o, SEQ_B_EXPECT, extra_keys=[rname])
        if prob:
            return 'step B with the other renderer into the same file: ' + prob, e, ob
        P = M.ref_load(rb2['paux'])
        if not M.same(P[1][rname], B):
            return 'step B with the other renderer changed the section of the first renderer', B, P[1][rname]
        if not alone:
            ra2 = compile_run(D, 'docA', SEQ_A, rname, outdir=outdir)
            prob, e, ob, A2 = _own_saved_ok('docA', ra2, rname, SEQ_A_EXPECT)
            if prob:
                return 'step A again (docB.paux, which shares label names, now present): ' + prob, e, ob
            if not M.same(A2, A):
                return 'step A again: saved data changed', A, A2
        # C sees only B's file
        D3 = os.path.join(top, 'bonly'); os.makedirs(D3)
        shutil.copy(os.path.join(D, 'docB.paux'), os.path.join(D3, 'docB.paux'))
        if variant == 'pauxdirs':
            D2 = os.path.join(top, 'c'); os.makedirs(D2)
            rc = compile_run(D2, 'docC', SEQ_C, rname, paux_dirs=[D3, os.path.join(top, 'missing-dir')])
        else:
            D2 = D3
            rc = compile_run(D2, 'docC', SEQ_C, rname, outdir=outdir)
        prob, e, ob, C = _own_saved_ok('docC', rc, rname, {'own:c': ('1', 'Own C wqi')})
        if prob:
            return 'step C: ' + prob, e, ob
        anchors = _anchors(rc['pages'])
        for label, (ref, title) in SEQ_B_EXPECT.items():
            want = (str(B[label]['url']), ref)
            if want not in anchors:
                return ('step C: \\ref{%s} does not link to docB\'s %s' % (label, label), list(want),
                        sorted(x for x in anchors if x[0] == want[0] or x[1] == ref)[:5])
        if _read(os.path.join(D3, 'docB.paux')) != rb2['paux']:
            return 'step C: processing docC modified docB.paux', None, None
    finally:
        shutil.rmtree(top, ignore_errors=True)
    return '', None, None


# ---------------------------------------------------------------------------
# where the neighbours' files sit: working directory and / or the directories listed in paux-dirs
# ---------------------------------------------------------------------------
# layout name -> (documents whose .paux is in the working directory, [documents per listed directory, ...])
LAYOUTS = {
    'cwd_only': (['sec', 'eq'], []),
    'dirs_only': ([], [['sec', 'eq']]),
    'cwd_and_dir': (['sec'], [['eq']]),
    'cwd_and_two_dirs': (['sec'], [['eq'], ['float', 'thm']]),
    'cwd_and_empty_dir': (['sec', 'eq'], [[]]),
    'same_document_in_both': (['sec', 'float'], [['sec', 'eq']]),
}


def _layout_check(layout, rname):
    """Every label saved by a document whose .paux is in the working directory OR in a listed directory resolves
    in the current document (real Compile.parse path)."""
    in_cwd, in_dirs = LAYOUTS[layout]
    cap, where = {}, {}
    for doc in in_cwd + [d for ds in in_dirs for d in ds]:
        if not usable(doc, rname):
            return 'pool document %s did not render' % doc, None, saved(doc, rname)['exc']
    pre = {'doc-%s.paux' % d: saved(d, rname)['paux'] for d in in_cwd}
    extra = [{'doc-%s.paux' % d: saved(d, rname)['paux'] for d in ds} for ds in in_dirs]
    for d in in_cwd:
        for k, v in saved(d, rname)['captured'].items():
            cap[k] = v
            where.setdefault(k, []).append('working directory/doc-%s.paux' % d)
    for i, ds in enumerate(in_dirs):
        for d in ds:
            for k, v in saved(d, rname)['captured'].items():
                cap[k] = v
                where.setdefault(k, []).append('paux-dirs[%d]/doc-%s.paux' % (i, d))
    body = ['\\section{Own wqz}\\label{own:z}', 'Own \\ref{own:z}.']
    for i, label in enumerate(cap):
        body.append('wqr%d \\ref{%s}.' % (i, label))
    src = '\\documentclass{article}\n\\begin{document}\n%s\n\\end{document}\n' % '\n'.join(body)
    r = render(src, rname, jobname='docC', pre=pre, labels=['own:z'], extra=extra)
    if r['exc']:
        return 'processing docC raised %s' % r['exc'], 'no exception', r['exc']
    wantv = {k: M.node_view(v) for k, v in cap.items()}
    got = r['ctx_labels']
    miss = sorted(set(w for k in wantv if k not in got for w in where[k]))
    if miss:
        return 'labels of %s were not restored while processing docC.tex' % ', '.join(miss), sorted(wantv), sorted(got)
    msg = labels_match('exact', wantv, got)
    if msg:
        return 'labels of the other documents in the context of docC: ' + msg, wantv, got
    anchors = _anchors(r['pages'])
    for label, a in cap.items():
        want = (str(a['url']), str(a['ref']))
        if want not in anchors:
            return ('\\ref{%s} (saved in %s) did not render a link' % (label, ' and '.join(where[label])), list(want),
                    sorted(x for x in anchors if x[1] == want[1] or x[0] == want[0])[:6])
    B = M.ref_load(r['paux'])
    if not M.is_data(B) or not isinstance(B[1], dict) or set(B[1]) != {rname} or set(B[1][rname]) != {'own:z'}:
        return 'docC.paux was not written with exactly the document\'s own labels', {rname: ['own:z']}, repr(B)[:200]
    return '', None, None


PREV_FAULTS = ['empty', 'half', 'lastbyte', 'text', 'list', 'other_renderer', 'flip_first_op', 'r_none', 'labelless_flip']


def _prev_bytes(doc, rname, name):
    base = saved(doc, rname)['paux']
    if name == 'empty':
        return b''
    if name == 'half':
        return base[:len(base) // 2]
    if name == 'lastbyte':
        return base[:-1]
    if name == 'text':
        return b'not a pickle\n'
    if name == 'list':
        return pickle.dumps([1, 2])
    if name == 'other_renderer':
        return saved(doc, _other(rname))['paux']
    if name == 'flip_first_op':
        b = bytearray(base)
        b[11] ^= 0x20
        return bytes(b)
    if name == 'r_none':
        return pickle.dumps({rname: None})
    if name == 'labelless_flip':
        # the file an earlier, label-less version of the document saved ({rname: {}}), one bit flipped:
        # the inner EMPTY_DICT opcode '}' becomes EMPTY_LIST ']'
        b = bytearray(saved('empty', rname)['paux'])
        b[21] ^= 0x20
        return bytes(b)
    raise ValueError(name)


def _prev_check(doc, rname, name):
    """Renderer.render of the document itself, with a faulted <jobname>.paux left by an earlier run.
    -> (verdict, fids, problem, expected, observed)"""
    data = _prev_bytes(doc, rname, name)
    P = M.ref_load(data)
    r = render(DOCS[doc], rname, pre={'job.paux': data}, labels=DOC_LABELS[doc])
    cap = r['captured']
    if r['exc']:
        if M.has_junk_under(P, rname) and r['exc'].startswith('TypeError') and cap and r['paux'] == data:
            return 'known', [DEV_JUNK], 'render raised %s' % r['exc'], 'no exception', r['exc']
        return 'violation', [], 'rendering over a faulted previous file raised %s' % r['exc'], 'no exception', r['exc']
    if cap is None:
        return 'violation', [], 'nothing captured', None, None
    Q = M.ref_load(r['paux'])
    if M.has_junk_under(P, rname) and not cap and M.is_data(Q) and M.canon(Q[1]) == M.canon(P[1]):
        return 'known', [DEV_JUNK], 'junk under the renderer key written back', None, None
    pmode, pwant = M.persist(P, rname, cap)
    msg = M.persist_ok(pmode, pwant, Q, rname)
    if msg:
        return 'violation', [], msg, pwant, Q[1] if M.is_data(Q) else Q
    return 'ok', [], '', None, None


def _real_block(block):
    kind = block[0]
    rep = core.Report()
    if kind == 'rt':
        _, doc, rname = block
        for sub, nontrivial, prob, exp, obs in _rt_checks(doc, rname):
            rep.case(key=('rt', doc, rname, sub), nontrivial=nontrivial, outcome=('rt', sub, repr(obs)[:2000]))
            rep.count('rt.' + sub.split(':')[0])
            if prob:
                rep.violation({'kind': 'rt', 'doc': doc, 'rname': rname, 'sub': sub}, exp, obs, prob)
        s = saved(doc, rname)
        rep.sample({'case': {'kind': 'rt', 'doc': doc, 'rname': rname}, 'saved': M.ref_load(s['paux'])[1] if s['paux'] else None})
    elif kind == 'xdoc':
        _, doc, rname, variant = block
        prob, exp, obs = _xdoc_check(doc, rname, variant)
        rep.case(key=block, nontrivial=True, outcome=(block, prob))
        rep.count('xdoc.' + variant)
        if prob:
            rep.violation({'kind': 'xdoc', 'doc': doc, 'rname': rname, 'variant': variant}, exp, obs, prob)
    elif kind == 'seq':
        _, variant, rname = block
        prob, exp, obs = _seq_check(variant, rname)
        rep.case(key=block, nontrivial=True, outcome=(block, prob))
        rep.count('seq')
        if prob:
            rep.violation({'kind': 'seq', 'variant': variant, 'rname': rname}, exp, obs, prob)
        else:
            rep.sample({'case': {'kind': 'seq', 'variant': variant, 'rname': rname},
                        'history': ['run docA', 'run docB (restores docA.paux; shares sec:summary, eq:main; dup:x twice)',
                                    'run docB with the other renderer', 'run docA again', 'run docC seeing only docB.paux']})
    elif kind == 'layout':
        _, layout, rname = block
        prob, exp, obs = _layout_check(layout, rname)
        rep.case(key=block, nontrivial=True, outcome=(block, prob))
        rep.count('layout')
        if prob:
            rep.violation({'kind': 'layout', 'layout': layout, 'rname': rname}, exp, obs, prob)
        else:
            rep.sample({'case': {'kind': 'layout', 'layout': layout, 'rname': rname},
                        'paux_in_working_directory': LAYOUTS[layout][0], 'paux_in_listed_directories': LAYOUTS[layout][1]})
    elif kind == 'xnames':
        _, job, rname = block
        prob, exp, obs = _xnames_check(job, rname)
        rep.case(key=block, nontrivial=True, outcome=(block, prob))
        rep.count('xnames')
        if prob:
            rep.violation({'kind': 'xnames', 'job': job, 'rname': rname}, exp, obs, prob)
        else:
            rep.sample({'case': {'kind': 'xnames', 'job': job, 'rname': rname}, 'other_paux_files': xname_others(job)})
    elif kind == 'prev':
        _, doc, rname, name = block
        v, fids, prob, exp, obs = _prev_check(doc, rname, name)
        case = {'kind': 'prev', 'doc': doc, 'rname': rname, 'fault': name}
        rep.case(key=block, nontrivial=True, outcome=(name, v, prob))
        rep.count('prev.' + name)
        if v == 'known':
            for f in fids:
                rep.known_finding(f, case, prob)
        elif v == 'violation':
            rep.violation(case, exp, obs, prob)
    return rep.close_block()


# ---------------------------------------------------------------------------
# E2: histories of operations on one file, two renderer keys
# ---------------------------------------------------------------------------
BFS_DOCS = ('sec', 'sec2')


def bfs_ops(tier):
    ops = [['P', 0, 0], ['P', 1, 0], ['R', 0], ['R', 1],
           ['T', 'zero'], ['T', 'mid'], ['T', 'last'],
           ['F', 'op'], ['F', 'key'], ['F', 'str'],
           ['X', 'list'], ['X', 'r_none'], ['X', 'text'], ['X', 'entry_none'], ['D']]
    if tier == 'thorough':
        ops[2:2] = [['P', 0, 1], ['P', 1, 1]]
    return ops


def _corrupt(data, op):
    """New file content (None = absent) or 'disabled'."""
    if op[0] == 'D':
        return None if data is not None else 'disabled'
    if op[0] == 'X':
        r0 = RENDERERS[0]
        return {'list': pickle.dumps([1, 2]), 'r_none': pickle.dumps({r0: None}), 'text': b'not a pickle\n',
                'entry_none': pickle.dumps({r0: {'zz:stale': None}})}[op[1]]
    if not data:
        return 'disabled'
    if op[0] == 'T':
        k = {'zero': 0, 'mid': len(data) // 2, 'last': len(data) - 1}[op[1]]
        return data[:k]
    if op[0] == 'F':
        b = bytearray(data)
        if op[1] == 'op':
            if len(b) <= 11:
                return 'disabled'
            b[11] ^= 0x20                  # first opcode after the frame header: } -> ]
        elif op[1] == 'key':
            if len(b) <= 19:
                return 'disabled'
            b[19] ^= 0x01                  # last character of the first top-level key: HTML5 -> HTML4, XHTML -> XHTMM
        else:
            if len(b) < 3:
                return 'disabled'
            b[len(b) - 3] ^= 0x01          # inside the tail of the last entry
        return bytes(b)
    raise ValueError(op)


class _BfsWorld(object):
    def __init__(self, tmp):
        self.path = os.path.join(tmp, 'job.paux')
        self.cur = {}
        self.pctx = {}
        for r in (0, 1):
            for rev in (0, 1):
                s = saved(BFS_DOCS[rev], RENDERERS[r])
                if s['exc'] or s['captured'] is None:
                    raise RuntimeError('bfs document did not render: %s' % s['exc'])
                self.cur[r, rev] = s['captured']
                self.pctx[r, rev] = persist_ctx(s['captured'])

    def step(self, data, op):
        """Apply op to a file with content `data` on the real code, in lock-step with the model.
        -> (new content | 'disabled', verdict, fids, expected, observed, detail)"""
        state = M.ref_load(data)
        if op[0] in 'TFXD':
            return _corrupt(data, op), 'ok', [], None, None, ''
        _write(self.path, data)
        rname = RENDERERS[op[1]]
        if op[0] == 'R':
            st, got, warn, _ = obs_restore(self.path, rname)
            mode, want = M.restore(state, rname)
            prob = '' if st == 'ok' else 'restore %s' % st
            prob = prob or labels_match(mode, want, got)
            if not prob and _read(self.path) != data:
                prob = 'restore modified the file'
            fids = []
            if not prob and warn is not True:
                ents = M.entries(state, rname)
                aborted = M.has_junk_under(state, rname) or (mode == 'subset' and ents is not None and len(got) < len(ents))
                if aborted and warn is False:
                    fids = [DEV_WARN]
                else:
                    prob = 'restore left warnOnUnrecognized=%r' % warn
            exp = {'restore': 'ok', 'labels': want, 'mode': mode, 'warnOnUnrecognized': True}
            obs = {'restore': st, 'labels': got, 'warnOnUnrecognized': warn}
            return data, ('violation' if prob else 'known' if fids else 'ok'), fids, exp, obs, prob
        cur = self.cur[op[1], op[2]]
        ps = obs_persist(self.pctx[op[1], op[2]], self.path, rname)
        after = _read(self.path)
        Q = M.ref_load(after)
        pmode, pwant = M.persist(state, rname, cur)
        exp = {'persist': 'ok', 'mode': pmode, 'content': pwant}
        obs = {'persist': ps, 'content': Q[1] if M.is_data(Q) else Q}
        if ps != 'ok':
            if M.has_junk_under(state, rname) and ps == 'raises:TypeError' and cur and after == data:
                return after, 'known', [DEV_JUNK], exp, obs, 'persist raised TypeError, file untouched'
            return after, 'violation', [], exp, obs, 'persist %s' % ps
        msg = M.persist_ok(pmode, pwant, Q, rname)
        if msg:
            return after, 'violation', [], exp, obs, 'persist: ' + msg
        robs, rprob, rdevs = check_reload(self.path, rname, cur, Q)
        exp['reload'] = 'ok'
        obs['reload'] = robs
        if rprob:
            return after, 'violation', [], exp, obs, rprob
        if rdevs:
            return after, 'known', rdevs, exp, obs, 'restore of the re-saved file stops at a stale malformed entry'
        return after, 'ok', [], exp, obs, ''

    def build(self, history):
        """Replay a history from the empty directory on the real code -> file content."""
        data = None
        for op in history:
            data = self.step(data, op)[0]
            if data == 'disabled':
                raise RuntimeError('history %r contains a disabled operation' % (history,))
        return data


def _bfs_chunk(arg):
    """Expand a chunk of frontier states: [(history, sha of content)] -> Report + successors."""
    tier, items = arg
    _harden_child()
    rep = core.Report()
    succ = []
    tmp = _mkdtemp()
    try:
        w = _BfsWorld(tmp)
        ops = bfs_ops(tier)
        for history, digest in items:
            data = w.build(history)
            rep.traces += 1
            if core.h64(data if data is not None else b'\xffABSENT') != digest:
                rep.error('history %r is not reproducible (file content differs between replays)' % (history,))
                continue
            for op in ops:
                new, v, fids, exp, obs, detail = w.step(data, op)
                if isinstance(new, str):
                    rep.count('bfs.disabled')
                    continue
                rep.transitions += 1
                h2 = history + [op]
                case = {'kind': 'bfs', 'history': h2}
                st = M.ref_load(new)
                rep.case(key=('bfs', repr(h2)), nontrivial=True, outcome=('bfs', op[0], st[0], v, repr(obs)[:300] if op[0] in 'PR' else ''))
                rep.count('bfs.op_' + op[0])
                if v == 'known':
                    for f in fids:
                        rep.known_finding(f, case, detail)
                        rep.count('deviation.bfs.%s' % f.split('.')[1])
                elif v == 'violation':
                    rep.violation(case, exp, obs, detail)
                    continue
                if len(h2) == 3 and op[0] == 'R':
                    rep.sample({'case': case, 'file_state': st[0], 'labels_restored': sorted(obs['labels'])})
                succ.append((h2, core.h64(new if new is not None else b'\xffABSENT')))
    finally:
        shutil.rmtree(tmp, ignore_errors=True)
    return rep.close_block(), succ


def _bfs_chunk_isolated(arg):
    st, res = core.run_isolated(_bfs_chunk, arg, timeout=900)
    if st != 'ok':
        rep = core.Report()
        rep.error('bfs chunk failed in isolation: %s %s' % (st, str(res)[-400:]))
        return rep, []
    return res


def run_bfs(tier, depth, rep):
    seen = {core.h64(b'\xffABSENT')}
    frontier = [([], core.h64(b'\xffABSENT'))]
    states = 1
    completed = 0
    per_level = []
    for d in range(depth):
        if not frontier:
            break
        chunks = core.chunks(frontier, max(1, min(40, len(frontier) // (core.NPROC * 2) + 1)))
        nxt = []
        for r, succ in core.pmap(_bfs_chunk_isolated, [(tier, c) for c in chunks], ordered=True):
            rep.merge(r)
            for h2, dig in succ:
                if dig in seen:
                    continue
                seen.add(dig)
                nxt.append((h2, dig))
        states += len(nxt)
        per_level.append(len(nxt))
        frontier = nxt
        completed = d + 1
    rep.states += states
    return {'bfs_depth_completed': completed, 'bfs_new_states_per_level': per_level, 'states': states}


# ---------------------------------------------------------------------------
# driver
# ---------------------------------------------------------------------------
def run_block(block):
    if block[0] == 'fault':
        _, doc, rname, kind, tier, lo, hi = block
        return _isolated_faults(doc, rname, kind, list(fault_iter(doc, rname, kind, tier, lo, hi)))
    if block[0] == 'rt':
        return _real_block(block)
    return _isolated_real(block)        # a render that may fail half way must not taint the worker


def _judge_case(case):
    kind = case['kind']
    if kind == 'fault':
        _harden_child()
        tmp = _mkdtemp()
        try:
            env = Env(case['doc'], case['rname'], tmp)
            r = env.judge(case['fault'])
        finally:
            shutil.rmtree(tmp, ignore_errors=True)
        return {'verdict': r['verdict'], 'fids': r['fids'], 'expected': r['expected'], 'observed': r['observed'],
                'detail': r['detail']}
    if kind == 'rt':
        for sub, nontrivial, prob, exp, obs in _rt_checks(case['doc'], case['rname']):
            if prob and sub == case.get('sub', sub):
                return {'verdict': 'violation', 'fids': [], 'expected': exp, 'observed': obs, 'detail': prob}
        return {'verdict': 'ok', 'fids': [], 'expected': None, 'observed': None, 'detail': ''}
    if kind == 'xdoc':
        prob, exp, obs = _xdoc_check(case['doc'], case['rname'], case['variant'])
        return {'verdict': 'violation' if prob else 'ok', 'fids': [], 'expected': exp, 'observed': obs, 'detail': prob}
    if kind == 'seq':
        prob, exp, obs = _seq_check(case['variant'], case['rname'])
        return {'verdict': 'violation' if prob else 'ok', 'fids': [], 'expected': exp, 'observed': obs, 'detail': prob}
    if kind == 'layout':
        prob, exp, obs = _layout_check(case['layout'], case['rname'])
        return {'verdict': 'violation' if prob else 'ok', 'fids': [], 'expected': exp, 'observed': obs, 'detail': prob}
    if kind == 'xnames':
        prob, exp, obs = _xnames_check(case['job'], case['rname'])
        return {'verdict': 'violation' if prob else 'ok', 'fids': [], 'expected': exp, 'observed': obs, 'detail': prob}
    if kind == 'prev':
        v, fids, prob, exp, obs = _prev_check(case['doc'], case['rname'], case['fault'])
        return {'verdict': v, 'fids': fids, 'expected': exp, 'observed': obs, 'detail': prob}
    if kind == 'bfs':
        _harden_child()
        tmp = _mkdtemp()
        try:
            w = _BfsWorld(tmp)
            hist = case['history']
            data = w.build(hist[:-1])
            new, v, fids, exp, obs, detail = w.step(data, hist[-1])
        finally:
            shutil.rmtree(tmp, ignore_errors=True)
        return {'verdict': v, 'fids': fids, 'expected': exp, 'observed': obs, 'detail': detail}
    raise ValueError(kind)


def replay(case):
    vstate.pristine()
    st, res = core.run_isolated(_judge_case, case, timeout=300)
    if st != 'ok':
        return {'verdict': 'violation', 'expected': 'processing continues', 'observed': 'child process %s' % st,
                'detail': 'the process handling the case died or hung: %s' % str(res)[-300:]}
    res = {k: core.jsonable(v) for k, v in res.items()}
    if res['verdict'] == 'known':
        f = core.Findings()
        notopen = [x for x in res['fids'] if not f.is_open(x)]
        res['fid'] = (notopen or res['fids'])[0]
    return res


def run(tier, seed, rep):
    vstate.pristine()
    quick = tier == 'quick'
    docs = list(POOL)
    keys = [(d, r) for d in docs + ['sec2'] for r in RENDERERS]
    prewarm(keys)
    blocks = []
    sizes = {}
    for d in docs:
        for r in RENDERERS:
            blocks.append(('rt', d, r))
            if d != 'empty':
                blocks.append(('xdoc', d, r, 'clean'))
                blocks.append(('xdoc', d, r, 'with_bad'))
            if not quick or d in ('sec', 'mix', 'uni', 'empty'):
                for name in PREV_FAULTS:
                    blocks.append(('prev', d, r, name))
    for job in XNAME_JOBS:
        for r in RENDERERS:
            blocks.append(('xnames', job, r))
    for v in SEQ_VARIANTS:
        for r in RENDERERS:
            blocks.append(('seq', v, r))
    for v in LAYOUTS:
        for r in RENDERERS:
            blocks.append(('layout', v, r))
    ok = usable
    for d in docs + PAIRS:
        for r in RENDERERS:
            if not (ok(_base_doc(d), r) and ok(_cur_doc(d), r) and ok(_second_doc(d), r) and ok(_base_doc(d), _other(r))):
                continue                      # reported by the 'rt' block
            for kind in ('prefix', 'flip1', 'flip2', 'foreign'):
                ranges, n = fault_blocks(d, r, kind, tier, 3000 if kind == 'flip2' else 800)
                sizes['%s/%s/%s' % (d, r, kind)] = n
                for lo, hi in ranges:
                    blocks.append(('fault', d, r, kind, tier, lo, hi))
    blocks = core.rotate(blocks, seed)
    core.merge_all(run_block, blocks, rep)
    depth = 5 if quick else 7
    bfs = run_bfs(tier, depth, rep)
    bounds = {
        'documents': docs, 'file_x_current_pairs': PAIRS, 'renderers': list(RENDERERS),
        'saved_file_bytes': {'%s/%s' % k: len(v['paux'] or b'') for k, v in sorted(_SAVED.items())},
        'fault_space_sizes': sizes,
        'flip2_window': ('all bit pairs in bytes [0,%d) + all bit pairs inside [p,p+2) for every opcode position p' % HEAD)
        + ('' if quick else ' + all bit pairs at byte distance <= %d + bytes [0,%d) x whole file' % (DIST, HEAD)),
        'prev_faults': PREV_FAULTS, 'xnames': {j: xname_others(j) for j in XNAME_JOBS}, 'seq_variants': SEQ_VARIANTS, 'paux_layouts': {k: {'cwd': v[0], 'paux_dirs': v[1]} for k, v in LAYOUTS.items()}, 'bfs_ops': bfs_ops(tier), 'bfs_depth': depth,
        'rlimit_as_headroom_bytes': AS_EXTRA, 'alarm_s': TL,
    }
    out = {'exhaustive': True, 'bounds': bounds, 'blocks': len(blocks),
           'transitions': rep.transitions, 'traces_validated_against_impl': rep.traces,
           'floors': {'evaluations': 50000, 'flip1.ref_loads': 1000, 'flip1.ref_garbage': 1000,
                      'prefix.ref_garbage': 1000, 'rt.restore': 10, 'xdoc.clean': 10, 'xnames': 4, 'seq': 8, 'layout': 12, 'bfs.op_P': 50}}
    out.update(bfs)
    return out
