"""Self-test of the framework (not a property check, not registered): a case that is right alone and wrong after two
earlier cases of its task must be reported as a history-dependent VIOLATION whose replay re-runs the task."""
from vp import core

ID = 'T99'
LEVEL = 'exploration'
RULE = 'self-test'
ASSUMPTIONS = []
_SEEN = []


def judge(case):
    return 'violation' if (case['n'] == 2 and len(_SEEN) >= 2) else 'ok'


def run_block(block):
    rep = core.Report()
    del _SEEN[:]
    for n in block:
        case = {'n': n}
        v = judge(case)
        rep.case(key=n, outcome=v)
        if v != 'ok':
            rep.violation(case, 'ok', 'wrong after %r' % (_SEEN,), 'synthetic')
        _SEEN.append(n)
    return rep.close_block()


def replay(case):
    if case.get('cross'):
        return {'verdict': 'ok', 'expected': 'ok', 'observed': None, 'detail': 'synthetic cross-task'}
    del _SEEN[:]
    return {'verdict': judge(case), 'expected': 'ok', 'observed': None, 'detail': 'synthetic'}


_FLAG = []


def run_block_cross(block):
    """every task first judges its case (wrong iff an EARLIER task of the same worker process left the flag), then leaves it"""
    rep = core.Report()
    case = {'n': block[0], 'cross': True}
    rep.case(key=block[0], outcome=bool(_FLAG))
    if _FLAG:
        rep.violation(case, 'ok', 'wrong after tasks %r' % (_FLAG,), 'synthetic cross-task')
    _FLAG.append(block[0])
    return rep.close_block()


def run(tier, seed, rep):
    import os
    if os.environ.get('T99_MODE') == 'cross':
        core.merge_all(run_block_cross, [(i,) for i in range(8)], rep)
        return {'exhaustive': True, 'bounds': {}, 'floors': {}}
    core.merge_all(run_block, [(0, 1, 2, 3), (4, 5, 6)], rep)
    return {'exhaustive': True, 'bounds': {}, 'floors': {}}
