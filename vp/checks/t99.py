"""Self-test of the framework (not a property check, not registered): a case that is right alone and wrong after two
earlier cases of its task must be reported as a history-dependent VIOLATION whose replay re-runs the task."""
from vp import core

ID = 'T99'
LEVEL = 'exploration'
RULE = 'self-test'
ASSUMPTIONS = []
_SEEN = []


def judge(case):
    return 'violation' if (case['n'] == 2 and len(_SEEN) >= 2) else 'ok'


def run_block(block):
    rep = core.Report()
    del _SEEN[:]
    for n in block:
        case = {'n': n}
        v = judge(case)
        rep.case(key=n, outcome=v)
        if v != 'ok':
            rep.violation(case, 'ok', 'wrong after %r' % (_SEEN,), 'synthetic')
        _SEEN.append(n)
    return rep.close_block()


def replay(case):
    del _SEEN[:]
    return {'verdict': judge(case), 'expected': 'ok', 'observed': None, 'detail': 'synthetic'}


def run(tier, seed, rep):
    core.merge_all(run_block, [(0, 1, 2, 3), (4, 5, 6)], rep)
    return {'exhaustive': True, 'bounds': {}, 'floors': {}}
