"""
Common machinery for the bounded-exhaustive checks (DESIGN.md section 1).

  Report        -- mergeable counters / outcome sets / violation candidates
  pmap          -- fork pool map over block descriptors (E1) or BFS frontiers (E2)
  time_limit    -- per-case alarm
  run_isolated  -- run a function in a freshly forked process (replay-before-report, C17)
  Findings      -- read-only view of known_findings.json
"""
import os, sys, json, time, signal, pickle, hashlib, traceback, contextlib, itertools
import multiprocessing

VP_HOME = os.environ.get('VP_HOME') or os.path.dirname(os.path.dirname(os.path.abspath(__file__)))
VP_REPO = os.environ.get('VP_REPO', '/repo')
STOP_EARLY = bool(os.environ.get('VP_STOP_EARLY'))     # tools/seedregress.sh: stop exploring at the first candidate violation
NPROC = int(os.environ.get('VP_NPROC', '0')) or min(16, os.cpu_count() or 1)


class Timeout(Exception):
    pass


_T0 = [0.0, 0.0]


_NTIMEOUTS = [0]         # time limits hit in this process


def _alarm(signum, frame):
    _NTIMEOUTS[0] += 1
    raise Timeout('case exceeded its time limit (%s after %.1fs cpu, %.1fs wall)' % (
        'cpu timer' if signum == signal.SIGPROF else 'wall timer', time.process_time() - _T0[0], time.time() - _T0[1]))


@contextlib.contextmanager
def time_limit(seconds):
    """Raise Timeout inside the block after `seconds` of *CPU time of this process* (robust against a loaded
    machine), with a wall-clock backstop at 30x for code that blocks without using CPU."""
    if _NTIMEOUTS[0] >= 4 and seconds <= 60:
        # this process has already met several cases that do not terminate (each one is reported): the remaining cases
        # get a short limit, so that a tree that hangs on most inputs costs minutes, not hours.  Candidates are
        # re-run in fresh processes with the full limit before anything is reported.
        seconds = min(seconds, 2.0)
    _T0[0], _T0[1] = time.process_time(), time.time()
    old_p = signal.signal(signal.SIGPROF, _alarm)
    old_a = signal.signal(signal.SIGALRM, _alarm)
    signal.setitimer(signal.ITIMER_PROF, seconds)
    signal.setitimer(signal.ITIMER_REAL, seconds * 30)
    try:
        yield
    finally:
        signal.setitimer(signal.ITIMER_PROF, 0)
        signal.setitimer(signal.ITIMER_REAL, 0)
        signal.signal(signal.SIGPROF, old_p)
        signal.signal(signal.SIGALRM, old_a)


def h64(obj):
    """Deterministic 64-bit hash of a JSON-able / repr-able object."""
    if not isinstance(obj, (bytes, bytearray)):
        obj = repr(obj).encode('utf-8', 'backslashreplace')
    return int.from_bytes(hashlib.blake2b(obj, digest_size=8).digest(), 'big')


def jsonable(x):
    """Best-effort conversion to something json.dumps accepts (for replay files)."""
    if isinstance(x, str):
        if type(x) is not str:      # DOM Text / Token objects are str subclasses that drag the whole document along
            x = x.encode('utf-8', 'surrogatepass').decode('utf-8', 'surrogatepass')
        return x
    if isinstance(x, (int, float, bool)) or x is None:
        return x
    if isinstance(x, (bytes, bytearray)):
        return {'__bytes__': bytes(x).hex()}
    if isinstance(x, dict):
        return {str(k): jsonable(v) for k, v in x.items()}
    if isinstance(x, (list, tuple, set, frozenset)):
        return [jsonable(v) for v in (sorted(x, key=repr) if isinstance(x, (set, frozenset)) else x)]
    return repr(x)


class Report(object):
    """Mergeable result of exploring a block of cases."""
    MAX_VIOL = 6        # candidates kept per report
    MAX_SAMPLES = 4
    OUTCOME_CAP = 2000000
    MERGE_CAP = 40

    def __init__(self):
        self.evaluations = 0
        self.nontrivial = 0             # count of non-trivial cases (distinct by construction inside a block)
        self.distinct_nontrivial = 0    # measured: distinct case keys among non-trivial cases, summed over disjoint blocks
        self._keys = set()
        self.outcomes = set()           # hashes of observed outcomes of non-trivial cases
        self.outcomes_capped = False
        self.samples = []
        self.violations = []            # candidate dicts
        self.nviolations = 0
        self.known = {}                 # fid -> [count, first example]
        self.counters = {}              # free-form feature histogram / vacuity counters
        self.states = 0
        self.transitions = 0
        self.traces = 0
        self.errors = []                # harness errors (exit 2)

    # -- recording --------------------------------------------------------
    def case(self, key=None, nontrivial=True, outcome=None):
        self.evaluations += 1
        if nontrivial:
            self.nontrivial += 1
            if key is not None:
                self._keys.add(key if isinstance(key, int) else h64(key))
            if outcome is not None and not self.outcomes_capped:
                self.outcomes.add(outcome if isinstance(outcome, int) else h64(outcome))
                if len(self.outcomes) > self.OUTCOME_CAP:
                    self.outcomes_capped = True

    def sample(self, s):
        if len(self.samples) < self.MAX_SAMPLES:
            self.samples.append(jsonable(s))

    def count(self, name, n=1):
        self.counters[name] = self.counters.get(name, 0) + n

    def violation(self, case, expected=None, observed=None, detail=''):
        self.nviolations += 1
        if len(self.violations) < self.MAX_VIOL:
            self.violations.append({'case': jsonable(case), 'expected': jsonable(expected),
                                    'observed': jsonable(observed), 'detail': detail})

    def known_finding(self, fid, case=None, detail=''):
        ent = self.known.get(fid)
        if ent is None:
            self.known[fid] = [1, {'case': jsonable(case), 'detail': detail}]
        else:
            ent[0] += 1

    def error(self, msg):
        if len(self.errors) < 10:
            self.errors.append(msg)

    def close_block(self):
        """Blocks partition the space, so per-block distinct counts add up."""
        self.distinct_nontrivial += len(self._keys)
        self._keys = set()
        return self

    # -- merging ----------------------------------------------------------
    def merge(self, o):
        o.close_block()
        self.evaluations += o.evaluations
        self.nontrivial += o.nontrivial
        self.distinct_nontrivial += o.distinct_nontrivial
        if not self.outcomes_capped:
            self.outcomes |= o.outcomes
            if o.outcomes_capped or len(self.outcomes) > self.OUTCOME_CAP:
                self.outcomes_capped = True
        for s in o.samples:
            if len(self.samples) < 12:
                self.samples.append(s)
        self.nviolations += o.nviolations
        self.violations.extend(o.violations)
        if len(self.violations) > self.MERGE_CAP:
            self.violations.sort(key=lambda v: len(json.dumps(v['case'])))
            del self.violations[self.MERGE_CAP:]
        for fid, (n, ex) in o.known.items():
            if fid in self.known:
                self.known[fid][0] += n
            else:
                self.known[fid] = [n, ex]
        for k, v in o.counters.items():
            self.counters[k] = self.counters.get(k, 0) + v
        self.states += o.states
        self.transitions += o.transitions
        self.traces += o.traces
        self.errors.extend(o.errors[:10 - len(self.errors)] if len(self.errors) < 10 else [])
        return self


# ---------------------------------------------------------------------------
# Parallel map over a forked pool.  `fn` must be a module-level function.
# ---------------------------------------------------------------------------
_POOL_FN = None


def task_call(fn, item, history=None):
    """Run one task (block / chunk of histories) of a check from a cold interpreter state: class-level caches of plasTeX
    are dropped first, so what a task observes depends on the task alone and not on which tasks the same worker ran
    before.  Candidate violations are tagged with the task, so that a violation that needs the earlier cases of its
    task (history-dependent behaviour of the code under test) can be replayed by re-running the task."""
    from vp import state
    state.cold()
    res = fn(item)
    reps = [res] if isinstance(res, Report) else [r for r in res if isinstance(r, Report)] if isinstance(res, tuple) else []
    tag = None
    for r in reps:
        for v in r.violations:
            if '_task' not in v:
                if tag is None:
                    import base64
                    tag = {'module': fn.__module__, 'fn': fn.__name__,
                           'arg_pickle_b64': base64.b64encode(pickle.dumps(item, 2)).decode('ascii'),
                           'arg_repr': repr(item)[:400], 'history': list(history or [])}
                v['_task'] = tag
    return res


def replay_task(arg):
    """(task tag, case) -> the violation record for `case` when the task is re-run in this (fresh) process, else None"""
    tag, case = arg
    import base64, importlib
    mod = importlib.import_module(tag['module'])
    fn = getattr(mod, tag['fn'])
    item = pickle.loads(base64.b64decode(tag['arg_pickle_b64']))
    MAXV, Report.MAX_VIOL = Report.MAX_VIOL, 10 ** 6
    try:
        res = task_call(fn, item)
    finally:
        Report.MAX_VIOL = MAXV
    reps = [res] if isinstance(res, Report) else [r for r in res if isinstance(r, Report)] if isinstance(res, tuple) else []
    want = json.dumps(jsonable(case), sort_keys=True)
    for r in reps:
        for v in r.violations:
            if json.dumps(v['case'], sort_keys=True) == want:
                return {k: v[k] for k in ('case', 'expected', 'observed', 'detail')}
    return None


_WORKER_HISTORY = []     # in a pool worker: (call id, index) of the tasks this worker has run so far
TASK_ITEMS = {}          # in the parent: call id -> (fn, items) of every pmap call of this run
_CALL_ID = [0]


def _pool_call(arg):
    call_id, idx, item = arg
    try:
        hist = list(_WORKER_HISTORY)
        _WORKER_HISTORY.append((call_id, idx))
        return ('ok', task_call(_POOL_FN, item, history=hist))
    except BaseException as e:        # harness error inside a worker
        return ('err', '%s\n%s' % (repr(item)[:300], traceback.format_exc()))


def history_items(tag):
    """the (module, function name, pickled argument) of every task the worker had run before the tagged one"""
    import base64
    out = []
    for call_id, idx in tag.get('history') or []:
        fn, items = TASK_ITEMS[call_id]
        out.append([fn.__module__, fn.__name__, base64.b64encode(pickle.dumps(items[idx], 2)).decode('ascii')])
    return out


def replay_worker_history(arg):
    """(list of [module, fn, pickled arg], task tag, case): run the earlier tasks of the worker in their order in this
    fresh process, then the tagged task; -> the violation record for `case`, else None"""
    earlier, tag, case = arg
    import base64, importlib
    for modname, fname, blob in earlier:
        fn = getattr(importlib.import_module(modname), fname)
        task_call(fn, pickle.loads(base64.b64decode(blob)))
    return replay_task((tag, case))


def pmap(fn, items, procs=None, chunksize=1, ordered=False):
    """Yield fn(item) for every item; fork pool of `procs` workers.
    A worker exception is re-raised in the parent as RuntimeError (harness error)."""
    global _POOL_FN
    items = list(items)
    procs = procs or NPROC
    if procs <= 1 or len(items) <= 1:
        for it in items:
            yield task_call(fn, it)
        return
    _POOL_FN = fn
    _CALL_ID[0] += 1
    call_id = _CALL_ID[0]
    TASK_ITEMS[call_id] = (fn, items)
    del _WORKER_HISTORY[:]
    ctx = multiprocessing.get_context('fork')
    pool = ctx.Pool(min(procs, len(items)))
    args = [(call_id, i, it) for i, it in enumerate(items)]
    try:
        it = pool.imap(_pool_call, args, chunksize) if ordered else pool.imap_unordered(_pool_call, args, chunksize)
        for tag, res in it:
            if tag == 'err':
                raise RuntimeError('worker failed on ' + res)
            yield res
    finally:
        pool.terminate()
        pool.join()


def merge_all(fn, items, rep, procs=None, chunksize=1):
    """Run fn over items in the pool; every result is a Report merged into rep."""
    for r in pmap(fn, items, procs=procs, chunksize=chunksize):
        rep.merge(r)
        if STOP_EARLY and rep.violations:
            break           # development aid (seed regression): the first candidates are enough
    return rep


def run_isolated(fn, arg, timeout=120):
    """Run fn(arg) in a freshly forked child; return ('ok', value) | ('exc', text) | ('timeout', None)."""
    rfd, wfd = os.pipe()
    pid = os.fork()
    if pid == 0:
        code = 0
        try:
            os.close(rfd)
            try:
                res = ('ok', fn(arg))
            except BaseException:
                res = ('exc', traceback.format_exc())
            with os.fdopen(wfd, 'wb') as w:
                pickle.dump(res, w)
        except BaseException:
            code = 3
        finally:
            os._exit(code)
    os.close(wfd)
    data = b''
    deadline = time.time() + timeout
    import select
    with os.fdopen(rfd, 'rb') as r:
        while True:
            left = deadline - time.time()
            if left <= 0:
                try:
                    os.kill(pid, signal.SIGKILL)
                except OSError:
                    pass
                os.waitpid(pid, 0)
                return ('timeout', None)
            ready, _, _ = select.select([r], [], [], min(left, 1.0))
            if ready:
                chunk = os.read(r.fileno(), 1 << 20)
                if not chunk:
                    break
                data += chunk
    os.waitpid(pid, 0)
    if not data:
        return ('exc', 'child died without a result')
    return pickle.loads(data)


def chunks(seq, n):
    seq = list(seq)
    return [seq[i:i + n] for i in range(0, len(seq), n)]


def rotate(seq, seed):
    """Seed only rotates enumeration order; the set explored is unchanged."""
    seq = list(seq)
    if not seq:
        return seq
    k = seed % len(seq)
    return seq[k:] + seq[:k]


# ---------------------------------------------------------------------------
class Findings(object):
    def __init__(self, path=None):
        path = path or os.path.join(VP_HOME, 'known_findings.json')
        self.entries = {}
        if os.path.exists(path):
            with open(path) as f:
                for e in json.load(f).get('findings', []):
                    self.entries[e['id']] = e

    def is_open(self, fid):
        e = self.entries.get(fid)
        return bool(e) and e.get('status') == 'open'

    def summary(self, fid):
        return self.entries[fid].get('summary', fid)


# ---------------------------------------------------------------------------
# E2: level-synchronous breadth-first search over histories.
# ---------------------------------------------------------------------------
def bfs(expand_chunk, max_depth, rep, root=(), chunk=64, state_cap=None, on_level=None):
    """expand_chunk(list_of_histories) -> (Report, [(child_history, key64), ...]) must be a module-level function.
    A state is the history reaching it; children are deduplicated by key.  Returns dict with per-level counts
    and whether a cap was hit (a capped level is never reported as exhaustive)."""
    seen = set()
    frontier = [tuple(root)]
    levels = []
    capped = False
    r0, kids = expand_chunk([])        # convention: empty list -> returns root key as single child (root, key)
    rep.merge(r0)
    frontier = []
    for h, k in kids:
        if k not in seen:
            seen.add(k)
            frontier.append(tuple(h))
    for depth in range(max_depth):
        if not frontier:
            break
        nxt = []
        ntrans = 0
        for r, children in pmap(expand_chunk, chunks(frontier, chunk)):
            rep.merge(r)
            if STOP_EARLY and rep.violations:
                break
            for h, k in children:
                ntrans += 1
                if k not in seen:
                    seen.add(k)
                    nxt.append(h)
        rep.transitions += ntrans
        levels.append({'depth': depth + 1, 'new_states': len(nxt), 'transitions': ntrans})
        if on_level:
            on_level(levels[-1])
        if STOP_EARLY and rep.violations:
            break
        if state_cap and len(seen) > state_cap:
            capped = True
            frontier = nxt
            break
        frontier = nxt
    rep.states += len(seen)
    return {'levels': levels, 'capped': capped, 'depth_completed': len(levels), 'open_frontier': len(frontier)}
