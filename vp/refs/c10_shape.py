"""
Reference model for C10 (lists and tables keep their shape).

Pure Python, no plasTeX import.  A *case* is a JSON-able AST; `build(case, dev)` prints the LaTeX source and, in the
same pass (markers are allocated while printing, nothing is parsed back), folds the AST into the expected observation:

  segments  = tuple of segment
  segment   = ('t', ((marker, fmt), ...))            run of text inside one paragraph, fmt = tuple of formatting ancestors
            | ('list', kind, ((term|None, (position, ref)|None, segments), ...))
            | ('table', ncols_declared, rows, H, V, problems)
            | ('env', name, segments)
  rows      = ((span, text-align, segments), ...) per row   (alignment of the column type / of the \\multicolumn spec)
  H         = sorted tuple of (row boundary b, column j): a horizontal rule lies on boundary b (0 = above the first row)
              over column j     -- independent of whether it is stored as bottom of row b-1 or top of row b
  V         = sorted tuple of (column gap g, row i): a vertical rule lies in gap g (0 = left edge) beside row i

LaTeX rules used (LaTeX companion / latex.ltx):
  * \\hline spans all columns, \\cline{i-j} columns i..j, both lie on the row boundary where they are written (\\noalign)
  * a `|` in the preamble belongs to the column before it (the leading one to column 1); an ordinary cell draws the bars
    of its column; \\multicolumn{k}{spec} replaces the preamble entries of the k columns it covers, so the cell draws
    exactly the bars written in its own spec
  * @{...} replaces inter-column space and is not a column; *{k}{u} is k copies of u; p{w} is one column
  * every cell (and every row) is a group: definitions and declarations made in it end with it

Deviation switches (each predicts the complete observation when switched on):
  CLINE_SKIP_SPAN           BorderCommand.applyBorders counts a skipped cell left of the \\cline range as one column
                            regardless of its colspan
  LEADING_AT_BOGUS_COLUMNS  Array.compileColspec does not read the argument of an @ met before the first column, so the
                            two brace tokens of `@{}` become two style-less columns in front of the real ones
  VLINE_WHOLE_ROW           ArrayRow.applyBorders hands a \\vline found at the start / end of one cell to every cell of
                            the row, so all cells of that row get the left / right border
  LEADING_RULE_ROW_LOST     Array.applyBorders: a rule-only row that is not followed directly by the first content row
                            (or is not the very first row) and has no content row above it hands its rules to nobody
  DEPTH5_ITEMS_STEP_ENUMI   List.item.invoke finds no counter for a list nested deeper than 4 (List.counters has 4 names) and
                            keeps the class defaults: the item gets position 0 and steps enumi, the counter of the
                            outermost list (which, when the counters are chained as in the standard classes, also restarts
                            enumii..enumiv).  Modelled by replaying List.invoke / item.invoke on four integers.

Rows without any content (all cells empty, or nothing at all before \\\\), with or without rule commands in front, are
not rows of the table (statement: "r non-empty rows yield r rows"; plasTeX: border-only rows are dropped).  A rule written
next to such rows lies on the boundary between the nearest surviving rows.
"""
import re

MARK = re.compile(r'wq[a-p]+z')
CLINE_SKIP_SPAN = 'C10.CLINE_SKIP_SPAN'
LEADING_AT = 'C10.LEADING_AT_BOGUS_COLUMNS'
VLINE_ROW = 'C10.VLINE_WHOLE_ROW'
RULE_ROW_LOST = 'C10.LEADING_RULE_ROW_LOST'
DEPTH5 = 'C10.DEPTH5_ITEMS_STEP_ENUMI'
DEVIATIONS = (CLINE_SKIP_SPAN, LEADING_AT, VLINE_ROW, RULE_ROW_LOST, DEPTH5)

LIST_KINDS = ('itemize', 'enumerate', 'description')


class Alloc(object):
    def __init__(self, pos=False, ref=False):
        self.n = 0
        self.ref = ref          # a document class is loaded: \\theenumi.. exist, so enumerate items show their number as ref
        self.pos = pos          # the document has LaTeX's enum counters: item numbers are observable

    def __call__(self):
        self.n += 1
        n = self.n
        s = ''
        while n:
            s = chr(97 + n % 16) + s
            n //= 16
        return 'wq' + s + 'z'


def T(*marks, **kw):
    fmt = tuple(kw.get('fmt', ()))
    return ('t', tuple((a, fmt) for a in marks))


# ---------------------------------------------------------------------------
# column specifications
# ---------------------------------------------------------------------------
def _col(t):
    return 'p{2cm}' if t == 'p' else t


def spec_spellings(cols, bars):
    """all spellings of the preamble (cols, bars): plain, spaced, @{} at every gap (either side of a bar),
    every *{k}{unit} folding of a run of identical units"""
    n = len(cols)
    out = [['plain'], ['sp']]
    for k in range(n + 1):
        out.append(['at', k, 0])
        if bars[k]:
            out.append(['at', k, 1])
    for k in range(n):
        out.append(['gt', k])
        out.append(['lt', k])
    for u in (1, 2):
        for i in range(n):
            for k in range(1, (n - i) // u + 1):
                if u > 1 and k < 2:
                    continue
                w = u * k
                if all(cols[i + j] == cols[i + j % u] for j in range(w)):
                    if all(bars[i + 1 + j] == bars[i + 1 + j % u] for j in range(w)):
                        out.append(['star', i, k, 'post', u])
                    if all(bars[i + j] == bars[i + j % u] for j in range(w)):
                        out.append(['star', i, k, 'pre', u])
    seen = set()
    res = []
    for sp in out:          # several descriptors can print the same text: keep the first
        s = print_spec(cols, bars, sp)
        if s not in seen:
            seen.add(s)
            res.append(sp)
    return res


def print_spec(cols, bars, spell):
    n = len(cols)
    G = ['|' * b for b in bars]
    C = [_col(t) for t in cols]
    kind = spell[0]
    if kind in ('plain', 'sp'):
        toks = []
        for k in range(n):
            toks += [G[k], C[k]]
        toks.append(G[n])
        toks = [t for t in toks if t]
        return (' ' if kind == 'sp' else '').join(toks)
    if kind == 'at':
        k, before = spell[1], spell[2]
        G = list(G)
        G[k] = ('@{}' + G[k]) if before else (G[k] + '@{}')
        s = ''
        for j in range(n):
            s += G[j] + C[j]
        return s + G[n]
    if kind in ('gt', 'lt'):
        # array package: >{decl} directly before a column letter, <{decl} directly after it; neither is a column.
        # The declarations are chosen invisible to the observation, so only "not a column, argument consumed" is tested
        k = spell[1]
        C = list(C)
        C[k] = ('>{\\raggedright}' + C[k]) if kind == 'gt' else (C[k] + '<{\\relax}')
        s = ''
        for j in range(n):
            s += G[j] + C[j]
        return s + G[n]
    if kind == 'star':
        i, k, mode = spell[1], spell[2], spell[3]
        u = spell[4] if len(spell) > 4 else 1
        s = ''
        for j in range(i):
            s += G[j] + C[j]
        if mode == 'post':
            unit = ''.join(C[i + j] + G[i + j + 1] for j in range(u))
            s += G[i] + '*{%d}{%s}' % (k, unit)
            for j in range(i + u * k, n):
                s += C[j] + G[j + 1]
            return s
        unit = ''.join(G[i + j] + C[i + j] for j in range(u))
        s += '*{%d}{%s}' % (k, unit)
        for j in range(i + u * k, n):
            s += G[j] + C[j]
        return s + G[n]
    raise ValueError(spell)


ALIGN = {'l': 'left', 'c': 'center', 'r': 'right', 'p': 'left'}


def mc_align(mcspec):
    """alignment named by the column letter of a \\multicolumn spec"""
    return ALIGN[mcspec.strip('|')[0]]


def mc_bars(mcspec):
    """(left bar, right bar) written in a \\multicolumn spec"""
    return mcspec.startswith('|'), mcspec.endswith('|')


# ---------------------------------------------------------------------------
# tables
# ---------------------------------------------------------------------------
NESTED = {'env': 'tabular', 'cols': 'lr', 'bars': [1, 1, 0], 'spell': ['plain'],
          'rows': [[[1, None, 'M'], [1, None, 'M']], [[1, None, 'M'], [1, 'c|', 'M']]],
          'rules': [[1, None], [0, None], [1, None]], 'final': 1}
NESTED_ARRAY = {'env': 'array', 'cols': 'cc', 'bars': [0, 1, 0], 'spell': ['plain'],
                'rows': [[[1, None, 'M'], [1, None, 'M']], [[1, None, 'M'], [1, None, 'M']]],
                'rules': [[0, None], [1, None], [0, None]], 'final': 0}
IN_ITEM = {'env': 'tabular', 'cols': 'll', 'bars': [0, 1, 0], 'spell': ['plain'],
           'rows': [[[1, None, 'M'], [1, None, 'M']], [[2, 'c', 'M']]],
           'rules': [[0, None], [1, None], [0, None]], 'final': 0}

TERMINATORS = {'bs': '\\\\', 'opt': '\\\\[2pt]', 'star': '\\\\*', 'tnl': '\\tabularnewline', 'cr': '\\cr'}


def cell_body(kind, m, outer, dev):
    if kind == 'M':
        a = m()
        return a, (T(a),)
    if kind in ('VL', 'VR', 'VB'):
        a = m()
        return ('\\vline ' if kind in ('VL', 'VB') else '') + a + (' \\vline' if kind in ('VR', 'VB') else ''), (T(a),)
    if kind == 'M2':
        a, b = m(), m()
        return '%s %s' % (a, b), (T(a, b),)
    if kind == 'E':
        return '', ()
    if kind == 'P2':
        a, b = m(), m()
        return '%s\n\n%s' % (a, b), (T(a), T(b))
    if kind == 'BF':
        a = m()
        return '\\bfseries %s' % a, (T(a, fmt=('bfseries',)),)
    if kind == 'G':
        a = m()
        return '{\\bf %s}' % a, (T(a, fmt=('bf',)),)
    if kind == 'MA':
        a = m()
        return '$%s$' % a, (T(a, fmt=('math',)),)
    if kind == 'TB':
        a = m()
        return '\\textbf{%s}' % a, (T(a, fmt=('textbf',)),)
    if kind == 'NT':
        s, e = build_table(NESTED, m, outer, dev)
        return s, (e,)
    if kind == 'NA':
        s, e = build_table(NESTED_ARRAY, m, outer, dev)
        return '$%s$' % s, (e,)
    if kind == 'LI':
        a, b = m(), m()
        return ('\\begin{itemize}\\item %s \\item %s\\end{itemize}' % (a, b),
                (list_exp('itemize', [(None, (T(a),)), (None, (T(b),))], m),))
    if kind == 'DF':
        a = m()
        return '\\def\\zzL{%s}\\zzL' % a, (T(a),)
    if kind == 'US':
        return '\\zzL', (T(outer),)
    raise ValueError(kind)


def row_is_empty(row):
    return all(c[2] == 'E' for c in row)


def build_table(ast, m, outer, dev=()):
    """-> (source, expected 'table' segment)"""
    cols, bars = ast['cols'], ast['bars']
    n = len(cols)
    rows = ast['rows']
    r = len(rows)
    rules = ast['rules']
    spell = ast.get('spell', ['plain'])
    term = TERMINATORS[ast.get('term', 'bs')]
    tight = ast.get('tight', 0)
    env = ast.get('env', 'tabular')
    amp = '&' if tight else ' & '
    nl = '' if tight else '\n'
    spec = print_spec(cols, bars, spell)
    head = {'tabular': '\\begin{tabular}{%s}', 'tabular*': '\\begin{tabular*}{5cm}{%s}',
            'tabular_t': '\\begin{tabular}[t]{%s}', 'array': '\\begin{array}{%s}'}[env] % spec
    envname = {'tabular_t': 'tabular'}.get(env, env)
    out = [head, nl]

    def rule_src(b):
        s = '\\hline' * rules[b][0]
        for cl in rules[b][1:]:
            if cl:
                s += '\\cline{%d-%d}' % (cl[0], cl[1])
        return s

    exp_rows = []
    H = set()
    V = set()
    # the preamble as the implementation is expected (or, under a deviation, known) to compile it
    lead_at = LEADING_AT in dev and spell[0] == 'at' and spell[1] == 0
    if lead_at:
        # `@{}|l..` : the bar lands on the right of the second bogus column;  `|@{}l..` : on the left of the first
        colspecs = [[bool(bars[0]) and not spell[2], False, None], [False, bool(bars[0]) and bool(spell[2]), None]]
        colspecs += [[False, bool(bars[c + 1]), ALIGN[cols[c]]] for c in range(n)]
    else:
        colspecs = [[c == 0 and bool(bars[0]), bool(bars[c + 1]), ALIGN[cols[c]]] for c in range(n)]
    keep = [not row_is_empty(row) for row in rows]          # rows without content are not rows of the table
    sidx = [sum(keep[:i]) for i in range(r + 1)]           # written row / boundary -> surviving row / boundary
    for i, row in enumerate(rows):
        s = rule_src(i)
        if s:
            out.append(s + ' ')
        cells_src = []
        cells_exp = []
        col = 0
        si = sidx[i]
        extent = []
        vl = vr = False
        for span, mcspec, kind in row:
            body, segs = cell_body(kind, m, outer, dev)
            if mcspec is not None:
                body = '\\multicolumn{%d}{%s}{%s}' % (span, mcspec, body)
                left, right = mc_bars(mcspec)
                align = mc_align(mcspec)
            else:
                left, right, align = colspecs[col] if col < len(colspecs) else (False, False, None)
            if kind in ('VL', 'VB'):        # \vline at the start of the cell: a rule on its left side
                left = vl = True
            if kind in ('VR', 'VB'):
                right = vr = True
            if keep[i]:
                if left:
                    V.add((col, si))
                if right:
                    V.add((col + span, si))
            extent.append((col, col + span))
            cells_src.append(body)
            cells_exp.append((span, align, segs))
            col += span
        if keep[i] and VLINE_ROW in dev:
            for c0, c1 in extent:
                if vl:
                    V.add((c0, si))
                if vr:
                    V.add((c1, si))
        out.append(amp.join(cells_src))
        if keep[i]:
            exp_rows.append(tuple(cells_exp))
        if i < r - 1 or ast.get('final') or any(rules[r]):
            out.append((' ' if not tight else '') + term)
            if tight and term[-1].isalpha():
                out.append(' ')
        out.append(nl)
    s = rule_src(r)
    if s:
        out.append(s + nl)
    out.append('\\end{%s}' % envname)

    # horizontal rules
    def row_cells(i):
        res = []
        col = 0
        for span, mcspec, kind in rows[i]:
            res.append((col, span))
            col += span
        return res

    for b in range(r + 1):
        if not any(rules[b]):
            continue
        if RULE_ROW_LOST in dev and b < r and not keep[b]:
            # literal hand-over of Array.applyBorders for a border-only row at index b
            if b == 0:
                if not (r > 1 and keep[1]):
                    continue            # handed to row 1, which is dropped itself
            elif not any(keep[:b]):
                continue                # no content row above yet: handed to nobody
        sb = sidx[b]
        if rules[b][0]:
            for j in range(n):
                H.add((sb, j))
        for cl in rules[b][1:]:
            if not cl:
                continue
            lo, hi = cl
            if CLINE_SKIP_SPAN in dev and all(keep):
                # literal model of BorderCommand.applyBorders on the row the command is attached to
                att = b if b < r else r - 1
                colnum = 1
                for c0, span in row_cells(att):
                    if colnum < lo or colnum > hi:
                        colnum += 1
                        continue
                    for j in range(c0, c0 + span):
                        H.add((sb, j))
                    colnum += span
            else:
                for j in range(lo - 1, hi):
                    H.add((sb, j))
    declared = n + (2 if lead_at else 0)
    return ''.join(out), ('table', declared, tuple(exp_rows), tuple(sorted(H)), tuple(sorted(V)), ())


def cline_aligned(rows, b, lo, hi):
    """the range lo..hi (1-based, inclusive) is a union of whole cells in every surviving row adjacent to the
    boundary that the written boundary b maps to (rows without content do not count)"""
    above = [row for row in rows[:b] if not row_is_empty(row)][-1:]
    below = [row for row in rows[b:] if not row_is_empty(row)][:1]
    for row in above + below:
        col = 0
        starts, ends = set(), set()
        for span, mcspec, kind in row:
            starts.add(col)
            col += span
            ends.add(col)
        if lo - 1 not in starts or hi not in ends:
            return False
    return True


# ---------------------------------------------------------------------------
# lists
# ---------------------------------------------------------------------------
ROMAN = ['i', 'ii', 'iii', 'iv']


class EnumSim(object):
    """literal replay of List.invoke / List.item.invoke on the four enum counters (deviation DEPTH5 only)"""
    def __init__(self, chained):
        self.e = [0, 0, 0, 0]
        self.depth = 0
        self.chained = chained

    def begin(self, start):
        self.depth += 1
        for i in range(self.depth, 4):
            self.e[i] = 0
        if start and self.depth <= 4:
            self.e[self.depth - 1] = start

    def end(self):
        self.depth -= 1
        for i in range(self.depth, 4):
            self.e[i] = 0

    def item(self):
        """-> (position, number shown by ref)"""
        if self.depth <= 4:
            idx = self.depth - 1
            pos = self.e[idx] + 1
        else:
            idx = 0
            pos = 0
        self.e[idx] += 1
        if self.chained:
            for i in range(idx + 1, 4):
                self.e[i] = 0
        return pos, self.e[idx]


def list_exp(kind, items, m, start=0):
    """items = [(term, segments), ...] -> 'list' segment; when the document has the enum counters every item carries
    its number: position start+1, start+2, ... in order (and, in enumerate, a reference text showing that number)"""
    out = []
    for k, it in enumerate(items):
        t, segs = it[0], it[1]
        pos = None
        if m.pos:
            p, shown = (start + k + 1, start + k + 1) if len(it) < 3 or it[2] is None else it[2]
            pos = (p, str(shown) if kind == 'enumerate' and m.ref else None)
        out.append((t, pos, segs))
    return ('list', kind, tuple(out))


def build_list(ast, m, dev=(), loose=0, depth=1):
    """ast = [kind, [item, ...]] or [kind, items, start]; item = [term(0/1), ctype, sub] -> (source, 'list' segment)
    ctype EM: item without body; sub: None | nested list (NB, NT) | [list, list] (N2, N2B: two sibling lists inside one item)
    start: \\setcounter{enum<depth>}{start} between \\begin and the first \\item
    loose: blank lines after \\begin, between items and before \\end (the usual way lists are typed)"""
    kind, items = ast[0], ast[1]
    start = ast[2] if len(ast) > 2 and ast[2] else 0
    sep = '\n' if loose else ''
    out = ['\\begin{%s}\n%s' % (kind, sep)]
    if start:
        out.append('\\setcounter{enum%s}{%d}\n' % (ROMAN[depth - 1], start))
    sim = getattr(m, 'sim', None)
    if sim:
        sim.begin(start)
    exp = []
    for term, ctype, sub in items:
        s = '\\item'
        t = None
        simpos = sim.item() if sim else None
        if term:
            t = m()
            s += '[%s]' % t
        if ctype == 'P1':
            a = m()
            s += ' %s\n' % a
            segs = (T(a),)
        elif ctype == 'EM':
            # an item without a body (empty bullet; description terms sharing the next body): \item or \item[t] followed
            # only by a blank, a newline or a blank line.  It is still one item, with nothing in it
            s += (' ', '\n', '\n\n')[getattr(m, 'esep', 1)]
            segs = ()
        elif ctype == 'P2':
            a, b = m(), m()
            s += ' %s\n\n%s\n' % (a, b)
            segs = (T(a), T(b))
        elif ctype == 'EQ':
            a, b = m(), m()
            s += ' %s\n\\begin{quote}%s\\end{quote}\n' % (a, b)
            segs = (T(a), ('env', 'quote', (T(b),)))
        elif ctype == 'EL':
            a, b, c = m(), m(), m()
            s += ' %s\n\\begin{quote}\\begin{itemize}\\item %s\\item %s\\end{itemize}\\end{quote}\n' % (a, b, c)
            inner = [(None, (T(b),)), (None, (T(c),))]
            if sim:
                sim.begin(0)
                inner = [x + (sim.item(),) for x in inner]
                sim.end()
            segs = (T(a), ('env', 'quote', (list_exp('itemize', inner, m),)))
        elif ctype == 'ET':
            a = m()
            ts, te = build_table(IN_ITEM, m, None, dev)
            s += ' %s\n%s\n' % (a, ts)
            segs = (T(a), te)
        elif ctype == 'NB':
            ss, se = build_list(sub, m, dev, loose, depth + 1)
            s += '\n' + sep + ss
            segs = (se,)
        elif ctype == 'NT':
            a = m()
            ss, se = build_list(sub, m, dev, loose, depth + 1)
            b = m()
            s += ' %s\n%s%s\n' % (a, ss, b)
            segs = (T(a), se, T(b))
        elif ctype == 'N2':
            a = m()
            s1, e1 = build_list(sub[0], m, dev, loose, depth + 1)
            b = m()
            s2, e2 = build_list(sub[1], m, dev, loose, depth + 1)
            c = m()
            s += ' %s\n%s%s\n%s%s\n' % (a, s1, b, s2, c)
            segs = (T(a), e1, T(b), e2, T(c))
        elif ctype == 'N2B':
            s1, e1 = build_list(sub[0], m, dev, loose, depth + 1)
            s2, e2 = build_list(sub[1], m, dev, loose, depth + 1)
            s += '\n' + sep + s1 + s2
            segs = (e1, e2)
        else:
            raise ValueError(ctype)
        out.append(s + sep)
        exp.append((t, segs, simpos))
    if sim:
        sim.end()
    out.append('\\end{%s}\n' % kind)
    return ''.join(out), list_exp(kind, exp, m, start)


# ---------------------------------------------------------------------------
# whole documents
# ---------------------------------------------------------------------------
def has_class(case):
    return bool(case.get('wrap') == 'article' or case.get('article'))


def build(case, dev=()):
    """case = {'fam': 'table'|'list', 'ast': ..., 'wrap': ...} -> (source, expected segments of the document)"""
    wrap = case.get('wrap', 'bare')
    m = Alloc(pos=True, ref=has_class(case))
    m.esep = case.get('esep', 1)
    if DEPTH5 in dev and case['fam'] == 'list':
        m.sim = EnumSim(chained=has_class(case))   # only the standard classes chain enumii..iv to their parent     # plasTeX's base macro set already provides enumi..enumiv: item numbers exist in every document
    if case['fam'] == 'list':
        a = m()
        s, e = build_list(case['ast'], m, dev, case.get('loose', 0))
        b = m()
        src = '%s\n%s%s\n' % (a, s, b)
        exp = (T(a), e, T(b))
    else:
        outer = m()
        a = m()
        ast = case['ast']
        if wrap in ('display', 'inline'):
            o, c = ('\\[', '\\]') if wrap == 'display' else ('$', '$')
            s, e = build_table(ast, m, outer, dev)
            b = m()
            src = '\\def\\zzL{%s}%s\n%s%s%s\n%s \\zzL\n' % (outer, a, o, s, c, b)
            exp = (T(a), e, T(b, outer))
        elif wrap == 'item':
            i1 = m()
            s, e = build_table(ast, m, outer, dev)
            i2, i3, b = m(), m(), m()
            src = ('\\def\\zzL{%s}%s\n\\begin{itemize}\n\\item %s\n%s\n%s\n\\item %s\n\\end{itemize}\n%s \\zzL\n'
                   % (outer, a, i1, s, i2, i3, b))
            exp = (T(a), list_exp('itemize', [(None, (T(i1), e, T(i2))), (None, (T(i3),))], m), T(b, outer))
        elif wrap == 'center':
            s, e = build_table(ast, m, outer, dev)
            b = m()
            src = '\\def\\zzL{%s}%s\n\\begin{center}\n%s\n\\end{center}\n%s \\zzL\n' % (outer, a, s, b)
            exp = (T(a), ('env', 'center', (e,)), T(b, outer))
        else:
            s, e = build_table(ast, m, outer, dev)
            b = m()
            src = '\\def\\zzL{%s}%s\n%s\n%s \\zzL\n' % (outer, a, s, b)
            exp = (T(a), e, T(b, outer))
    if wrap == 'article' or case.get('article'):
        src = '\\documentclass{article}\\begin{document}\n%s\\end{document}\n' % src
    return src, exp
