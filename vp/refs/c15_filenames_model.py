"""
Reference model of the filename generator, written from the statement of property C15
(never from plasTeX/Filenames.py):

  * static names first and in order;
  * then, for each request, the first alternative of the wildcard whose variables are all bound
    under (initial namespace + the request's bindings) and whose name is fresh;
  * $num counts from 1 and advances exactly when a numbered candidate is issued or skipped as taken;
    zero-padded to the requested width;
  * $name(n) = first n blank-separated words of the value;
  * forbidden characters of variable values are replaced;
  * the extension is added when the name has none;
  * nothing is issued twice or equal to a reserved name; when no fresh name can be formed the request
    reports an error (and only then); the bindings of a request never outlive it.

The model works on the template AST (it never parses a template string):

  item      = tuple of parts;  part = ('lit', text) | ('var', name, width_or_None)
  Config    = static items, wildcard alternatives (each already including the text around the brackets),
              initial namespace, forbidden characters + substitute, extension, reserved names

Named deviation switches (bit set `dev`); each one is a behaviour of plasTeX that contradicts the
statement and is reported as a finding, never a relaxation of the strict model (dev == 0):

  LAZY_INITIAL_NAMESPACE     the "initial namespace" is taken at the first request, so the bindings of the
                             first request become defaults of every later request
  RESET_BEFORE_UNIQUENESS    the request's bindings are dropped as soon as one candidate has been expanded,
                             i.e. before it is known to be fresh; the following candidates see only the
                             initial namespace
  WORDLIMIT_AFTER_CHARSUB    forbidden characters are replaced before the word limit is applied, so with a
                             blank among the forbidden characters $name(n) is never shortened
  WORDLIMIT_EMPTY_INDEXERROR $name(n), n >= 1, with a value without any word raises IndexError
  DEAD_AFTER_ERROR           after the first error every later request returns None
  GIVEUP_COUNTS_REQUESTS     the give-up bound (100 passes) is counted over the whole life of the generator,
                             not per request: once 100 requests/passes have happened, the first taken
                             candidate pass ends in ValueError although a fresh numbered name exists
"""

DEV_A = 1
DEV_B = 2
DEV_W = 4
DEV_E = 8
DEV_N = 16
DEV_P = 32
DEV_NAMES = {
    DEV_A: 'C15.LAZY_INITIAL_NAMESPACE',
    DEV_B: 'C15.RESET_BEFORE_UNIQUENESS',
    DEV_W: 'C15.WORDLIMIT_AFTER_CHARSUB',
    DEV_E: 'C15.WORDLIMIT_EMPTY_INDEXERROR',
    DEV_N: 'C15.DEAD_AFTER_ERROR',
    DEV_P: 'C15.GIVEUP_COUNTS_REQUESTS',
}

UNBOUND = ('unbound',)
NOWORDS = ('nowords',)
GIVEUP = 100            # documented give-up bound (only used by the DEV_P switch)


class Config(object):
    __slots__ = ('static', 'alts', 'init', 'bad', 'sub', 'ext', 'reserved')

    def __init__(self, static, alts, init, bad, sub, ext, reserved):
        self.static = tuple(static)
        self.alts = tuple(alts)
        self.init = dict(init)
        self.bad = bad or ''
        self.sub = sub or ''
        self.ext = ext
        self.reserved = frozenset(reserved)


def numbered(item):
    return any(p[0] == 'var' and p[1] == 'num' for p in item)


def variables_of(item):
    return [p[1] for p in item if p[0] == 'var' and p[1] != 'num']


def clean(value, cfg):
    if cfg.bad:
        value = ''.join(cfg.sub if ch in cfg.bad else ch for ch in value)
    return value


def expand(item, ns, num, cfg, dev):
    """-> text | UNBOUND | NOWORDS"""
    if dev & DEV_E:
        for p in item:
            if p[0] == 'var' and p[1] != 'num' and p[2] and p[1] in ns and not ns[p[1]].split():
                return NOWORDS
    out = []
    for p in item:
        if p[0] == 'lit':
            out.append(p[1])
            continue
        name, width = p[1], p[2]
        if name == 'num':
            s = str(num)
            if width:
                s = '0' * (width - len(s)) + s
            out.append(s)
            continue
        if name not in ns:
            return UNBOUND
        value = ns[name]
        if width is None:
            value = clean(value, cfg)
        elif dev & DEV_W:
            value = ' '.join(clean(value, cfg).split()[:width])
        else:
            value = clean(' '.join(value.split()[:width]), cfg)
        out.append(value)
    return ''.join(out)


def has_extension(name):
    """A name has an extension when its last path component contains a period after its first
    character that is not a period."""
    base = name.rsplit('/', 1)[-1]
    return '.' in base.lstrip('.')


def add_extension(name, cfg):
    return name if has_extension(name) else name + cfg.ext


# state = (static position, num, issued names, initial namespace, started, dead, passes)
DEAD = (0, 0, frozenset(), (), True, True, 0)


def initial_state(cfg):
    return (0, 1, frozenset(), tuple(sorted(cfg.init.items())), False, False, 0)


def request(cfg, dev, state, bindings):
    """One request with per-request `bindings` (dict).  -> (result, new state)
    result = issued name | 'ValueError' | 'IndexError' | None (only with DEV_N)"""
    spos, num, issued, init_t, started, dead, passes = state
    if dead:
        return None, state
    init = dict(init_t)
    if not started:
        started = True
        if dev & DEV_A:
            init.update(bindings)
            init_t = tuple(sorted(init.items()))
    ns = dict(init)
    ns.update(bindings)

    def done(result, issued=issued, dead=False):
        if dead:
            return result, DEAD          # nothing of the old state can be observed any more
        return result, (spos, num, issued, init_t, started, False, passes)

    def fail(kind):
        return done(kind, dead=bool(dev & DEV_N))

    # static names, in order; each one is considered once
    while spos < len(cfg.static):
        item = cfg.static[spos]
        spos += 1
        text = expand(item, ns, num, cfg, dev)
        if text is UNBOUND:
            continue
        if text is NOWORDS:
            return fail('IndexError')
        if numbered(item):
            num += 1
        if dev & DEV_B:
            ns = dict(init)
        name = add_extension(text, cfg)
        if name not in issued and name not in cfg.reserved:
            return done(name, issued | {name})

    # wildcard alternatives
    rounds = 0
    while True:
        rounds += 1
        if dev & DEV_P:
            passes += 1
        progress = False
        for item in cfg.alts:
            text = expand(item, ns, num, cfg, dev)
            if text is UNBOUND:
                continue
            if text is NOWORDS:
                return fail('IndexError')
            if numbered(item):
                num += 1
                progress = True
            if dev & DEV_B and ns != init:
                ns = dict(init)
                progress = True
            name = add_extension(text, cfg)
            if name not in issued and name not in cfg.reserved:
                return done(name, issued | {name})
        if not progress:
            return fail('ValueError')           # another round would repeat this one
        if dev & DEV_P and passes > GIVEUP:
            return fail('ValueError')
        if rounds > 5000:
            return fail('MODEL-GAVE-UP')


def run(cfg, dev, history):
    """Results of a whole history (list of binding dicts)."""
    st = initial_state(cfg)
    out = []
    for b in history:
        r, st = request(cfg, dev, st, b)
        out.append(r)
    return out


def _selftest():
    lit = lambda s: ('lit', s)
    var = lambda n, w=None: ('var', n, w)
    cfg = Config([(lit('index'),)], [(var('id'),), (var('title', 2),), (lit('sect'), var('num', 3))],
                 {'jobname': 'job'}, ' :', '-', '.html', ['sect002.html'])
    h = [{}, {'id': 'a'}, {'id': 'a', 'title': 'T U V'}, {'title': 'T U W'}, {}, {}, {'id': 'a b:c'}]
    assert run(cfg, 0, h) == ['index.html', 'a.html', 'T-U.html', 'sect001.html', 'sect003.html',
                              'sect004.html', 'a-b-c.html'], run(cfg, 0, h)
    # docstring of the class: sect$num(4).html / $title(5).html
    cfg = Config([], [(var('title', 5), lit('.html'))], {}, '', '', '.x', [])
    assert run(cfg, 0, [{'title': 'a b c d e f'}, {'title': 'a b c d e g'}, {}]) == \
        ['a b c d e.html', 'ValueError', 'ValueError']
    assert has_extension('a.b') and not has_extension('.a') and not has_extension('') and has_extension('x/.a.b')
    assert not has_extension('a.b/c')


_selftest()
