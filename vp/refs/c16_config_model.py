"""
Reference model for C16 (configuration layering): defaults < file1 < file2 < file3 < command line.

Plain Python, no plasTeX import.  Three parts:

  SCHEMA / DOC_DEFAULTS -- own (pinned) copy of the option table: section, key, type, default, CLI flags,
                           transcribed by hand from plasTeX/Config.py + Renderers/HTML5/Config.py, and the
                           defaults printed in Doc/command.tex (the "documented default").
  printers              -- abstract value (AST) -> text of an INI line / argv fragment
  Model                 -- precedence fold over the abstract layers + per-type conversion + read-back
                           interpolation.  The model never looks at the printed text.

Abstract values (all JSON-able lists):
  file side   ['b', bool, style]            style in BOOL_STYLES
              ['i', int, 'plain'|'plus']
              ['f', float, 'repr'|'int'|'exp']
              ['s', text]
              ['l', [item, ...], 'dq'|'sq']
              ['d', [[key, entry], ...], 'routed'|'named']     entry: str | int | float by dict type
              ['d', [[key, entry], ...], 'named', [lead, before_eq, after_eq, before_comma, after_comma, trail]]
                                             the inline form with blanks ('' | ' ' | '\t' ...) at every placement;
                                             blanks around keys, values and commas are not significant
              ['x', key or None, text]       a MALFORMED value (not a boolean / number / k=v ...): must be rejected
              ['u', key, text]               unknown key (not an option of the section)
  CLI side    ['B', ['+'|'-', ...], alias]
              ['S', [value, ...], 'eq'|'sp', alias]
              ['L', [[item, ...], ...]]
              ['D', [[key, entry], ...]]
              ['K', [[name, title] | [name, url, title], ...]]
              ['X', [token, ...]]            MALFORMED command-line use ('@' = the option's first flag): rejected

Deviation switches (bit flags) -- each one names exactly one difference of plasTeX from the property:
  DEV_BOOL_FILE_TRUTHY   a boolean read from a file is True for every non-empty spelling (bool(str))
  DEV_DICT_KEY_LOWER     a dictionary entry written as its own line in a file gets its key lower-cased
"""
import sys

DEV_BOOL_FILE_TRUTHY = 1
DEV_DICT_KEY_LOWER = 2
DEV_NAMES = {DEV_BOOL_FILE_TRUTHY: 'C16.BOOL_FILE_TRUTHY', DEV_DICT_KEY_LOWER: 'C16.DICT_KEY_LOWERCASED'}

# ---------------------------------------------------------------------------------------------
# Pinned option table.  (section, key, type, default, enable flags, disable flags)
# types: str int float bool list dict_str dict_int dict_float links
# Section order is the order in which sections are created (matters for %(name)s lookup: first
# section that has the key wins -- documented in InterpolationWrapper and Doc/config-api.tex).
# Defaults are the RAW stored values (bad-chars stores '%%', read back as '%').
# ---------------------------------------------------------------------------------------------
SCHEMA = [
    ('general', 'renderer', 'str', 'HTML5', ['--renderer'], []),
    ('general', 'theme', 'str', 'default', ['--theme'], []),
    ('general', 'extra-templates', 'list', [], ['--extra-templates'], []),
    ('general', 'copy-theme-extras', 'bool', True, ['--copy-theme-extras'], ['--no-theme-extras']),
    ('general', 'kpsewhich', 'str', 'kpsewhich', ['--kpsewhich'], []),
    ('general', 'xml', 'bool', False, ['--xml'], []),
    ('general', 'debug', 'bool', False, ['--debug'], []),
    ('general', 'paux-dirs', 'list', [], ['--paux-dirs'], []),
    ('general', 'plugins', 'list', [], ['--plugins'], []),
    ('general', 'load-tex-packages', 'bool', True, ['--load-tex-packages'], ['--no-load-tex-packages']),
    ('general', 'tex-packages', 'list', [], ['--tex-packages'], []),
    ('general', 'packages-dirs', 'list', [], ['--packages-dirs'], []),
    ('links', 'links', 'links', {}, ['--link'], []),
    ('counters', 'counters', 'dict_int', {}, ['--counter'], []),
    ('files', 'input-encoding', 'str', 'utf-8', ['--input-encoding'], []),
    ('files', 'output-encoding', 'str', 'utf-8', ['--output-encoding'], []),
    ('files', 'escape-high-chars', 'bool', False, ['--escape-high-chars'], []),
    ('files', 'split-level', 'int', 2, ['--split-level'], []),
    ('files', 'log', 'bool', False, ['--log'], []),
    ('files', 'filename', 'str', 'index [$id, sect$num(4)]', ['--filename'], []),
    ('files', 'bad-chars', 'str', ': #$%%^&*!~`"\'=?/{}[]()|<>;\\,.', ['--bad-filename-chars'], []),
    ('files', 'bad-chars-sub', 'str', '-', ['--bad-filename-chars-sub'], []),
    ('files', 'directory', 'str', '$jobname', ['--dir', '-d'], []),
    ('images', 'scales', 'dict_float', {}, ['--scales'], []),
    ('images', 'base-url', 'str', '', ['--image-base-url'], []),
    ('images', 'enabled', 'bool', True, ['--enable-images'], ['--disable-images']),
    ('images', 'imager', 'str', 'gspdfpng pdftoppm dvipng dvi2bitmap gsdvipng OSXCoreGraphics', ['--imager'], []),
    ('images', 'vector-imager', 'str', 'pdf2svg dvisvgm', ['--vector-imager'], []),
    ('images', 'filenames', 'str', 'images/img-$num(4)', ['--image-filenames'], []),
    ('images', 'baseline-padding', 'int', 0, ['--image-baseline-padding'], []),
    ('images', 'scale-factor', 'float', 1.0, ['--image-scale-factor'], []),
    ('images', 'vector-compiler', 'str', '', ['--vector-image-compiler'], []),
    ('images', 'compiler', 'str', '', ['--image-compiler'], []),
    ('images', 'cache', 'bool', False, ['--enable-image-cache'], ['--disable-image-cache']),
    ('images', 'save-file', 'bool', False, ['--save-image-file'], ['--delete-image-file']),
    ('images', 'transparent', 'bool', False, ['--transparent-images'], ['--opaque-images']),
    ('images', 'resolution', 'int', 0, ['--image-resolution'], []),
    ('document', 'base-url', 'str', '', ['--base-url'], []),
    ('document', 'title', 'str', '', ['--title'], []),
    ('document', 'toc-depth', 'int', 3, ['--toc-depth'], []),
    ('document', 'toc-non-files', 'bool', False, ['--toc-non-files'], []),
    ('document', 'sec-num-depth', 'int', 2, ['--sec-num-depth'], []),
    ('document', 'index-columns', 'int', 2, ['--index-columns'], []),
    ('document', 'lang-terms', 'list', [], ['--lang-terms'], []),
    ('document', 'disable-charsub', 'list', [], ['--disable-charsub'], []),
    ('logging', 'logging', 'dict_str', {}, ['--logging'], []),
    ('html5', 'extra-css', 'list', [], ['--extra-css'], []),
    ('html5', 'extra-js', 'list', [], ['--extra-js'], []),
    ('html5', 'theme-css', 'str', 'white', ['--theme-css'], []),
    ('html5', 'use-theme-css', 'bool', True, ['--use-theme-css'], ['--no-theme-css']),
    ('html5', 'use-theme-js', 'bool', True, ['--use-theme-js'], ['--no-theme-js']),
    ('html5', 'display-toc', 'bool', True, ['--display-toc'], ['--no-display-toc']),
    ('html5', 'localtoc-level', 'int', -sys.maxsize - 1, ['--localtoc-level'], []),
    ('html5', 'breadcrumbs-level', 'int', 10, ['--breadcrumbs-level'], []),
    ('html5', 'use-mathjax', 'bool', True, ['--use-mathjax'], ['--no-mathjax']),
    ('html5', 'mathjax-url', 'str', 'https://cdn.jsdelivr.net/npm/mathjax@3/es5/tex-chtml.js', ['--mathjax-url'], []),
    ('html5', 'mathjax-dollars', 'bool', False, ['--dollars'], ['--no-dollars']),
    ('html5', 'filters', 'list', [], ['--filters'], []),
    ('mathjax-macros', 'macros', 'dict_str', {}, ['--mj-macros'], []),
]

# A synthetic renderer-contributed section (added by the harness the way a renderer's Config.addConfig
# would): one option of every type, a list with a NON-empty default, and TWO dictionary options
# (unknown keys of the section go to the first one -- documented in DictOption's docstring).
SYNTH_SCHEMA = [
    ('zzsynth', 'zz-str', 'str', 'sdef', ['--zz-str'], []),
    ('zzsynth', 'zz-int', 'int', 5, ['--zz-int'], []),
    ('zzsynth', 'zz-float', 'float', 0.5, ['--zz-float'], []),
    ('zzsynth', 'zz-flag', 'bool', False, ['--zz-flag'], ['--no-zz-flag']),
    ('zzsynth', 'zz-list', 'list', ['d0'], ['--zz-list'], []),
    ('zzsynth', 'zz-dfirst', 'dict_str', {'k0': 'v0'}, ['--zz-dfirst'], []),
    ('zzsynth', 'zz-dsecond', 'dict_int', {}, ['--zz-dsecond'], []),
]

# Defaults printed in Doc/command.tex (\default{...}), decoded by hand (yes/true -> True, \$ -> $ ...).
# Options whose documentation block has no \default line are absent.
DOC_DEFAULTS = {
    ('general', 'kpsewhich'): 'kpsewhich',
    ('general', 'plugins'): [],
    ('general', 'load-tex-packages'): True,
    ('general', 'tex-packages'): [],
    ('general', 'renderer'): 'HTML5',
    ('general', 'packages-dirs'): [],
    ('general', 'theme'): 'default',
    ('general', 'copy-theme-extras'): True,
    ('general', 'extra-templates'): [],
    ('general', 'xml'): False,
    ('general', 'debug'): False,
    ('document', 'sec-num-depth'): 6,
    ('files', 'bad-chars'): ': #$%^&*!~`"\'=?/{}[]()|<>;\\,.',
    ('files', 'bad-chars-sub'): '-',
    ('files', 'directory'): '$jobname',
    ('files', 'escape-high-chars'): False,
    ('files', 'input-encoding'): 'utf-8',
    ('files', 'output-encoding'): 'utf-8',
    ('files', 'split-level'): 2,
    ('files', 'log'): False,
    ('images', 'compiler'): 'latex',
    ('images', 'vector-compiler'): 'latex',
    ('images', 'enabled'): True,
    ('images', 'cache'): True,
    ('images', 'imager'): 'gspdfpng pdftoppm dvipng dvi2bitmap gsdvipng OSXCoreGraphics',
    ('images', 'filenames'): 'images/img-$num(4).png',
    ('images', 'vector-imager'): 'pdf2svg dvisvgm',
    ('images', 'save-file'): False,
    ('images', 'scale-factor'): 1.0,
    ('html5', 'display-toc'): True,
    ('html5', 'localtoc-level'): -sys.maxsize - 1,          # "Node.DOCUMENT_LEVEL-1", DOCUMENT_LEVEL = -sys.maxsize
    ('html5', 'breadcrumbs-level'): 10,
    ('html5', 'use-theme-css'): True,
    ('html5', 'theme-css'): 'white',
    ('html5', 'extra-css'): [],
    ('html5', 'use-theme-js'): True,
    ('html5', 'use-mathjax'): True,
    ('html5', 'mathjax-url'): 'http://cdn.mathjax.org/mathjax/latest/MathJax.js?config=TeX-AMS_CHTML',
    ('html5', 'mathjax-dollars'): False,
    ('html5', 'filters'): [],
    ('mathjax-macros', 'macros'): {},
}
# plasTeX/plasTeXrc, the packaged configuration file read by defaultConfig(loadConfigFiles=True) (own copy)
PACKAGED_RC_LOGGING = {
    'render.images': 'WARNING', 'parse.mathshift': 'ERROR', 'parse.sections': 'ERROR',
    'parse.definitions': 'WARNING', 'parse.persistent': 'ERROR', 'parse.commands': 'WARNING',
    'parse.environments': 'WARNING', 'context.stack': 'WARNING', 'context.macros': 'ERROR',
    'parse.tokens': 'ERROR', 'tex.kpsewhich': 'ERROR',
}

# Deviation rule C16.DOC_DEFAULT_STALE: for exactly these options the code default is the value below
# instead of the documented one.
DOC_STALE = {
    ('document', 'sec-num-depth'): 2,
    ('images', 'compiler'): '',
    ('images', 'vector-compiler'): '',
    ('images', 'cache'): False,
    ('images', 'filenames'): 'images/img-$num(4)',
    ('html5', 'mathjax-url'): 'https://cdn.jsdelivr.net/npm/mathjax@3/es5/tex-chtml.js',
}

BOOL_STYLES = {
    'yesno': ('no', 'yes'), 'truefalse': ('false', 'true'), 'onoff': ('off', 'on'), '10': ('0', '1'),
    'YesNo': ('No', 'Yes'), 'TRUEFALSE': ('FALSE', 'TRUE'), 'OnOFF': ('OFF', 'On'),
}


def schema(synth=False):
    return SCHEMA + (SYNTH_SCHEMA if synth else [])


def opt_index(synth=False):
    return {(s, k): (s, k, t, d, en, dis) for (s, k, t, d, en, dis) in schema(synth)}


def section_order(synth=False):
    out = []
    for row in schema(synth):
        if row[0] not in out:
            out.append(row[0])
    return out


def first_dict_option(section, synth=False):
    for (s, k, t, d, en, dis) in schema(synth):
        if s == section and (t.startswith('dict') or t == 'links'):
            return k
    return None


# ---------------------------------------------------------------------------------------------
# Printers: abstract value -> concrete text.  (The oracle never reads what is printed here.)
# ---------------------------------------------------------------------------------------------
def _num(x):
    return repr(x) if isinstance(x, float) else str(x)


def print_file_value(v):
    """-> list of (key or None, text); None = use the option's own key."""
    tag = v[0]
    if tag == 'b':
        return [(None, BOOL_STYLES[v[2]][1 if v[1] else 0])]
    if tag == 'i':
        return [(None, ('+' if v[2] == 'plus' and v[1] > 0 else '') + str(v[1]))]
    if tag == 'f':
        if v[2] == 'int':
            return [(None, str(int(v[1])))]
        if v[2] == 'exp':
            return [(None, '%e' % v[1])]
        return [(None, repr(v[1]))]
    if tag == 's':
        return [(None, v[1])]
    if tag == 'l':
        q = "'" if v[2] == 'sq' else '"'
        sep = ' \t ' if v[2] == 'wide' else ' '
        return [(None, sep.join((q + it + q) if (' ' in it or "'" in it or '"' in it or v[2] == 'sq') else it for it in v[1]))]
    if tag == 'x':
        return [(v[1], v[2])]
    if tag == 'd':
        if v[2] == 'named' and len(v) > 3:
            lead, be, ae, bc, ac, trail = v[3]
            return [(None, lead + (bc + ',' + ac).join('%s%s=%s%s' % (k, be, ae, _num(e)) for k, e in v[1]) + trail)]
        if v[2] == 'named':
            return [(None, ','.join('%s=%s' % (k, _num(e)) for k, e in v[1]))]
        return [(k, _num(e)) for k, e in v[1]]
    if tag == 'u':
        return [(v[1], v[2])]
    raise ValueError(v)


def print_file(ops, extra=None):
    """ops: list of {'o': [section, key], 'v': abstract}; consecutive ops of a section share a header."""
    lines = []
    if extra == 'othersec':
        lines.append('[zz-not-a-section]')
        lines.append('renderer = zzwrong')
    secs = []
    for op in ops:
        if op['o'][0] not in secs:
            secs.append(op['o'][0])
    for cur in secs:                    # a section may appear only once per file; order inside it is kept
        lines.append('[%s]' % cur)
        for op in ops:
            sec, key = op['o']
            if sec != cur or op.get('v') is None:
                continue                # v None: header only
            for k, text in print_file_value(op['v']):
                lines.append(('%s = %s' % (k or key, text)).rstrip())
    return '\n'.join(lines) + '\n'


def print_cli(op, idx):
    sec, key = op['o']
    s, k, t, d, en, dis = idx[(sec, key)]
    v = op['v']
    tag = v[0]
    out = []
    if tag == 'B':
        for sign in v[1]:
            flags = en if sign == '+' else dis
            out.append(flags[v[2] % len(flags)])
        return out
    if tag == 'S':
        flag = en[v[3] % len(en)]
        for val in v[1]:
            text = val if isinstance(val, str) else _num(val)
            if v[2] == 'eq' and flag.startswith('--'):
                out.append('%s=%s' % (flag, text))
            else:
                out.extend([flag, text])
        return out
    if tag == 'L':
        for group in v[1]:
            out.append(en[0])
            out.extend(group)
        return out
    if tag == 'D':
        for kk, e in v[1]:
            out.extend([en[0], kk, _num(e)])
        return out
    if tag == 'K':
        for ent in v[1]:
            out.append(en[0])
            out.extend(ent)
        return out
    if tag == 'X':
        return [tok.replace('@', en[0]) for tok in v[1]]
    raise ValueError(v)


# ---------------------------------------------------------------------------------------------
# The model
# ---------------------------------------------------------------------------------------------
class ModelError(Exception):
    pass


class NoSuchOption(Exception):
    """%(name)s names no option of any section: reading the value back raises KeyError (documented)."""


class Rejected(Exception):
    """The input contains a malformed value: the configuration must not be produced."""


def _copy(v):
    if isinstance(v, list):
        return list(v)
    if isinstance(v, dict):
        return dict(v)
    return v


_ENTRY = {'dict_str': str, 'links': str, 'dict_int': int, 'dict_float': float}


class Model(object):
    def __init__(self, synth=False, dev=0):
        self.synth = synth
        self.dev = dev
        self.idx = opt_index(synth)
        self.order = section_order(synth)
        self.state = {(s, k): _copy(d) for (s, k, t, d, en, dis) in schema(synth)}

    # -- layers ---------------------------------------------------------------
    def apply_file_op(self, op):
        sec, key = op['o']
        v = op.get('v')
        if v is None:
            return
        tag = v[0]
        if tag == 'u':
            # a key that is no option of the section: goes to the section's first dictionary option,
            # is ignored (with a message) when the section has none
            target = first_dict_option(sec, self.synth)
            if target is not None:
                self._dict_set(sec, target, v[1], v[2], routed=True)
            return
        if tag == 'x':
            raise Rejected(v)
        t = self.idx[(sec, key)][2]
        if tag == 'b':
            val = v[1]
            if self.dev & DEV_BOOL_FILE_TRUTHY:
                val = True              # every spelling in the menu is a non-empty string
            self.state[(sec, key)] = val
        elif tag == 'i':
            self.state[(sec, key)] = int(v[1])
        elif tag == 'f':
            self.state[(sec, key)] = float(v[1])
        elif tag == 's':
            self.state[(sec, key)] = v[1]
        elif tag == 'l':
            self.state[(sec, key)] = self.state[(sec, key)] + list(v[1])
        elif tag == 'd':
            for k, e in v[1]:
                self._dict_set(sec, key, k, e, routed=(v[2] == 'routed'))
        else:
            raise ModelError(v)

    def _dict_set(self, sec, key, k, e, routed):
        t = self.idx[(sec, key)][2]
        if routed and (self.dev & DEV_DICT_KEY_LOWER):
            k = k.lower()
        conv = _ENTRY[t]
        d = dict(self.state[(sec, key)])
        d[k] = conv(e)
        self.state[(sec, key)] = d

    def apply_cli_op(self, op):
        sec, key = op['o']
        v = op['v']
        tag = v[0]
        if tag == 'X':
            raise Rejected(v)
        t = self.idx[(sec, key)][2]
        if tag == 'B':
            for sign in v[1]:
                self.state[(sec, key)] = (sign == '+')
        elif tag == 'S':
            conv = {'str': str, 'int': int, 'float': float}[t]
            for val in v[1]:
                self.state[(sec, key)] = conv(val)
        elif tag == 'L':
            for group in v[1]:
                self.state[(sec, key)] = self.state[(sec, key)] + list(group)
        elif tag == 'D':
            for k, e in v[1]:
                self._dict_set(sec, key, k, e, routed=False)
        elif tag == 'K':
            for ent in v[1]:
                if len(ent) == 2:
                    self._dict_set(sec, key, ent[0] + '-title', ent[1], False)
                else:
                    self._dict_set(sec, key, ent[0] + '-url', ent[1], False)
                    self._dict_set(sec, key, ent[0] + '-title', ent[2], False)
        else:
            raise ModelError(v)

    def apply_case(self, case):
        for layer in case.get('files', []):
            if layer is None or layer.get('st') != 'ok':
                continue                    # not passed / does not exist: ignored
            for op in layer.get('ops', []):
                self.apply_file_op(op)
        for op in case.get('argv', []):
            self.apply_cli_op(op)
        return self

    def apply_step(self, step):
        """One step of a history on a live configuration (family 'reread'):
        {'k': 'file', 'ops': [...]} | {'k': 'cli', 'ops': [...]} | {'k': 'set', 'o': [sec, key], 'val': value}"""
        if step['k'] == 'file':
            for op in step['ops']:
                self.apply_file_op(op)
        elif step['k'] == 'cli':
            for op in step['ops']:
                self.apply_cli_op(op)
        elif step['k'] == 'set':
            self.state[(step['o'][0], step['o'][1])] = _copy(step['val'])
        else:
            raise ModelError(step)
        return self

    # -- read-back --------------------------------------------------------------
    def read(self, sec, key, depth=0):
        if depth > 20:
            raise ModelError('recursion')
        v = self.state[(sec, key)]
        if isinstance(v, str):
            return self.interp(v, depth)
        if isinstance(v, list):
            return [self.interp(x, depth) for x in v]
        return _copy(v)

    def lookup(self, name, depth):
        for sec in self.order:
            if (sec, name) in self.state:
                return self.read(sec, name, depth + 1)
        raise NoSuchOption(name)

    def interp(self, text, depth=0):
        out = []
        i = 0
        n = len(text)
        while i < n:
            c = text[i]
            if c != '%':
                out.append(c)
                i += 1
                continue
            if i + 1 < n and text[i + 1] == '%':
                out.append('%')
                i += 2
                continue
            if i + 1 < n and text[i + 1] == '(':
                j = text.index(')', i)
                name = text[i + 2:j]
                conv = text[j + 1]
                val = self.lookup(name, depth)
                if conv == 's':
                    out.append(str(val))
                elif conv == 'd':
                    out.append('%d' % val)
                else:
                    raise ModelError('conversion %s outside the model' % conv)
                i = j + 2
                continue
            raise ModelError('lone percent outside the model')
        return ''.join(out)

    def snapshot(self):
        out = {}
        for (s, k) in self.state:
            try:
                out['%s/%s' % (s, k)] = enc(self.read(s, k))
            except NoSuchOption:
                out['%s/%s' % (s, k)] = ['raises', 'KeyError']
        return out

    def snapshot_fast(self):
        """Same result as snapshot(); options still holding their default are taken from a cached
        snapshot of the defaults unless some value contains a reference (then everything is recomputed)."""
        base = _default_snapshot(self.synth)
        for v in self.state.values():
            if (isinstance(v, str) and '%(' in v) or (isinstance(v, list) and any('%(' in x for x in v)):
                return self.snapshot()
        out = dict(base)
        dflt = _DEFAULT_STATE[self.synth]
        for (s, k), v in self.state.items():
            if v != dflt[(s, k)] or type(v) is not type(dflt[(s, k)]):
                out['%s/%s' % (s, k)] = enc(self.read(s, k))
        return out


_DEFAULT_SNAP = {}
_DEFAULT_STATE = {}


def _default_snapshot(synth):
    if synth not in _DEFAULT_SNAP:
        m = Model(synth)
        _DEFAULT_STATE[synth] = dict(m.state)
        _DEFAULT_SNAP[synth] = m.snapshot()
    return _DEFAULT_SNAP[synth]


def enc(v):
    """Type-tagged JSON-able encoding (True != 1, 3 != 3.0, '4' != 4)."""
    if isinstance(v, bool):
        return ['bool', v]
    if isinstance(v, int):
        return ['int', v]
    if isinstance(v, float):
        return ['float', v]
    if isinstance(v, str):
        return ['str', v]
    if isinstance(v, (list, tuple)):
        return [type(v).__name__, [enc(x) for x in v]]
    if isinstance(v, dict):
        return ['dict', {str(k): enc(x) for k, x in sorted(v.items(), key=lambda kv: str(kv[0]))}]
    return [type(v).__name__, repr(v)]
