"""
Reference model for C19 (ifthen boolean expressions and \\whiledo).  Plain Python, no plasTeX.

Concrete-syntax trees (CST) -- the generator builds them, the printer spells them, the oracle
folds them; nothing here ever parses LaTeX:

    Expr  ::= Unary | Expr OP Unary            OP in {and, or}; equal precedence, left to right
    Unary ::= Atom | \\not Unary | \\( Expr \\)

    ('a', leaf)            leaf = index into the case's leaf menu
    ('n', U)               \\not U           (U is a Unary: atom, another \\not, or a group)
    ('g', E)               \\( E \\)
    ('b', op, E, U)        E op U

depth: atom 0; \\not / group / binary add 1.  A right operand that is itself a binary expression
can only be spelled inside a group, so it is the tree ('b', op, E, ('g', E2)): redundant and
necessary parentheses are ordinary nodes, and "every placement of \\not / of redundant
parentheses up to depth d" is simply "every tree up to depth d".

value(t, leafvalue)        strict oracle: fold over the tree (tightest \\not, left-to-right and/or)
tokens(t)                  abstract token list of the spelling
machine(tokens, dev)       infix->postfix->stack evaluation of the token list.  dev = 0 reproduces
                           value() (self-check); each bit of dev replaces one rule by what plasTeX is
                           known to do (named deviations, see known_findings.json):

D_NOT_INFIX     \\not is entered into the operator stack like \\and / \\or (same precedence, left
                associative): operators waiting on the stack are reduced before the \\not's operand
                has been read.  `a \\and \\not b` -> postfix `a and` -> pop from empty stack.
D_WHILE_GROUP   (\\whiledo only) \\( and \\) keep their meaning "enter/leave math mode" while the test
                is expanded, so a whole group arrives as one math element: no operand, precedence 0.
"""
from fractions import Fraction

D_NOT_INFIX = 1
D_WHILE_GROUP = 2
D_LEN_FLOAT = 4          # \lengthtest < and > compare unrounded double-precision scaled points
DEV_NAMES = {D_NOT_INFIX: 'C19.NOT_POPS_PENDING_OPERATOR',
             D_WHILE_GROUP: 'C19.WHILEDO_GROUP_IS_MATH',
             D_LEN_FLOAT: 'C19.LENGTH_ORDER_UNROUNDED'}

UNDERFLOW = 'underflow'


# ---------------------------------------------------------------------------
# enumeration
# ---------------------------------------------------------------------------
_LEVELS = {}


def levels(nleaves, depth):
    """(E, U): lists of all Expr / Unary trees of depth <= `depth` over leaves 0..nleaves-1.
    U is a prefix-closed subset of E (E = U + binaries).  Deterministic order, simplest first."""
    key = (nleaves, depth)
    if key in _LEVELS:
        return _LEVELS[key]
    atoms = [('a', i) for i in range(nleaves)]
    if depth == 0:
        res = (list(atoms), list(atoms))
    else:
        E1, U1 = levels(nleaves, depth - 1)
        U = list(atoms) + [('n', u) for u in U1] + [('g', e) for e in E1]
        E = list(U)
        for op in ('and', 'or'):
            for l in E1:
                for r in U1:
                    E.append(('b', op, l, r))
        res = (E, U)
    _LEVELS[key] = res
    return res


def count(nleaves, depth):
    """(|E|, |U|) of levels(nleaves, depth) in closed form (to state bounds without building)."""
    e = u = nleaves
    for _ in range(depth):
        u2 = nleaves + u + e
        e = u2 + 2 * e * u
        u = u2
    return e, u


def depth_of(t):
    k = t[0]
    if k == 'a':
        return 0
    if k in 'ng':
        return 1 + depth_of(t[1])
    return 1 + max(depth_of(t[2]), depth_of(t[3]))


def leaves_of(t, out=None):
    """leaf indices in spelling order"""
    if out is None:
        out = []
    k = t[0]
    if k == 'a':
        out.append(t[1])
    elif k in 'ng':
        leaves_of(t[1], out)
    else:
        leaves_of(t[2], out)
        leaves_of(t[3], out)
    return out


def features(t, f=None, parent=None):
    """histogram keys describing the shape (vacuity counters)"""
    if f is None:
        f = set()
    k = t[0]
    if k == 'n':
        f.add('not')
        if parent in ('b_right',):
            f.add('not_after_operator')
        if parent == 'n':
            f.add('not_not')
        if t[1][0] == 'g':
            f.add('not_group')
        features(t[1], f, 'n')
    elif k == 'g':
        f.add('group')
        if t[1][0] == 'g':
            f.add('group_group')
        if t[1][0] in 'an':
            f.add('redundant_group')
        features(t[1], f, 'g')
    elif k == 'b':
        f.add(t[1])
        if t[2][0] == 'b':
            f.add('chain')
            if t[2][1] != t[1]:
                f.add('mixed_chain')
        features(t[2], f, 'b_left')
        features(t[3], f, 'b_right')
    return f


# ---------------------------------------------------------------------------
# strict oracle: fold
# ---------------------------------------------------------------------------
def value(t, leafvalue):
    k = t[0]
    if k == 'a':
        return bool(leafvalue(t[1]))
    if k == 'n':
        return not value(t[1], leafvalue)
    if k == 'g':
        return value(t[1], leafvalue)
    a = value(t[2], leafvalue)
    b = value(t[3], leafvalue)
    return (a and b) if t[1] == 'and' else (a or b)


# ---------------------------------------------------------------------------
# spelling
# ---------------------------------------------------------------------------
def tokens(t, out=None):
    """abstract tokens: ('a', leaf) | 'and' | 'or' | 'not' | '(' | ')'"""
    if out is None:
        out = []
    k = t[0]
    if k == 'a':
        out.append(t)
    elif k == 'n':
        out.append('not')
        tokens(t[1], out)
    elif k == 'g':
        out.append('(')
        tokens(t[1], out)
        out.append(')')
    else:
        tokens(t[2], out)
        out.append(t[1])
        tokens(t[3], out)
    return out


SPELL = {'and': ('\\and', '\\AND'), 'or': ('\\or', '\\OR'), 'not': ('\\not', '\\NOT')}


def spell(toks, leaftext, upper=0, style=0):
    """Concrete test text.  `upper`: bit i set -> i-th operator (in spelling order) is upper case.
    style 0: one blank between items; 1: as tight as TeX's lexical rules allow; 2: blanks everywhere."""
    out = []
    nop = 0
    prev_word = False           # previous item was a control word (needs a separator before a letter only)
    for tk in toks:
        if isinstance(tk, tuple):
            s = leaftext(tk[1])
            word = False
        elif tk == '(':
            s, word = '\\(', False
        elif tk == ')':
            s, word = '\\)', False
        else:
            s = SPELL[tk][(upper >> nop) & 1]
            nop += 1
            word = True
        if out:
            if style == 0:
                out.append(' ')
            elif style == 2:
                out.append('  ')
            elif prev_word and s[:1].isalpha():
                out.append(' ')
        out.append(s)
        prev_word = word
    txt = ''.join(out)
    if style == 2:
        txt = ' ' + txt + ' '
    return txt


def n_operators(toks):
    return sum(1 for tk in toks if tk in ('and', 'or', 'not'))


# ---------------------------------------------------------------------------
# token machine (infix -> postfix -> stack), with named deviations
# ---------------------------------------------------------------------------
def collapse_groups(toks):
    """D_WHILE_GROUP: every maximal \\( ... \\) span becomes one operand-less token 'math'."""
    out = []
    level = 0
    for tk in toks:
        if tk == '(':
            if level == 0:
                out.append('math')
            level += 1
        elif tk == ')':
            level -= 1
        elif level == 0:
            out.append(tk)
    return out


def machine(toks, leafvalue, dev=0):
    """-> True | False | UNDERFLOW"""
    if dev & D_WHILE_GROUP:
        toks = collapse_groups(toks)
    not_prec = 1 if dev & D_NOT_INFIX else 3
    prec = {'and': 1, 'or': 1, 'not': not_prec, '(': -1, 'math': 0}
    stack, post = [], []
    for tk in toks:
        if isinstance(tk, tuple):
            post.append(tk)
        elif tk == '(':
            stack.append(tk)
        elif tk == ')':
            while stack[-1] != '(':
                post.append(stack.pop())
            stack.pop()
        elif tk == 'not' and not dev & D_NOT_INFIX:
            stack.append(tk)                    # prefix operator: nothing to reduce
        else:                                   # left-associative infix operator (or 'math')
            while stack and stack[-1] != '(' and prec[stack[-1]] >= prec[tk]:
                post.append(stack.pop())
            stack.append(tk)
    while stack:
        post.append(stack.pop())
    st = []
    for tk in post:
        if isinstance(tk, tuple):
            st.append(bool(leafvalue(tk[1])))
        elif tk == 'math':
            pass
        elif tk == 'not':
            if not st:
                return UNDERFLOW
            st.append(not st.pop())
        else:
            if len(st) < 2:
                return UNDERFLOW
            b = st.pop()
            a = st.pop()
            st.append((a and b) if tk == 'and' else (a or b))
    return st[-1] if st else False


# ---------------------------------------------------------------------------
# atoms: structured descriptions, printer, semantics
# ---------------------------------------------------------------------------
# the fixed environment every generated document starts with (realised by PRE_ITEMS in vp/checks/c19.py)
ENV_INT = {'zzc': 3, 'zzd': -2}                  # counters
ENV_MAC = {'zzA': '7', 'zzN': '-2', 'zzS': 'ab', 'zzE': ''}    # \def / \newcommand bodies
ENV_LEN = {'zzL': ('1', 'in')}                   # length registers (assigned with \zzL=1in\relax)
ENV_BOOL = {'zzbt': True, 'zzbf': False, 'zzbp': False, 'zzbx': True, 'zzby': False}
DEFINED_CS = ['zzA', 'zzN', 'zzL', 'section', 'relax', 'ifthenelse']
UNDEFINED_CS = ['zzQ', 'zzQQ']

# integer operands: ('lit', n) | ('val', counter) | ('mac', name)
INT_OPERANDS = [('lit', -12), ('lit', -2), ('lit', 0), ('lit', 1), ('lit', 2), ('lit', 3), ('lit', 7), ('lit', 10),
                ('val', 'zzc'), ('val', 'zzd'), ('mac', 'zzA'), ('mac', 'zzN')]


def int_text(o):
    if o[0] == 'lit':
        return str(o[1])
    if o[0] == 'val':
        return '\\value{%s}' % o[1]
    if o[0] == 'loop':
        return '\\value{zzw}'
    return '\\' + o[1]


def int_value(o, loopvar=None):
    if o[0] == 'lit':
        return o[1]
    if o[0] == 'val':
        return ENV_INT[o[1]]
    if o[0] == 'loop':
        return loopvar
    return int(ENV_MAC[o[1]])


# length operands: (decimal string, unit) | ('reg', coefficient string or '', register)
LEN_OPERANDS = [('0', 'pt'), ('1', 'pt'), ('-1', 'pt'), ('65536', 'sp'), ('1', 'sp'), ('12', 'pt'), ('1', 'pc'),
                ('1', 'in'), ('72.27', 'pt'), ('72', 'bp'), ('2.54', 'cm'), ('25.4', 'mm'), ('1', 'cm'),
                ('10', 'mm'), ('5', 'mm'), ('0.5', 'cm'), ('2', 'in'),
                ('reg', '', 'zzL'), ('reg', '2', 'zzL'), ('reg', '-', 'zzL')]

UNIT_RATIO = {'pt': (1, 1), 'pc': (12, 1), 'in': (7227, 100), 'bp': (7227, 7200), 'cm': (7227, 254),
              'mm': (7227, 2540), 'dd': (1238, 1157), 'cc': (14856, 1157)}
# double-precision unit values exactly as a "no rounding" implementation computes them (D_LEN_FLOAT)
UNIT_FLOAT = {'pt': 65536.0, 'pc': 12 * 65536.0, 'in': 72.27 * 65536, 'bp': (72.27 * 65536) / 72,
              'cm': (72.27 * 65536) / 2.54, 'mm': (72.27 * 65536) / 25.4, 'sp': 1.0}


def len_text(o):
    if o[0] == 'reg':
        return '%s\\%s' % (o[1], o[2])
    return o[0] + o[1]


def _round_decimals(digits):
    """tex.web section 102: digits d1 d2 ... -> nearest multiple of 2^-16, as an integer"""
    a = 0
    for d in reversed(digits[:17]):
        a = (a + d * 131072) // 10
    return (a + 1) // 2


def tex_sp(dec, unit):
    """Scaled points TeX assigns to the literal (tex.web sections 448-458): integer arithmetic, truncation."""
    neg = dec.startswith('-')
    if neg:
        dec = dec[1:]
    ip, _, fp = dec.partition('.')
    ip = int(ip or '0')
    if unit == 'sp':
        v = ip
    else:
        f = _round_decimals([int(c) for c in fp])
        n, d = UNIT_RATIO[unit]
        if (n, d) != (1, 1):
            q, r = divmod(ip * n, d)
            f = (n * f + 65536 * r) // d
            ip = q + f // 65536
            f = f % 65536
        v = ip * 65536 + f
    return -v if neg else v


def exact_sp(dec, unit):
    """The mathematical value in scaled points (exact rational)."""
    x = Fraction(dec)
    if unit == 'sp':
        return x
    n, d = UNIT_RATIO[unit]
    return x * Fraction(n, d) * 65536


def float_sp(dec, unit):
    return float(dec) * UNIT_FLOAT[unit]


def _coef(c):
    return 1 if c == '' else (-1 if c == '-' else int(c))


def len_values(o):
    """(tex scaled points, exact rational, unrounded double) of a length operand"""
    if o[0] == 'reg':
        dec, unit = ENV_LEN[o[2]]
        base = tex_sp(dec, unit)             # a register holds what the assignment stored
        c = _coef(o[1])
        # double model: the register is read back as the unrounded double the assignment computed
        return c * base, c * exact_sp(dec, unit), c * float_sp(dec, unit)
    return tex_sp(*o), exact_sp(*o), float_sp(*o)


def _rel(a, r, b):
    return a < b if r == '<' else (a > b if r == '>' else a == b)


def len_admitted(a, r, b):
    """A pair belongs to the alphabet when TeX's integer semantics and exact arithmetic give the same verdict."""
    ta, ea, _ = len_values(a)
    tb, eb, _ = len_values(b)
    return _rel(ta, r, tb) == _rel(ea, r, eb)


# atom descriptions ----------------------------------------------------------
#   ('int', a, rel, b)   ('len', a, rel, b)   ('equal', s, t)   ('isodd', a)
#   ('isundef', name)    ('bool', name)
STRINGS = ['', 'a', 'ab', 'Ab', 'ba', 'a b', '7', '\\zzS', '\\zzA', '\\zzE']


def _expand_string(s):
    for k, v in ENV_MAC.items():
        s = s.replace('\\' + k, v)
    return s


def atom_text(a, style=0):
    k = a[0]
    sp = ' ' if style == 2 else ''
    if k == 'int':
        return int_text(a[1]) + sp + a[2] + sp + int_text(a[3])
    if k == 'len':
        return '\\lengthtest{%s%s%s%s%s}' % (len_text(a[1]), sp, a[2], sp, len_text(a[3]))
    if k == 'equal':
        return '\\equal{%s}{%s}' % (a[1], a[2])
    if k == 'isodd':
        return '\\isodd{%s}' % int_text(a[1])
    if k == 'isundef':
        return '\\isundefined{\\%s}' % a[1]
    if k == 'bool':
        return '\\boolean{%s}' % a[1]
    raise ValueError(a)


def atom_value(a, dev=0, loopvar=None):
    k = a[0]
    if k == 'int':
        return _rel(int_value(a[1], loopvar), a[2], int_value(a[3], loopvar))
    if k == 'len':
        ta, _, fa = len_values(a[1])
        tb, _, fb = len_values(a[3])
        if dev & D_LEN_FLOAT and a[2] != '=':
            return _rel(fa, a[2], fb)
        return _rel(ta, a[2], tb)
    if k == 'equal':
        return _expand_string(a[1]) == _expand_string(a[2])
    if k == 'isodd':
        return abs(int_value(a[1], loopvar)) % 2 == 1
    if k == 'isundef':
        return a[1] in UNDEFINED_CS
    if k == 'bool':
        return ENV_BOOL[a[1]]
    raise ValueError(a)


def atom_kind(a):
    """'cmp': reaches the expression evaluator as number / relation / number tokens;
    'tok': a macro that leaves one truth token"""
    return 'cmp' if a[0] == 'int' else 'tok'


def all_atoms():
    """The complete atom space (part A), in a fixed order; length pairs outside the alphabet are skipped
    (returned separately for the evidence)."""
    atoms, skipped = [], []
    for a in INT_OPERANDS:
        for r in '<=>':
            for b in INT_OPERANDS:
                atoms.append(('int', a, r, b))
    for a in LEN_OPERANDS:
        for r in '<=>':
            for b in LEN_OPERANDS:
                (atoms if len_admitted(a, r, b) else skipped).append(('len', a, r, b))
    for s in STRINGS:
        for t in STRINGS:
            atoms.append(('equal', s, t))
    for a in INT_OPERANDS:
        atoms.append(('isodd', a))
    for n in UNDEFINED_CS + DEFINED_CS:
        atoms.append(('isundef', n))
    for n in sorted(ENV_BOOL):
        atoms.append(('bool', n))
    return atoms, skipped


# menus used as leaves of the expression trees: (kind, truth) -> atoms
TREE_ATOMS = [
    ('int', ('lit', 1), '<', ('lit', 5)), ('int', ('lit', 10), '>', ('lit', 9)), ('int', ('lit', 7), '=', ('lit', 7)),
    ('int', ('val', 'zzc'), '=', ('lit', 3)), ('int', ('mac', 'zzA'), '>', ('lit', 6)),
    ('int', ('lit', -2), '<', ('mac', 'zzA')), ('int', ('mac', 'zzN'), '<', ('lit', 0)),
    ('int', ('val', 'zzc'), '>', ('mac', 'zzN')), ('int', ('lit', 0), '=', ('lit', 0)),
    ('int', ('lit', 12), '>', ('lit', -12)), ('int', ('val', 'zzd'), '=', ('mac', 'zzN')),
    ('int', ('lit', 5), '<', ('lit', 1)), ('int', ('lit', 9), '>', ('lit', 10)), ('int', ('lit', 7), '=', ('lit', 8)),
    ('int', ('val', 'zzc'), '=', ('lit', 4)), ('int', ('mac', 'zzA'), '<', ('lit', 6)),
    ('int', ('mac', 'zzA'), '<', ('lit', -2)), ('int', ('mac', 'zzN'), '>', ('lit', 0)),
    ('int', ('val', 'zzc'), '<', ('mac', 'zzN')), ('int', ('lit', 0), '=', ('lit', 1)),
    ('int', ('lit', -12), '>', ('lit', 12)), ('int', ('val', 'zzd'), '>', ('val', 'zzc')),
    ('isodd', ('lit', 5)), ('isodd', ('lit', -3)), ('isodd', ('val', 'zzc')), ('isodd', ('mac', 'zzA')),
    ('equal', 'ab', 'ab'), ('equal', '\\zzS', 'ab'), ('equal', '', ''), ('isundef', 'zzQ'), ('bool', 'zzbt'),
    ('bool', 'zzbx'), ('len', ('1', 'cm'), '=', ('10', 'mm')), ('len', ('1', 'cm'), '>', ('5', 'mm')),
    ('len', ('reg', '', 'zzL'), '<', ('2', 'in')), ('len', ('-1', 'pt'), '<', ('0', 'pt')),
    ('len', ('1', 'pc'), '=', ('12', 'pt')),
    ('isodd', ('lit', 6)), ('isodd', ('lit', 0)), ('isodd', ('val', 'zzd')), ('isodd', ('mac', 'zzN')),
    ('equal', 'ab', 'ba'), ('equal', '\\zzS', 'a b'), ('equal', 'a', ''), ('isundef', 'zzA'),
    ('isundef', 'section'), ('bool', 'zzbf'), ('bool', 'zzbp'), ('bool', 'zzby'),
    ('len', ('1', 'in'), '<', ('1', 'cm')), ('len', ('1', 'cm'), '=', ('11', 'mm')),
    ('len', ('reg', '', 'zzL'), '>', ('2', 'in')), ('len', ('0', 'pt'), '<', ('-1', 'pt')),
    ('len', ('1', 'sp'), '=', ('0', 'pt')),
]


def tree_menu():
    """{(kind, truth): [atoms]}; every atom's strict value equals its value under every deviation."""
    m = {}
    for a in TREE_ATOMS:
        v = atom_value(a)
        assert v == atom_value(a, D_LEN_FLOAT), a
        m.setdefault((atom_kind(a), v), []).append(a)
    return m


# ---------------------------------------------------------------------------
# loops
# ---------------------------------------------------------------------------
LOOP_CAP = 6


def loop_iterations(evaluate, cap=LOOP_CAP):
    """Number of times the body runs when the counter starts at 0 and the body steps it once:
    evaluate(c) is the test's value with the counter at c.  None when more than `cap` iterations
    (outside the bound, possibly non-terminating).  evaluate may return UNDERFLOW -> ('raises', k)."""
    c = 0
    while True:
        v = evaluate(c)
        if v == UNDERFLOW:
            return ('raises', c)
        if not v:
            return c
        c += 1
        if c > cap:
            return None
