"""
Reference model for C20 (cross-document label persistence).

The saved file is modelled by its *abstract content*:

    ABSENT                      -- no file
    ('GARBAGE', why)            -- bytes that Python's own unpickler rejects
    ('DATA', obj)               -- bytes that unpickle to obj

and the two operations by what the property statement demands of them:

    restore(state, rtype) -> which labels, with which attributes, a fresh run must see
    persist(state, rtype, current) -> what the file must contain afterwards

Nothing here imports plasTeX.  The unpickler of the standard library is used as the
reference reader of faulted bytes (what "the file says" after a bit flip); everything else
is plain dict manipulation.
"""
import io
import pickle

# own copy of the attribute list of the statement ("number, title and target location"):
# a change of plasTeX.Macro.refAttributes must be *seen*, not followed.
REF_ATTRS = ('macroName', 'ref', 'title', 'captionName', 'id', 'url')
REMAP = {'url': 'urloverride'}          # where the target location lives on a restored node

ABSENT = ('ABSENT',)


def ref_load(data):
    """Abstract content of a file with these bytes (None = no file)."""
    if data is None:
        return ABSENT
    try:
        obj = pickle.load(io.BufferedReader(io.BytesIO(bytes(data))))      # read like a buffered file
    except KeyboardInterrupt:
        raise
    except BaseException as e:          # whatever the reader says: the file is garbage
        if type(e).__name__ == 'Timeout':
            raise
        return ('GARBAGE', type(e).__name__)
    return ('DATA', obj)


def is_data(state):
    return state[0] == 'DATA'


def _plain_name(s):
    return type(s) is str and 0 < len(s) < 64 and all(c.isalnum() or c in '*@_-' for c in s) and s.isascii()


def plain_entry(label, attrs):
    """An entry every conforming restore must accept: a str label mapped to a dict of the
    statement's attributes holding strings."""
    if type(label) is not str or type(attrs) is not dict:
        return False
    for k, v in attrs.items():
        if type(k) is not str or k not in REF_ATTRS or not isinstance(v, str):
            return False
    if 'macroName' in attrs and not _plain_name(attrs['macroName']):
        return False
    if attrs.get('id', 'x') == '':         # Context.label never produces an empty id
        return False
    return True


def node_view(attrs):
    """Attributes a restored node must carry for a saved entry."""
    return {str(REMAP.get(k, k)) if isinstance(k, str) else str(k): v for k, v in attrs.items()}


def entries(state, rtype):
    """The mapping stored under rtype, or None when there is none to restore from."""
    if not is_data(state):
        return None
    obj = state[1]
    if not isinstance(obj, dict):
        return None
    try:
        if rtype not in obj:
            return None
    except TypeError:
        return None
    e = obj[rtype]
    if not isinstance(e, dict):
        return None
    return e


def has_junk_under(state, rtype):
    """DATA dict that has the renderer key, but not a mapping under it."""
    if not is_data(state) or not isinstance(state[1], dict):
        return False
    try:
        return rtype in state[1] and not isinstance(state[1][rtype], dict)
    except TypeError:
        return False


def restore(state, rtype):
    """-> (mode, labels).  mode 'exact': a fresh run sees exactly `labels` ({label: node view});
    mode 'subset': some entry is malformed, the statement only allows labels to be *absent*,
    so any sub-mapping of `labels` (the dict-valued entries) is acceptable."""
    e = entries(state, rtype)
    if e is None:
        return 'exact', {}
    if all(plain_entry(k, v) for k, v in e.items()):
        return 'exact', {k: node_view(v) for k, v in e.items()}
    return 'subset', {k: node_view(v) for k, v in e.items() if isinstance(v, dict)}


def well_shaped(state):
    """DATA whose object is a dict of dicts (the shape persist writes)."""
    return is_data(state) and type(state[1]) is dict and all(type(v) is dict for v in state[1].values())


def persist(state, rtype, current):
    """Expected content after saving `current` ({label: attrs}) under rtype.
    -> ('exact', obj) when the previous content is well shaped (merge, other renderers kept),
       ('atleast', {rtype: current}) otherwise (previous content is dropped or kept, but the
       file must be a dict holding the complete current set under rtype)."""
    if well_shaped(state):
        new = {k: dict(v) for k, v in state[1].items()}
        cur = new.setdefault(rtype, {})
        for k, v in current.items():
            cur[k] = dict(v)
        return 'exact', new
    return 'atleast', {rtype: {k: dict(v) for k, v in current.items()}}


def persist_ok(mode, want, got_state, rtype):
    """Does the re-saved file meet the expectation?  -> '' or a description of the defect."""
    if not is_data(got_state):
        return 're-saved file does not unpickle (%s)' % (got_state,)
    got = got_state[1]
    if not isinstance(got, dict):
        return 're-saved file is a %s, not a dict' % type(got).__name__
    if mode == 'exact':
        if not same(got, want):
            return 're-saved content differs from merge(previous content, current labels)'
        return ''
    sub = got.get(rtype)
    if not isinstance(sub, dict):
        return 're-saved file has no mapping under the renderer key'
    for k, v in want[rtype].items():
        if k not in sub or not same(sub[k], v):
            return 're-saved file lacks current label %r (or its attributes differ)' % (k,)
    return ''


def same(a, b):
    """a == b that survives self-referential containers (a flipped BINGET can build one)."""
    try:
        return bool(a == b)
    except RecursionError:
        return type(a) is type(b) and repr(a) == repr(b)


def canon(x, _depth=0):
    """Deterministic, hashable-by-repr form of abstract content (for state keys / outcomes)."""
    if _depth > 40:
        return ('deep', repr(x)[:200])
    if isinstance(x, dict):
        return ('d',) + tuple(sorted(((canon(k, _depth + 1), canon(v, _depth + 1)) for k, v in x.items()), key=repr))
    if isinstance(x, (list, tuple)):
        return ('l',) + tuple(canon(v, _depth + 1) for v in x)
    if isinstance(x, (str, int, float, bool, bytes)) or x is None:
        return (type(x).__name__, x) if not isinstance(x, str) else str(x)
    return ('o', type(x).__name__, repr(x)[:80])
