"""
Reference model of an editable DOM tree for C06: a list-of-lists tree over small integer node ids.
Built-in containers only; no plasTeX import.

    kind[n]   'D' document | 'E' element | 'T' text | 'F' document fragment
    name[n]   tag name / text content
    kids[n]   ordered child id list (None for text)
    attrs[n]  {attribute name: fragment id} for elements, else None
    par[n]    the parentNode pointer the node carries

Strict rules (dev = 0) -- what the property statement and the DOM documentation ask for:
  * a child list is a plain Python list: append / insert(i) / pop(i) / n[i] = x / n[i:j] = [..] mean what
    they mean for `list`, negative and out-of-range indices included;
  * putting a fragment somewhere means putting its children there, in order, at that place
    (list slice insertion).  The fragment keeps listing them (plasTeX fragments are plain
    collections, they are not emptied): fragments are transparent -- a node listed by an
    element/document has that node as parent, whatever fragment also lists it;
  * cloneNode(deep) copies the subtree *and* the attribute-held fragments into fresh nodes;
    cloneNode(False) yields a childless copy (a node never has two listing elements);
  * normalize replaces every maximal run of text children by ONE new text node carrying the
    concatenation, recursively, including attribute-held fragments.
`par` of a node that no element/document lists (removed nodes, fresh clones, children of a free
fragment, fragments themselves) is *hidden state*: the statement does not constrain it, the model
tracks it with plasTeX's rule (pointers are assigned on insertion and never cleared) only so that
the deviated predictions below are complete.

  * an element may use its 'self' attribute fragment as its child list (plasTeX's layout for \\textbf{..}): the
    element and the fragment then share ONE list; the element lists the children, so they name the element as parent,
    and a lookup by tag name meets each of them once.
Named deviations (bit flags): each replaces one strict rule by what plasTeX is known to do (switches 1-16 and 64
describe the tree before the repairs bd20ab5..e7fb523; they are kept so that a regression is named, and must not fire).
"""

D, E, T, F = 'D', 'E', 'T', 'F'
NA = -9

SETITEM_NEGATIVE_INDEX = 1          # n[i] = x, i < 0 in range: executed as insert(i, x); pop(i + 1)
SETITEM_OUT_OF_RANGE = 2            # n[i] = x, i out of range: same literal algorithm (x stays inserted / nothing raised)
SETITEM_SLICE_RAISES = 4            # n[i:j] = [...] raises (AttributeError for a list value, TypeError for a fragment)
INSERT_NEGATIVE_FRAGMENT = 8        # insert(i < 0, fragment): children inserted one by one at i, i+1, ... (i+1 may reach 0)
CLONE_SHARES_ATTRIBUTES = 16        # cloneNode(True): the clone's attribute map holds the *same* fragment objects
SHALLOW_CLONE_SHARES_CHILDREN = 32  # cloneNode(False): the clone lists the same child objects (re-parenting them to itself) and
                                    # its attribute map holds the same fragment objects
COMPARE_TOPMOST_ANCESTOR = 64       # compareDocumentPosition orders by the top-most common ancestor, not the deepest
DETACHED_KEEPS_PARENT = 128         # a node no element lists still carries a parentNode (not cleared on removal, copied
                                    # by cloneNode, set on inserted fragments): parent-chain walks leave the tree / cycle

SELF_FRAGMENT_PARENT = 512          # an element whose child list is its 'self' attribute fragment: whenever the attribute is
                                    # (re)assigned (cloneNode, parsing) the children name the FRAGMENT as parentNode, not the
                                    # element that lists them (NamedNodeMap._resetPosition); nodes appended later name the element
SELF_LOOKUP_TWICE = 1024            # getElementsByTagName on such an element searches the 'self' fragment as an attribute AND
                                    # as the child list: every match below it is returned twice
FRAGMENT_REPARENTS_LISTED = 256     # putting a node into a fragment's child list (append/insert/normalize on the fragment)
                                    # overwrites its parentNode with the fragment's own pointer even when an
                                    # element/document lists the node

DEV_NAMES = {
    SETITEM_NEGATIVE_INDEX: 'C06.SETITEM_NEGATIVE_INDEX',
    SETITEM_OUT_OF_RANGE: 'C06.SETITEM_OUT_OF_RANGE',
    SETITEM_SLICE_RAISES: 'C06.SETITEM_SLICE_RAISES',
    INSERT_NEGATIVE_FRAGMENT: 'C06.INSERT_NEGATIVE_FRAGMENT',
    CLONE_SHARES_ATTRIBUTES: 'C06.CLONE_SHARES_ATTRIBUTES',
    SHALLOW_CLONE_SHARES_CHILDREN: 'C06.SHALLOW_CLONE_SHARES_CHILDREN',
    COMPARE_TOPMOST_ANCESTOR: 'C06.COMPARE_POSITION_TOPMOST_ANCESTOR',
    DETACHED_KEEPS_PARENT: 'C06.DETACHED_NODE_KEEPS_PARENT',
    FRAGMENT_REPARENTS_LISTED: 'C06.FRAGMENT_REPARENTS_LISTED_CHILD',
    SELF_FRAGMENT_PARENT: 'C06.SELF_FRAGMENT_CHILD_PARENT',
    SELF_LOOKUP_TWICE: 'C06.SELF_ATTRIBUTE_LOOKUP_TWICE',
}
VIEW = [COMPARE_TOPMOST_ANCESTOR, DETACHED_KEEPS_PARENT, SELF_LOOKUP_TWICE]
STRUCTURAL = [SETITEM_NEGATIVE_INDEX, SETITEM_OUT_OF_RANGE, SETITEM_SLICE_RAISES, INSERT_NEGATIVE_FRAGMENT,
              CLONE_SHARES_ATTRIBUTES, SHALLOW_CLONE_SHARES_CHILDREN, FRAGMENT_REPARENTS_LISTED,
              SELF_FRAGMENT_PARENT]

POS_DISCONNECTED, POS_PRECEDING, POS_FOLLOWING, POS_CONTAINS, POS_CONTAINED_BY = 1, 2, 4, 8, 16


class NotFoundErr(Exception):
    pass


class Tree(object):
    def __init__(self, dev=0):
        self.dev = dev
        self.kind, self.name, self.kids, self.attrs, self.par = [], [], [], [], []

    def copy(self, dev=None):
        o = Tree(self.dev if dev is None else dev)
        o.kind = list(self.kind)
        o.name = list(self.name)
        memo = {}                       # an element with a 'self' attribute shares ONE list with that fragment
        o.kids = [None if k is None else memo.setdefault(id(k), list(k)) for k in self.kids]
        o.attrs = [None if a is None else dict(a) for a in self.attrs]
        o.par = list(self.par)
        return o

    def new(self, kind, name=None):
        self.kind.append(kind)
        self.name.append(name)
        self.kids.append(None if kind == T else [])
        self.attrs.append({} if kind == E else None)
        self.par.append(None)
        return len(self.kind) - 1

    # ---- primitive list editing ------------------------------------------------
    def _setpar(self, L, x):
        if self.kind[L] != F:
            self.par[x] = L
            return
        # a node put into a fragment: the fragment is transparent, a node some element/document lists keeps naming it;
        # otherwise (hidden state) it gets the fragment's own pointer
        if not (self.dev & FRAGMENT_REPARENTS_LISTED):
            for P, k in enumerate(self.kids):
                if k and self.kind[P] != F and x in k:
                    return
        self.par[x] = self.par[L]

    def _append(self, L, x):
        if self.kind[x] == F:
            for c in list(self.kids[x]):
                self._append(L, c)
        else:
            self.kids[L].append(x)
        self._setpar(L, x)

    def _insert(self, L, i, x):
        if self.kind[x] == F:
            if i < 0 and not (self.dev & INSERT_NEGATIVE_FRAGMENT):
                i = max(0, len(self.kids[L]) + i)      # the place list.insert(i, ..) denotes
            for c in list(self.kids[x]):
                self._insert(L, i, c)
                i += 1
        else:
            self.kids[L].insert(i, x)
        self._setpar(L, x)

    def _pop(self, L, i=-1):
        return self.kids[L].pop(i)          # IndexError when empty / out of range; the pointer of the node stays

    def _remove(self, L, c):
        k = self.kids[L]
        for idx in range(len(k)):
            if k[idx] == c:
                return self._pop(L, idx)
        raise NotFoundErr()

    # ---- events ------------------------------------------------------------------
    def apply(self, ev):
        """ev = (op, target, arg, extra) -> ('ok', returned node id or NA, ...) | ('raises', exception class name)"""
        op, t, x, i = ev
        try:
            ret = getattr(self, 'op_' + op)(t, x, i)
        except (IndexError, NotFoundErr, AttributeError, TypeError) as e:
            return ('raises', type(e).__name__)
        return ('ok',) + (ret if isinstance(ret, tuple) else (ret,))

    def op_append(self, t, x, i):
        self._append(t, x)
        return x

    def op_insert(self, t, x, i):
        self._insert(t, i, x)
        return x

    def op_before(self, t, x, ref, off=0):
        try:
            self._remove(t, x)
        except NotFoundErr:
            pass
        k = self.kids[t]
        for idx in range(len(k)):
            if k[idx] == ref:
                self._insert(t, idx + off, x)
                return x
        raise NotFoundErr()

    def op_after(self, t, x, ref):
        return self.op_before(t, x, ref, 1)

    def op_replace(self, t, x, old):
        try:
            self._remove(t, x)
        except NotFoundErr:
            pass
        k = self.kids[t]
        for idx in range(len(k)):
            if k[idx] == old:
                self._pop(t, idx)
                self._insert(t, idx, x)
                return old
        raise NotFoundErr()

    def op_remove(self, t, x, c):
        return self._remove(t, c)

    def op_pop(self, t, x, i):
        return self._pop(t, -1)

    def op_pop0(self, t, x, i):
        return self._pop(t, 0)

    def op_setitem(self, t, x, i):
        n = len(self.kids[t])
        inrange = -n <= i < n
        if (inrange and i < 0 and self.dev & SETITEM_NEGATIVE_INDEX) or \
                (not inrange and self.dev & SETITEM_OUT_OF_RANGE):
            # the published algorithm, taken literally
            if self.kind[x] == F:
                for c in list(self.kids[x]):
                    self._insert(t, i, c)
                    i += 1
                self._pop(t, i)
            else:
                self._insert(t, i, x)
                self._pop(t, i + 1)
            return NA
        if not inrange:
            raise IndexError()
        j = i % n
        del self.kids[t][j]
        if self.kind[x] == F:
            for c in list(self.kids[x]):
                self._insert(t, j, c)
                j += 1
        else:
            self._insert(t, j, x)
        return NA

    def op_setslice(self, t, x, form):
        """form 0: t[0:1] = [x]      form 1: t[0:1] = x   (x a fragment, i.e. its children)"""
        if self.dev & SETITEM_SLICE_RAISES:
            raise (TypeError if form else AttributeError)()
        vals = list(self.kids[x]) if form else [x]
        self.kids[t][0:1] = vals
        for v in vals:
            self._setpar(t, v)
        return NA

    def op_extend(self, t, x, i):          # t.extend([x])
        self._append(t, x)
        return t

    op_iadd = op_extend                    # t += [x]

    def op_extendf(self, t, x, i):         # t.extend(fragment): iterate the fragment
        for c in list(self.kids[x]):
            self._append(t, c)
        return t

    def op_setattr(self, t, x, i):         # t.setAttribute('arg', fragment)
        self._setattr(t, 'arg', x)
        return NA

    def op_setself(self, t, x, i):         # t.setAttribute('self', fragment) on an element whose child list was never touched:
        self._setattr(t, 'self', x)        # the fragment IS the child list from now on
        return NA

    def _setattr(self, t, key, f):
        self.attrs[t][key] = f
        if key == 'self':
            self.kids[t] = self.kids[f]    # one shared list
        for c in self.kids[f]:
            if key == 'self' and not (self.dev & SELF_FRAGMENT_PARENT):
                self.par[c] = t            # the element lists them
            else:
                self.par[c] = f            # NamedNodeMap._resetPosition: children of a fragment value name the fragment

    def op_clone(self, t, x, deep):
        n0 = len(self.kind)
        c = self._clone(t, bool(deep))
        c = self._compact(n0, c)
        return (c, True) if deep else (c,)   # a deep clone must compare equal to its original

    def _scan(self, n, order, seen):
        """node, then its attribute-held fragments, then its children, recursively (creation order of new nodes)"""
        if n in seen:
            return
        seen.add(n)
        order.append(n)
        if self.kind[n] == T:
            return
        if self.attrs[n]:
            for f in self.attrs[n].values():
                self._scan(f, order, seen)
        for k in self.kids[n]:
            self._scan(k, order, seen)

    def _compact(self, n0, root):
        """Nodes created by the current call (ids >= n0) are renumbered in the order a walk from `root` meets them;
        nodes the call created and dropped again (unreachable temporaries) are forgotten.  Returns root's new id."""
        order = []
        self._scan(root, order, set())
        new = [n for n in order if n >= n0]
        ren = {old: n0 + k for k, old in enumerate(new)}
        f = lambda n: ren.get(n, n) if (n is not None and n >= n0) else n
        keep = list(range(n0)) + new
        self.kind = [self.kind[n] for n in keep]
        self.name = [self.name[n] for n in keep]
        memo = {}
        self.kids = [None if self.kids[n] is None else memo.setdefault(id(self.kids[n]), [f(c) for c in self.kids[n]])
                     for n in keep]
        self.attrs = [None if self.attrs[n] is None else {k: f(v) for k, v in self.attrs[n].items()} for n in keep]
        self.par = [f(self.par[n]) for n in keep]
        return f(root)

    def _clone(self, n, deep):
        c = self.new(self.kind[n], self.name[n])
        self.par[c] = self.par[n]
        if self.kind[n] == T:
            return c
        share = (self.dev & CLONE_SHARES_ATTRIBUTES) if deep else (self.dev & SHALLOW_CLONE_SHARES_CHILDREN)
        selff = None
        if self.attrs[n]:
            keys = [k for k in self.attrs[n] if k != 'self']
            if 'self' in self.attrs[n]:
                selff = self.attrs[n]['self']
                keys.append('self')                      # the child-list attribute is copied last
            for key in keys:
                f = self.attrs[n][key]
                if not share:
                    if key == 'self' and not deep:
                        g = self.new(F)                  # a shallow copy is childless
                        self.par[g] = self.par[f]
                        f = g
                    else:
                        f = self._clone(f, True)
                self._setattr(c, key, f)
        if selff is not None:
            return c                                      # the children are the 'self' fragment
        if deep:
            for k in list(self.kids[n]):
                self._append(c, self._clone(k, True))
        elif self.dev & SHALLOW_CLONE_SHARES_CHILDREN:
            for k in list(self.kids[n]):
                self._append(c, k)
        return c

    def op_normalize(self, t, x, i):
        n0 = len(self.kind)
        self._normalize(t)
        self._compact(n0, t)
        return NA

    def _normalize(self, n):
        if self.kind[n] == T:
            return
        if self.attrs[n]:
            for f in self.attrs[n].values():
                self._normalize(f)
        nodes = list(self.kids[n])
        del self.kids[n][:]
        run = []

        def flush():
            if run:
                t = self.new(T, ''.join(self.name[r] for r in run))
                del run[:]
                self._append(n, t)

        for item in nodes:
            if self.kind[item] == T:
                run.append(item)
                continue
            flush()
            self._append(n, item)
            self._normalize(item)
        flush()

    # ---- derived structure ---------------------------------------------------------
    def listers(self):
        """node -> list of nodes listing it as a child (elements/documents first), plus attribute holders"""
        out = {}
        for L, k in enumerate(self.kids):
            if k:
                for c in k:
                    out.setdefault(c, []).append(L)
        return out

    def tree_parent(self):
        """node -> the element/document that lists it (fragments are transparent); absent = root"""
        tp = {}
        for L, k in enumerate(self.kids):
            if k and self.kind[L] != F:
                for c in k:
                    tp[c] = L
        return tp

    def attr_holder(self):
        return {f: n for n, a in enumerate(self.attrs) if a for f in a.values()}

    def upclosure(self, t):
        """t and everything that (transitively) lists or holds it"""
        lst = self.listers()
        hold = self.attr_holder()
        seen = set()
        todo = [t]
        while todo:
            y = todo.pop()
            if y in seen:
                continue
            seen.add(y)
            todo.extend(lst.get(y, ()))
            if y in hold:
                todo.append(hold[y])
        return seen

    # ---- derived views -------------------------------------------------------------
    def text(self, n):
        if self.kind[n] == T:
            return self.name[n]
        return ''.join(self.text(c) for c in self.kids[n])

    def descendants(self, n, out=None):
        """all nodes below n in document order (child lists only)"""
        if out is None:
            out = []
        for c in (self.kids[n] or ()):
            out.append(c)
            self.descendants(c, out)
        return out

    def bytag(self, n, tag, out=None, twice=False):
        """elements named `tag` below n in document order; attribute-held fragments are searched before the children"""
        if out is None:
            out = []
        if self.kind[n] == T:
            return out
        if self.attrs[n]:
            for key, f in self.attrs[n].items():
                if key != 'self' or twice:           # the 'self' fragment is the child list: searched once, below
                    self.bytag(f, tag, out, twice)
        for c in self.kids[n]:
            if self.kind[c] == E and self.name[c] == tag:
                out.append(c)
            self.bytag(c, tag, out, twice)
        return out

    def siblings(self, c, tp):
        """(previousSibling, nextSibling) of c from the lists"""
        P = tp.get(c)
        if P is None:
            return (None, None)
        k = self.kids[P]
        i = k.index(c)
        return (k[i - 1] if i > 0 else None, k[i + 1] if i + 1 < len(k) else None)

    def clean_pointers(self, tp):
        """the parent pointers the lists define: listing element/document, None for every root"""
        return [tp.get(n) for n in range(len(self.kind))]

    def _chain(self, n, ptr):
        """n and its ancestors along ptr, or None when the chain never ends"""
        out, seen = [], set()
        while n is not None:
            if n in seen:
                return None
            seen.add(n)
            out.append(n)
            n = ptr[n]
        return out

    def compare(self, a, b, ptr, algo='tree'):
        """a.compareDocumentPosition(b) for two different nodes (plasTeX's single-flag convention), computed from the
        child lists and the parent pointers `ptr`; 'cycle' when a parent chain never ends.
        algo 'tree'   : the DOM definition -- containment, else the order of the two branches below the deepest
                        common ancestor (the strict oracle, used with the pointers the lists define);
        algo 'deepest': the published algorithm, literally: adjacent-sibling shortcuts through ptr, containment along
                        ptr, then common ancestors tried from the deepest one of a's chain upwards;
        algo 'topmost': the algorithm published before the repair: common ancestors tried from the root downwards."""
        ca, cb = self._chain(a, ptr), self._chain(b, ptr)
        if ca is None or cb is None:
            return 'cycle'
        if algo != 'tree':
            if self._ptr_sibling(a, ptr, False) == b:
                return POS_PRECEDING
            if self._ptr_sibling(a, ptr, True) == b:
                return POS_FOLLOWING
        if b in ca:
            return POS_CONTAINS          # b contains a
        if a in cb:
            return POS_CONTAINED_BY
        if algo != 'tree':
            sp, op = ca[::-1], cb[::-1]
            order = range(len(sp)) if algo == 'topmost' else range(len(sp) - 1, -1, -1)
            for i in order:
                for j, o0 in enumerate(op):
                    if sp[i] == o0:
                        s, o = sp[i + 1], op[j + 1]
                        for item in (self.kids[o0] or ()):
                            if item == s:
                                return POS_FOLLOWING
                            if item == o:
                                return POS_PRECEDING
            return POS_DISCONNECTED
        inb = set(cb)
        for i, s0 in enumerate(ca):
            if s0 in inb:                # deepest common ancestor
                k = self.kids[s0] or []
                s, o = ca[i - 1], cb[cb.index(s0) - 1]
                if s in k and o in k:
                    return POS_FOLLOWING if k.index(s) < k.index(o) else POS_PRECEDING
                return POS_DISCONNECTED
        return POS_DISCONNECTED

    def _ptr_sibling(self, c, ptr, nxt):
        """previousSibling / nextSibling the way plasTeX computes them: scan the list of the node ptr names"""
        P = ptr[c]
        if P is None or not self.kids[P]:
            return None
        prev, hit = None, False
        for item in self.kids[P]:
            if nxt:
                if hit:
                    return item
                if item == c:
                    hit = True
            else:
                if item == c:
                    return prev
                prev = item
        return None

    def shape(self, n):
        if self.kind[n] == T:
            return self.name[n]
        a = tuple((k, self.shape(f)) for k, f in self.attrs[n].items()) if self.attrs[n] else ()
        return (self.kind[n], self.name[n], a, tuple(self.shape(c) for c in self.kids[n]))

    def dump(self):
        return (tuple(self.kind), tuple(self.name), tuple(None if k is None else tuple(k) for k in self.kids),
                tuple(None if a is None else tuple(a.items()) for a in self.attrs), tuple(self.par))


def _selftest():
    """The fixed examples of plasTeX's unittests/DOM/Node.py, evaluated on the strict model."""
    t = Tree()
    doc, node, one, two, three, four = (t.new(D), t.new(E, 'node'), t.new(E, 'one'), t.new(T, 'two'),
                                        t.new(E, 'three'), t.new(E, 'four'))
    frag = t.new(F)
    t.apply(('append', node, one, NA)); t.apply(('append', node, two, NA))
    t.apply(('append', frag, three, NA)); t.apply(('append', frag, four, NA))
    assert t.apply(('insert', node, frag, 1)) == ('ok', frag)                       # testInsert3
    assert t.kids[node] == [one, three, four, two] and t.par[three] == node
    five = t.new(E, 'five')
    t.apply(('setitem', node, five, 1))                                             # testSetItem
    assert t.kids[node] == [one, five, four, two]
    t.apply(('setitem', node, three, -1))
    assert t.kids[node] == [one, five, four, three]
    t.apply(('append', doc, node, NA)); t.apply(('append', three, two, NA))
    tp = t.tree_parent()
    ptr = t.clean_pointers(tp)
    assert t.compare(one, two, ptr) == POS_FOLLOWING and t.compare(two, one, ptr) == POS_PRECEDING   # testCompare...
    assert t.compare(node, two, ptr) == POS_CONTAINED_BY and t.compare(two, node, ptr) == POS_CONTAINS
    assert t.compare(four, five, ptr) == POS_PRECEDING and t.compare(five, three, ptr) == POS_FOLLOWING
    n2, a, b, c = t.new(E, 'n'), t.new(T, 'a'), t.new(T, 'b'), t.new(T, 'c')
    q = t.new(E, 'q')
    for x in (a, b, q, c):
        t.apply(('append', n2, x, NA))
    before = t.text(n2)
    t.apply(('normalize', n2, NA, NA))                                              # testNormalize
    assert [t.name[k] for k in t.kids[n2]] == ['ab', 'q', 'c'] and t.text(n2) == before
    shape = t.shape(n2)
    t.apply(('normalize', n2, NA, NA))
    assert t.shape(n2) == shape
    assert t.apply(('pop', q, NA, NA)) == ('raises', 'IndexError')
    r = t.apply(('clone', n2, NA, 1))
    assert r[0] == 'ok' and t.shape(r[1]) == t.shape(n2) and not set(t.kids[r[1]]) & set(t.kids[n2])
    return True


if __name__ == '__main__':
    print('dom_tree_c06 self-test', 'ok' if _selftest() else 'FAILED')
