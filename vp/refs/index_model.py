"""
Reference index builder for C18 (plain Python, never parses LaTeX).

An *entry spec* is the AST of one \\index argument (JSON-able):

    {'lv': [[sort|None, src, text, mark|None], ...],      1-3 levels
     'fmt': None | [name] | [name, arg]}                  |textbf  |see{beta}  |seealso{alpha}
                                                          |(  |)  |(textbf  |)textbf   (name starts with ( or ) )

    sort  -- explicit sort key of the level (the part before @) or None
    src   -- LaTeX source of the displayed key, *unquoted* (the printer quotes ! @ | ")
    text  -- the text the displayed key must show
    mark  -- name of the formatting element that must wrap the display (e.g. 'textbf') or None

makeindex semantics (MakeIndex manual, "Input format"; LaTeX Companion 2nd ed. ch. 11):
    main!sub!subsub nests; sort@display sorts by `sort`, shows `display`; |fmt applies \\fmt to the
    page number, |see{x} makes a cross reference; "c quotes the special character c.
    e.g.  \\index{gamma@\\textbf{Gamma}}  -> one line "Gamma" sorted as "gamma"
          \\index{alpha!sub} \\index{alpha} -> line "alpha" with one page and one child "sub"
          \\index{q"!uote}                  -> one top-level line "q!uote"

Result of a model: a tree   node = [ident, pages, children]
    ident = (sortkey, text, mark)
    page  = (occurrence number in document order, kind, fmt, shown)
            kind 'normal' | 'see' | 'seealso';  shown = ordinal of the reference within its line
            ("1", "2", ...) or the target of a cross reference.

Deviation switches (named; see vp/checks/c18.py):
    key function  -- strict: Unicode Collation Algorithm (pyuca.Collator);  COLLATOR_FALLBACK: str.lower
    builder       -- strict: tree_model (entries grouped by key path);  TIE_SPLIT: flat_model
                     (global sort with a partial comparator + merge of *adjacent* common prefixes)
    heading       -- strict: first character of the transliterated initial; HEADING_MULTICHAR: the whole
                     transliteration of the initial must be one ASCII letter
"""
import string

SPECIALS = '!@|"'

_UCA = None


def uca():
    """Independent collation key: the Unicode Collation Algorithm (DUCET), via pyuca's public Collator."""
    global _UCA
    if _UCA is None:
        try:
            from pyuca import Collator
            _UCA = Collator().sort_key
        except ImportError:          # stated in ASSUMPTIONS of the check when it happens
            _UCA = lower
    return _UCA


def lower(s):
    return s.lower()


def have_uca():
    return uca() is not lower


# ---------------------------------------------------------------------------------- printer
def quote(s):
    out = []
    for ch in s:
        if ch in SPECIALS:
            out.append('"')
        out.append(ch)
    return ''.join(out)


def spell(spec):
    """The \\index argument that denotes the spec."""
    parts = []
    for sort, src, text, mark in spec['lv']:
        s = quote(src)
        if sort is not None:
            s = quote(sort) + '@' + s
        parts.append(s)
    out = '!'.join(parts)
    fmt = spec.get('fmt')
    if fmt:
        out += '|' + fmt[0]
        if len(fmt) > 1:
            out += '{' + fmt[1] + '}'
    return out


# ---------------------------------------------------------------------------------- helpers
def idents(spec):
    return [((text if sort is None else sort), text, mark) for sort, src, text, mark in spec['lv']]


def is_range(spec):
    fmt = spec.get('fmt')
    return bool(fmt) and fmt[0][:1] in ('(', ')')


def page_of(spec, occ):
    """A range opener / closer is an ordinary reference of its line (what it shows besides its ordinal is not
    judged); the encapsulator after the range character (|(textbf) formats the reference like |textbf."""
    fmt = spec.get('fmt')
    if fmt and fmt[0] in ('see', 'seealso'):
        return [occ, fmt[0], fmt[0], fmt[1]]
    name = fmt[0].lstrip('()') if fmt else None
    return [occ, 'normal', name or None, None]


def _number(children):
    """Fill in the ordinal each page reference shows within its line."""
    for ident, pages, sub in children:
        for i, p in enumerate(pages):
            if p[3] is None:
                p[3] = str(i + 1)
        _number(sub)
    return children


# ---------------------------------------------------------------------------------- strict builder
def tree_model(specs, ck):
    """Entries grouped by key path; siblings ordered by (ck(sort key), ck(display text)), ties by first
    occurrence; page references of a line in document order."""
    root = {}                                   # ident -> [first_occ, pages, children-dict]

    for occ, spec in enumerate(specs):
        cur = root
        node = None
        for ident in idents(spec):
            node = cur.get(ident)
            if node is None:
                node = cur[ident] = [occ, [], {}]
            cur = node[2]
        node[1].append(page_of(spec, occ))

    def order(d):
        items = sorted(d.items(), key=lambda kv: (ck(kv[0][0]), ck(kv[0][1]), kv[1][0]))
        return [[ident, pages, order(sub)] for ident, (first, pages, sub) in items]

    return _number(order(root))


# ---------------------------------------------------------------------------------- TIE_SPLIT builder
class _Flat(object):
    """One entry of the flat list, compared the way a level-wise (ck(sort), ck(text), display) comparison
    behaves when two displays with equal collation keys are *incomparable* (neither smaller)."""
    __slots__ = ('spec', 'occ', 'ids', 'srcs', 'ck')

    def __init__(self, spec, occ, ck):
        self.spec, self.occ, self.ck = spec, occ, ck
        self.ids = idents(spec)
        self.srcs = [lv[1] for lv in spec['lv']]

    def __lt__(self, other):
        ck = self.ck
        for (sa, ta, ma), (sb, tb, mb), xa, xb in zip(self.ids, other.ids, self.srcs, other.srcs):
            ka, kb = (ck(sa), ck(ta)), (ck(sb), ck(tb))
            if ka == kb and xa == xb:
                continue
            if ka[0] != kb[0]:
                return ka[0] < kb[0]
            if ka[1] != kb[1]:
                return ka[1] < kb[1]
            return len(self.ids) < len(other.ids)          # incomparable displays
        return len(self.ids) < len(other.ids)


def flat_model(specs, ck):
    """Global stable sort of the entries with the partial comparator above, then a new line is opened
    for every level at which an entry differs from the entry *just before it*."""
    items = sorted(_Flat(s, i, ck) for i, s in enumerate(specs))
    top = []
    path = []                                   # open nodes, outermost first
    prev = None
    for it in items:
        common = 0
        if prev is not None:
            for a, b, xa, xb in zip(prev.ids, it.ids, prev.srcs, it.srcs):
                if a[0] == b[0] and xa == xb:
                    common += 1
                    continue
                break
        del path[common:]
        for ident in it.ids[common:]:
            node = [ident, [], []]
            (path[-1][2] if path else top).append(node)
            path.append(node)
        path[-1][1].append(page_of(it.spec, it.occ))
        prev = it
    return _number(top)


# ---------------------------------------------------------------------------------- CATCODE_SPLIT builder
def letter_sig(spec, letters):
    """Per level: the makeindex specials that remain in the displayed key (they were quoted) and that were
    tokenised as letters where the entry was written (e.g. inside a macro defined under \\makeatletter)."""
    return [''.join(sorted(set(ch for ch in lv[1] if ch in SPECIALS and ch in letters))) for lv in spec['lv']]


def flat_catcode_model(specs, ck, sigs):
    """Total, stable sort by level-wise (ck(sort), ck(text), source); a line is shared only by *adjacent* entries
    whose displayed keys agree character for character *and category for category* (sigs[i] = letter_sig of the
    i-th entry)."""
    def sortkey(i):
        return [(ck(sk), ck(text), lv[1]) for (sk, text, mark), lv in zip(idents(specs[i]), specs[i]['lv'])]
    order = sorted(range(len(specs)), key=sortkey)
    top, path, prev = [], [], None
    for i in order:
        ids = idents(specs[i])
        mine = [(a[0], lv[1], g) for a, lv, g in zip(ids, specs[i]['lv'], sigs[i])]
        common = 0
        if prev is not None:
            for a, b in zip(prev, mine):
                if a != b:
                    break
                common += 1
        del path[common:]
        for ident in ids[common:]:
            node = [ident, [], []]
            (path[-1][2] if path else top).append(node)
            path.append(node)
        path[-1][1].append(page_of(specs[i], i))
        prev = mine
    return _number(top)


# ---------------------------------------------------------------------------------- comparison form
def canon(children, ck):
    """Nested tuples; the relative order of *adjacent siblings with equal collation keys* is not judged
    (the statement fixes the order only through the collation key), everything else is."""
    out = []
    run, runkey = [], None
    for ident, pages, sub in children:
        k = (ck(ident[0]), ck(ident[1]))
        node = (tuple(ident), tuple(tuple(p) for p in pages), canon(sub, ck))
        if run and k == runkey:
            run.append(node)
        else:
            out.extend(sorted(run, key=_tiekey))
            run, runkey = [node], k
    out.extend(sorted(run, key=_tiekey))
    return tuple(out)


def _tiekey(node):
    return tuple('' if x is None else x for x in node[0])


# ---------------------------------------------------------------------------------- headings
def heading(sortkey, multichar_dev=False):
    """(title, id) of the group a top-level entry with this sort key belongs to."""
    from unidecode import unidecode
    if not sortkey:
        return ('Symbols', 'Symbols')
    t = unidecode(sortkey[0]).upper()
    if multichar_dev:
        if t in string.ascii_letters:           # substring test: whole transliteration, also ''
            return (t, t)
    else:
        t = t[:1]
        if t and t in string.ascii_letters:
            return (t, t)
    if t == '_':
        return ('_ (Underscore)', '_')
    return ('Symbols', 'Symbols')


def expected_groups(top_sortkeys, multichar_dev=False):
    """Consecutive runs of equal headings over the ordered top-level entries -> [(title, id, [positions])]"""
    out = []
    for i, sk in enumerate(top_sortkeys):
        h = heading(sk, multichar_dev)
        if out and out[-1][0] == h[0]:
            out[-1][2].append(i)
        else:
            out.append((h[0], h[1], [i]))
    return out


def check_columns(columns, members, cols):
    """Statement + design clauses for one group: exactly `cols` columns, their concatenation is the
    group's entries in order, empty columns only as trailing padding.  -> '' or a complaint."""
    if len(columns) != cols:
        return 'group has %d columns, index-columns=%d' % (len(columns), cols)
    flat = [x for c in columns for x in c]
    if flat != list(members):
        return 'columns %r do not concatenate to the group entries %r' % (columns, list(members))
    seen_empty = False
    for c in columns:
        if not c:
            seen_empty = True
        elif seen_empty:
            return 'empty column before a non-empty one: %r' % (columns,)
    return ''


# ---------------------------------------------------------------------------------- self test
def _selftest():
    E = lambda *lv, **k: {'lv': [list(x) for x in lv], 'fmt': k.get('fmt')}
    a = E((None, 'alpha', 'alpha', None))
    asub = E((None, 'alpha', 'alpha', None), (None, 'sub', 'sub', None))
    g = E(('gamma', '\\textbf{Gamma}', 'Gamma', 'textbf'))
    q = E((None, 'q!uote', 'q!uote', None))
    see = E((None, 'alpha', 'alpha', None), fmt=['see', 'beta'])
    assert spell(asub) == 'alpha!sub' and spell(g) == 'gamma@\\textbf{Gamma}' and spell(q) == 'q"!uote'
    assert spell(see) == 'alpha|see{beta}'
    t = tree_model([asub, g, a, see, a], lower)
    assert [n[0][1] for n in t] == ['alpha', 'Gamma']
    assert t[0][1] == [[2, 'normal', None, '1'], [3, 'see', 'see', 'beta'], [4, 'normal', None, '3']]
    assert [n[0][1] for n in t[0][2]] == ['sub'] and t[0][2][0][1] == [[0, 'normal', None, '1']]
    assert canon(flat_model([asub, g, a, see, a], lower), lower) == canon(t, lower)
    assert heading('école') == ('E', 'E') and heading('1one')[0] == 'Symbols' and heading('_x')[1] == '_'
    assert heading('Æsir') == ('A', 'A') and heading('Æsir', True)[0] == 'Symbols'
    assert expected_groups(['1', 'a', 'A', 'b']) == [('Symbols', 'Symbols', [0]), ('A', 'A', [1, 2]), ('B', 'B', [3])]
    assert check_columns([[0, 1], [2], []], [0, 1, 2], 3) == ''
    assert check_columns([[], [0]], [0], 2) and check_columns([[0]], [0], 2) and check_columns([[1], [0]], [0, 1], 2)
    r1, r2 = E((None, 'alpha', 'alpha', None), fmt=['(']), E((None, 'alpha', 'alpha', None), fmt=[')textbf'])
    assert spell(r1) == 'alpha|(' and spell(r2) == 'alpha|)textbf' and is_range(r1) and not is_range(see)
    assert tree_model([r1, a, r2], lower)[0][1] == [[0, 'normal', None, '1'], [1, 'normal', None, '2'],
                                                    [2, 'normal', 'textbf', '3']]
    assert letter_sig(q, '@') == [''] and letter_sig(q, '!@') == ['!']
    fc = flat_catcode_model([q, q, q], lower, [[''], ['!'], ['']])
    assert [len(n[1]) for n in fc] == [1, 1, 1]
    assert canon(flat_catcode_model([q, asub, q], lower, [[''], ['', ''], ['']]), lower) == canon(tree_model([q, asub, q], lower), lower)
    if have_uca():
        k = uca()
        assert sorted(['Alpha', 'zeta', 'école', 'alpha', 'echo'], key=k) == ['alpha', 'Alpha', 'echo', 'école', 'zeta']
    return True


if __name__ == '__main__':
    print(_selftest())
