"""
Reference TeX lexer (TeXbook chapter 8; tex.web sections 343-357), over (character, category)
pairs.  Boring on purpose: one function, index arithmetic, three states.

Conventions fixed in DESIGN.md (C01): the input is one string, `\\n` is the end-of-line
character, there is no line-reading pre-pass (no trailing blank stripping, no appended
\\endlinechar), TeX3's ^^xy hex form is outside the alphabet.  A comment discards through
the next physical newline.  A category-5 character discards the rest of its physical line.

lex(s, cat, dev) returns a list of (catcode, text) or the string 'raises:<Type>'.
`cat` maps a character to its category (missing -> 12).  Active characters are reported as
(13, c); the comparison maps them to plasTeX's escape sequence 'active::c'.

`dev` is a bit set of *named deviations* (see known_findings.json) -- each one replaces one
TeXbook rule by what plasTeX is known to do; the strict oracle is dev = 0.
"""

N, M, S = 'N', 'M', 'S'

# named deviations --------------------------------------------------------
D_IGNORED_EARLY = 1      # ignored/invalid characters are dropped by the character reader, i.e. also
                         # inside / right after an escape character (TeX: they end a control word, and
                         # `\<ignored>` is a control symbol)
D_ESC_EOL_SPACE = 2      # escape char + end-of-line char gives a space token and state S (TeX: control symbol, state M)
D_CTRL_SPACE_M = 4       # after a control space the state is M (TeX: S, following blanks skipped)
D_STATIC_LETTERS = 8     # blank skipping after a control sequence is decided by membership of its last
                         # character in the *static* letter list instead of the live category
D_CARET_EOF = 16         # `^^` at end of input raises TypeError (TeX: two superscript characters)
D_CARET_NONASCII = 32    # `^^c` is decoded for c >= 128 (TeX: only for c < 128)
D_EOL_DISCARD = 64       # a category-5 character other than newline discards the rest of the physical line only in
                         # state N (TeX: always)
D_CARET_NO_RESCAN = 128  # the character produced by ^^X is not re-examined for a further ^^ sequence, except that a
                         # decoded character that ends a control word is pushed back and read again (so it is re-examined there)

DEV_NAMES = {
    D_IGNORED_EARLY: 'C01.IGNORED_EARLY', D_ESC_EOL_SPACE: 'C01.ESC_EOL_SPACE',
    D_CTRL_SPACE_M: 'C01.CTRL_SPACE_STATE_M', D_STATIC_LETTERS: 'C01.STATIC_LETTER_SKIP',
    D_CARET_EOF: 'C01.CARET_EOF', D_CARET_NONASCII: 'C01.CARET_NONASCII',
    D_EOL_DISCARD: 'C01.EOL_DISCARD_ONLY_N', D_CARET_NO_RESCAN: 'C01.CARET_NO_RESCAN',
}


def lex(s, cat, dev=0, static_letters=frozenset(), start_state=N, max_tokens=None):
    """With max_tokens: stop as soon as that many tokens have been produced and return
    (tokens, rest of the input, state) so that lexing can be resumed under another category table."""
    n = len(s)
    get = cat.get
    out = []
    state = start_state
    i = 0
    early = dev & D_IGNORED_EARLY

    def rd(i):
        """next character with ^^ reduction: (char, code, next index); char None at end of input"""
        nonlocal s, n
        while True:
            if i >= n:
                return None, None, n
            ch = s[i]
            code = get(ch, 12)
            i += 1
            # TeX re-examines the character produced by a ^^X reduction ("goto reswitch"): if it is again a
            # superscript character followed by an identical one, a further reduction takes place
            while code == 7 and i < n and s[i] == ch:
                if i + 1 < n:
                    c = ord(s[i + 1])
                    if c < 128 or (dev & D_CARET_NONASCII):
                        ch = chr(c - 64 if c >= 64 else c + 64)
                        code = get(ch, 12)
                        i += 2
                        if dev & D_CARET_NO_RESCAN:
                            break
                        continue
                elif dev & D_CARET_EOF:
                    raise TypeError('^^ at end of input')
                break
            if early and (code == 9 or code == 15):
                continue
            return ch, code, i

    def skipline(i):
        j = s.find('\n', i)
        return n if j < 0 else j + 1

    try:
        while True:
            if max_tokens is not None and len(out) >= max_tokens:
                return out, s[i:], state
            ch, code, i = rd(i)
            if ch is None:
                break
            if code == 11 or code == 12:
                out.append((code, ch))
                state = M
            elif code == 10:
                if state == M:
                    out.append((10, ' '))
                    state = S
            elif code == 5:
                if state == N:
                    out.append((0, 'par'))
                elif state == M:
                    out.append((10, ' '))
                # S: nothing
                if ch != '\n':
                    if not (dev & D_EOL_DISCARD) or state == N:
                        i = skipline(i)
                state = N
            elif code == 0:
                ch2, code2, j = rd(i)
                if ch2 is None:
                    out.append((0, ''))
                    i = j
                    state = M
                elif code2 == 11:
                    word = [ch2]
                    i = j
                    while True:
                        ch3, code3, j = rd(i)
                        if ch3 is None or code3 != 11:
                            if (dev & D_CARET_NO_RESCAN) and ch3 is not None and j - i > 1:
                                # plasTeX pushes the *decoded* character back and reads it again
                                s = s[:i] + ch3 + s[j:]
                                n = len(s)
                            break           # not consumed: re-read from i
                        word.append(ch3)
                        i = j
                    out.append((0, ''.join(word)))
                    state = S
                    if dev & D_STATIC_LETTERS:
                        state = S if word[-1] in static_letters else M
                elif code2 == 5 and (dev & D_ESC_EOL_SPACE):
                    out.append((10, ' '))
                    i = j
                    state = S
                else:
                    out.append((0, ch2))
                    i = j
                    if code2 == 10:
                        state = M if (dev & D_CTRL_SPACE_M) else S
                    else:
                        state = M
                    if dev & D_STATIC_LETTERS:
                        if ch2 in static_letters:
                            state = S
                        elif code2 != 10:
                            state = M
            elif code == 14:
                i = skipline(i)
                state = N
            elif code == 9 or code == 15:
                pass
            elif code == 13:
                out.append((13, ch))
                state = M
            else:
                out.append((code, ch))
                state = M
    except TypeError:
        return 'raises:TypeError'
    if max_tokens is not None:
        return out, '', state
    return out


def collapse_par(toks):
    """\\par\\par == \\par (plasTeX collapses adjacent paragraph tokens on purpose)."""
    if isinstance(toks, str):
        return toks
    out = []
    for t in toks:
        if t == (0, 'par') and out and out[-1] == (0, 'par'):
            continue
        out.append(t)
    return out
