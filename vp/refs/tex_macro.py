"""
Reference macro expander: TeXbook chapter 20 on token lists.

Tokens: ('ch', c) character | ('cs', name) control sequence | ('{',) | ('}',) | ('#',) parameter character.
The generator of C02 builds programs directly as such token lists (nothing is parsed from text), prints them
for plasTeX, and runs them through Expander.run(), which returns the visible characters.

Supported primitives (the alphabet of C02): \\def \\gdef \\newcommand \\renewcommand \\let \\csname..\\endcsname
\\expandafter \\begingroup \\endgroup \\relax, brace groups.  \\newcommand defines globally (only emitted at top level).
"""


class RefError(Exception):
    pass


class IllFormed(RefError):
    """the program is not valid TeX (e.g. a macro's argument would be a closing brace)"""


CH, CS, BG, EG, PC = 'ch', 'cs', '{', '}', '#'


def pr(tokens):
    """Print a token list as TeX source (a control word followed by a letter gets a space)."""
    out = []
    for i, t in enumerate(tokens):
        k = t[0]
        if k == CH:
            out.append(t[1])
        elif k == CS:
            out.append('\\' + t[1])
            nxt = tokens[i + 1] if i + 1 < len(tokens) else None
            if t[1] and t[1][-1].isalpha() and nxt is not None and nxt[0] == CH and nxt[1].isalpha():
                out.append(' ')
        elif k == BG:
            out.append('{')
        elif k == EG:
            out.append('}')
        elif k == PC:
            out.append('#')
    return ''.join(out)


def toks(s):
    """Tiny constructor used by the *generator* (not an oracle for lexing): letters/digits/punctuation become
    characters, \\name control words, { } # themselves; no spaces allowed."""
    out = []
    i = 0
    while i < len(s):
        c = s[i]
        if c == '\\':
            j = i + 1
            while j < len(s) and s[j].isalpha():
                j += 1
            if j == i + 1:
                raise RefError('control symbols are not in the alphabet')
            out.append((CS, s[i + 1:j]))
            i = j
            if i < len(s) and s[i] == ' ':
                i += 1
            continue
        if c == '{':
            out.append((BG,))
        elif c == '}':
            out.append((EG,))
        elif c == '#':
            out.append((PC,))
        elif c == ' ':
            raise RefError('no spaces in generated programs')
        else:
            out.append((CH, c))
        i += 1
    return out


class Macro(object):
    __slots__ = ('ptext', 'body', 'opt')

    def __init__(self, ptext, body, opt=None):
        self.ptext = ptext      # list of tokens with ('par', n) items
        self.body = body        # list of tokens with ('par', n) items and ('#',) for ##
        self.opt = opt          # \newcommand default for #1 (token list) or None


class CharAlias(object):
    __slots__ = ('ch',)

    def __init__(self, ch):
        self.ch = ch


def parse_params(raw):
    """'#' digit -> ('par', n); '#' '#' -> ('#',) ; other tokens unchanged."""
    out = []
    i = 0
    while i < len(raw):
        t = raw[i]
        if t[0] == PC and i + 1 < len(raw):
            n = raw[i + 1]
            if n[0] == CH and n[1].isdigit():
                out.append(('par', int(n[1])))
                i += 2
                continue
            if n[0] == PC:
                out.append((PC,))
                i += 2
                continue
        out.append(t)
        i += 1
    return out


class Expander(object):
    def __init__(self, max_steps=20000, charalias_silent=False):
        self.charalias_silent = charalias_silent    # deviation C02.LET_CHAR_PRETOKENIZED
        self.frames = [{}]
        self.inp = []           # stack: last element is the next token
        self.out = []
        self.steps = 0
        self.max_steps = max_steps
        self.hidden_delimiter = False

    # -- environment -----------------------------------------------------
    def lookup(self, name):
        for f in reversed(self.frames):
            if name in f:
                return f[name]
        return None

    def define(self, name, meaning, glob=False):
        (self.frames[0] if glob else self.frames[-1])[name] = meaning
        if glob:
            # a global definition overrides local ones of enclosing groups (TeX: all levels)
            for f in self.frames[1:]:
                f.pop(name, None)

    # -- input -----------------------------------------------------------
    def push(self, tokens):
        self.inp.extend(reversed(tokens))

    def next(self):
        if not self.inp:
            raise RefError('unexpected end of input')
        return self.inp.pop()

    def peek(self):
        return self.inp[-1] if self.inp else None

    def balanced(self):
        """After a '{' has been read: tokens up to the matching '}' (exclusive)."""
        depth = 1
        grp = []
        while True:
            t = self.next()
            if t[0] == BG:
                depth += 1
            elif t[0] == EG:
                depth -= 1
                if depth == 0:
                    return grp
            grp.append(t)

    def undelimited(self):
        t = self.next()
        if t[0] == BG:
            return self.balanced()
        if t[0] == EG:
            raise IllFormed('argument is }')
        return [t]

    def delimited(self, delim, keep_brace=False):
        arg = []
        n = len(delim) if delim else 0
        while True:
            if keep_brace:                      # #{ : the brace is the delimiter (the replacement text re-inserts it)
                t = self.peek()
                if t is not None and t[0] == BG:
                    self.next()
                    break
            t = self.next()
            if t[0] == BG:
                arg.append(t)
                grp = self.balanced()
                if n and any(grp[i:i + n] == delim for i in range(len(grp))):
                    self.hidden_delimiter = True    # outside the normal form of C02
                arg.extend(grp)
                arg.append((EG,))
                continue
            arg.append(t)
            if not keep_brace and len(arg) >= n and arg[-n:] == delim:
                # the delimiter must not lie inside a group: groups were copied atomically above, and a match
                # that ends in '}' is impossible because delimiters hold no braces
                del arg[-n:]
                break
        # strip one level of braces when the argument is a single group
        if len(arg) >= 2 and arg[0][0] == BG and arg[-1][0] == EG:
            depth = 0
            single = True
            for i, t in enumerate(arg):
                if t[0] == BG:
                    depth += 1
                elif t[0] == EG:
                    depth -= 1
                    if depth == 0 and i != len(arg) - 1:
                        single = False
                        break
            if single:
                arg = arg[1:-1]
        return arg

    # -- macro call ------------------------------------------------------
    def call(self, m):
        args = {}
        pt = m.ptext
        i = 0
        if m.opt is not None:
            # LaTeX \newcommand with optional first argument
            t = self.peek()
            if t == (CH, '['):
                self.next()
                args[1] = self.delimited([(CH, ']')])
            else:
                args[1] = list(m.opt)
            pt = [p for p in pt if p != ('par', 1)]
        while i < len(pt):
            p = pt[i]
            if p[0] == 'par':
                j = i + 1
                delim = []
                while j < len(pt) and pt[j][0] != 'par':
                    delim.append(pt[j])
                    j += 1
                if not delim:
                    args[p[1]] = self.undelimited()
                elif delim == [(BG,)]:
                    args[p[1]] = self.delimited(None, keep_brace=True)
                else:
                    args[p[1]] = self.delimited(delim)
                i = j
            else:
                t = self.next()
                if t != p:
                    raise RefError('use of macro does not match its definition')
                i += 1
        res = []
        for t in m.body:
            if t[0] == 'par':
                res.extend(args[t[1]])
            else:
                res.append(t)
        return res

    # -- one expansion step of a control sequence -------------------------
    def expand_cs(self, name):
        """Returns the replacement tokens of an expandable cs, or None if it is not expandable."""
        if name == 'csname':
            chars = []
            while True:
                t = self.next()
                if t[0] == CS:
                    if t[1] == 'endcsname':
                        break
                    r = self.expand_cs(t[1])
                    if r is None:
                        raise RefError('unexpandable token in \\csname')
                    self.push(r)
                    continue
                if t[0] != CH:
                    raise RefError('non-character in \\csname')
                chars.append(t[1])
            return [(CS, ''.join(chars))]
        if name == 'expandafter':
            t1 = self.next()
            t2 = self.next()
            if t2[0] == CS:
                r = self.expand_cs(t2[1])
                if r is None:
                    r = [t2]
            else:
                r = [t2]
            return [t1] + r
        m = self.lookup(name)
        if isinstance(m, Macro):
            return self.call(m)
        return None

    # -- main loop -------------------------------------------------------
    def read_cs_name(self):
        t = self.next()
        if t[0] == BG:                         # \newcommand{\name}
            t = self.next()
            if self.next()[0] != EG:
                raise RefError('bad name group')
        if t[0] != CS:
            # e.g. \expandafter\def\csname x\endcsname was already turned into a cs
            raise RefError('expected a control sequence')
        return t[1]

    def run(self, tokens):
        self.push(tokens)
        while self.inp:
            self.steps += 1
            if self.steps > self.max_steps:
                raise RefError('too many steps (recursion?)')
            t = self.next()
            k = t[0]
            if k == CH:
                self.out.append(t[1])
            elif k == BG:
                self.frames.append({})
            elif k == EG:
                if len(self.frames) == 1:
                    raise RefError('unbalanced }')
                self.frames.pop()
            elif k == PC:
                raise RefError('parameter character in text')
            else:
                self.command(t[1])
        if len(self.frames) != 1:
            raise RefError('unbalanced groups at end')
        return ''.join(self.out)

    def command(self, name):
        if name in ('def', 'gdef'):
            cs = self.read_cs_name()
            raw = []
            while True:
                t = self.next()
                if t[0] == BG:
                    break
                raw.append(t)
            body = self.balanced()
            hashbrace = bool(raw) and raw[-1][0] == PC
            if hashbrace:
                raw = raw[:-1] + [(BG,)]       # '#{' : the brace delimits the last parameter ...
            ptext = parse_params(raw)
            bodyp = parse_params(body)
            if hashbrace:
                bodyp = bodyp + [(BG,)]        # ... and is appended to the replacement text
            self.define(cs, Macro(ptext, bodyp), glob=(name == 'gdef'))
        elif name in ('newcommand', 'renewcommand'):
            cs = self.read_cs_name()
            nargs = 0
            opt = None
            if self.peek() == (CH, '['):
                self.next()
                d = self.delimited([(CH, ']')])
                nargs = int(''.join(x[1] for x in d))
                if self.peek() == (CH, '['):
                    self.next()
                    opt = self.delimited([(CH, ']')])
            if self.next()[0] != BG:
                raise RefError('body expected')
            body = self.balanced()
            ptext = [('par', i + 1) for i in range(nargs)]
            self.define(cs, Macro(ptext, parse_params(body), opt), glob=True)
        elif name == 'let':
            cs = self.read_cs_name()
            if self.peek() == (CH, '='):
                self.next()
            t = self.next()
            if t[0] == CS:
                self.define(cs, self.lookup(t[1]))
            elif t[0] == CH:
                self.define(cs, CharAlias(t[1]))
            else:
                raise RefError('let to a brace is outside the alphabet')
        elif name == 'begingroup':
            self.frames.append({})
        elif name == 'endgroup':
            self.frames.pop()
        elif name == 'relax':
            pass
        else:
            r = self.expand_cs(name)
            if r is not None:
                self.push(r)
                return
            m = self.lookup(name)
            if isinstance(m, CharAlias):
                if not self.charalias_silent:
                    self.out.append(m.ch)
            elif m is None:
                raise RefError('undefined control sequence \\%s' % name)
            else:
                raise RefError('cannot execute \\%s' % name)


class OutsideNormalForm(Exception):
    pass


def evaluate(tokens):
    """-> visible text; raises RefError (generator bug) or OutsideNormalForm (delimiter hidden in braces)."""
    e = Expander()
    text = e.run(list(tokens))
    if e.hidden_delimiter:
        raise OutsideNormalForm('a delimiter occurs inside a brace group of a delimited argument')
    return text
