"""Single source of truth for MANIFEST.json (tools/mkmanifest.py)."""

ENGINES = [
    {'name': 'E1-grammar-enumeration', 'path': 'vp/core.py', 'kind_free_text':
     'stateless bounded-exhaustive enumeration of inputs/programs of a grammar, run on the real code, judged by an AST-level oracle; fork pool over disjoint blocks',
     'serves_properties': []},
    {'name': 'E2-explicit-state-search', 'path': 'vp/core.py', 'kind_free_text':
     'breadth-first explicit-state search; a state is the event history reaching it, replayed on fresh real objects and stepped in lock-step with a plain-Python reference model; canonical-key deduplication',
     'serves_properties': []},
    {'name': 'E3-fault-enumeration', 'path': 'vp/core.py', 'kind_free_text':
     'every byte prefix / bit flip / foreign file of a saved history, plus E2 over save/corrupt/restore sequences',
     'serves_properties': []},
]

NOTES = ('All checks run the real plasTeX code from $VP_REPO (default /repo) imported fresh (private pycache); '
         'VERIF_SEED only rotates enumeration order. known_findings.json lists open findings; see DESIGN.md.')

CHECKS = []
NOT_APPLICABLE = []


def check(id, engine, level, technique, text, note, design_ref):
    CHECKS.append(dict(id=id, engine=engine, level=level, technique=technique, text=text, note=note,
                       design_ref=design_ref))
    for e in ENGINES:
        if e['name'].startswith(engine):
            e['serves_properties'].append(id)


check('C01', 'E1', 'exploration',
      'bounded exhaustive enumeration of input strings x category tables against a reference lexer',
      'Every string up to length 5 (quick) / 6-7 (thorough) over a class-representative alphabet, under six category '
      'tables installed through the real Context.catcode API, is tokenized by the real Tokenizer and compared '
      'token-for-token with a TeXbook-chapter-8 reference automaton; also through TeX.itertokens for short strings. '
      'This is a coverage statement over the whole small scope, which is where lexer state-machine bugs live.',
      'Trusted: the hand-written reference lexer (vp/refs/tex_lexer.py) and the stated conventions (newline = end of line, '
      'no line pre-pass, \\par runs collapsed). Four documented deviations are open findings.',
      'DESIGN.md 2/C01')

check('C03', 'E1', 'exploration',
      'bounded exhaustive enumeration of conditional trees, oracle = AST evaluation',
      'Every conditional tree of depth <= 2 (quick; thorough adds depth 3 over a representative sub-menu in four placements) over 36 boolean tests and \\ifcase with 1-3 \\or arms and every '
      'selector from -1 to k+2, with/without \\else, a nested conditional in every taken or untaken branch position, in four '
      'placements (top level, group, macro body, macro argument), is parsed by the real engine; expected marker text, a '
      'bit-mask counter of executed branches and the final \\newif state come from evaluating the tree. Untaken branches are '
      'therefore checked for text AND side effects on every tree of the scope.',
      'Trusted: the AST evaluator in vp/checks/c03.py (TeX truth values of the chosen operands are fixed at generation time); '
      'normal form of DESIGN.md (\\relax-terminated literals).',
      'DESIGN.md 2/C03')

check('C02', 'E1', 'exploration',
      'bounded exhaustive enumeration of macro programs (token-list ASTs) against a reference TeX macro expander',
      'Every program of the families (old definition; wrapper(new definition; uses); uses after) over 7 definers x 11 '
      'parameter texts x 6 body templates x all combinations of actual-argument shapes x direct/\\csname call x 3 (quick) / 5 '
      '(thorough) wrappers, two- and three-level call chains and \\let snapshots taken before/after a redefinition is run '
      'through plasTeX and through an independent token-list implementation of TeXbook ch.20; the visible text must agree. '
      'Scoping of \\def/\\gdef across the wrapper is part of the observation (use after the wrapper).',
      'Trusted: vp/refs/tex_macro.py (about 300 lines, no parsing: the generator builds token lists) and the normal form '
      '(no delimiter hidden in braces, no spaces, \\newcommand at top level only). One open finding (\\let to a character in '
      'pre-tokenized text).',
      'DESIGN.md 2/C02')

check('C04', 'E2', 'model_checking',
      'explicit-state BFS over Context API histories in lock-step with a scope-stack model, plus exhaustive nesting programs',
      '(a) Breadth-first search over all histories (depth 5 quick / 6 thorough) of push / push(environment) / pop / pop(environment) / '
      'pop(end token) / local and global newdef / let / character let / catcode / setVerbatimCatcodes / switch setter issued on a '
      'real Context; after every history every frame (local names, lets, category table and its sharing with other frames) and '
      'every public lookup is compared with a textbook lexical-scope stack; badly nested pops are explored one step and must '
      'close to depth 1 with only global state left. (b) All nestings (depth 3 / 4) of {}, begingroup, center, $ $, \\textbf{}, '
      'tabular cell, itemize item with local/global definitions, \\let, \\catcode/\\makeatletter and switch setters at each level, '
      'probed after every open and close.',
      'Trusted: the scope-stack model in vp/checks/c04.py. Model and implementation are never checked apart: every state is a '
      'history replayed on fresh real objects (traces_validated_against_impl = all).',
      'DESIGN.md 2/C04')

check('C05', 'E1', 'exploration',
      'bounded exhaustive enumeration of macro signatures x conforming calls and of numeric literals x next tokens',
      '(a) Every signature with an optional star and 1..2 (quick) / 1..3 (thorough) arguments over 38 (delimiter, type) kinds '
      '(4..6 arguments over 4 kinds) is compiled by the real Macro.arguments and invoked with every combination of value '
      'spellings (nested groups and brackets, a bracket hidden in braces, leading blanks), optional arguments present/absent and '
      'star present/absent; bound values, None for absent optionals, argSource, the untouched tail and the balanced '
      'ParameterCommand enable counter are checked. (b) Every literal of the integer / dimension / glue grammars (sign runs, '
      'radix forms, character codes, registers, 9 absolute units, true, fil orders, register multiples) followed by each of five '
      'next tokens is scanned by the real readInteger/readDimen/readGlue and compared with exact rational values and the '
      'expected rest of the input.',
      'Trusted: expected values written next to each spelling in vp/checks/c05.py; dimensions compared with exact rationals '
      'within 1 sp; ex/em excluded (font dependent).',
      'DESIGN.md 2/C05')

check('C07', 'E1', 'exploration',
      'bounded exhaustive enumeration of documents with unique marker words per text leaf; depth-first order oracle',
      'For every container context (body, section body, list item, quote, table cell, footnote, title, font argument) every '
      'sequence of <= 3 (quick; <= 4 on small menus in thorough) of 28 constructs and every chain of <= 3/4 nested containers '
      'with a 2-sequence at the bottom is parsed; the depth-first walk (arguments, then children) must yield exactly the marker '
      'words of the source in source order (loss, duplication and reordering are each visible), every node is reached once, '
      'parent chains lead through the actual containers, sectioning units contain only paragraphs and strictly deeper units, '
      'no paragraph sits in a paragraph, and dash/quote substitutions occur in text but not in verbatim/\\verb/math.',
      'Trusted: the generator (marker order is read off the generated source with a regex) and the stated charsub expectation. '
      'One open finding (paragraph-less environments are never normalized).',
      'DESIGN.md 2/C07')

check('C08', 'E2', 'model_checking',
      'exhaustive value sweep of the representations + explicit-state BFS over numbering histories against a LaTeX counter model',
      '(a) Every value 1..4999 (1..26 for alph/Alph) of arabic/roman/Roman/alph/Alph on Counter objects and through the parser, '
      'against an independent subtractive-notation generator. (b) Breadth-first search (depth 4 quick / 6 thorough) over histories '
      'of 18 numbering events in article and book with sec-num-depth default/0/3; every history is printed as a document and '
      'parsed from scratch; the printed number of every numbered node in document order and the final counter values must equal '
      'those of a LaTeX counter model (transitive reset on stepping only, class formats, numbering depth, appendix).',
      'Trusted: the counter model in vp/checks/c08.py (article.cls/book.cls rules). Normal form: \\appendix is followed by its '
      'first unit; theorems numbered within a unit that is below the numbering depth are excluded.',
      'DESIGN.md 2/C08')

check('C16', 'E1', 'exploration',
      'bounded exhaustive enumeration of option x value x layering of files and command line against a precedence-fold model',
      'For every option of every section (59 real + a synthetic renderer section) and a per-type value menu, all layerings in '
      'which each of three configuration files and the command line independently omits or sets the option, all file shapes '
      '(missing, empty, unknown section/key), all pairs of options and all interpolation pairs/chains are written to scratch '
      'files and run through the real plasTeX.client.main (only Compile.run replaced); the read-back of all options is compared '
      'with a model that folds defaults < files in order < command line with per-type conversion and %(name)s / %% '
      'interpolation.',
      'Trusted: vp/refs/c16_config_model.py (pinned option table, no plasTeX import). Two open findings (dictionary keys '
      'lower-cased in files; six stale documented defaults).',
      'DESIGN.md 2/C16')

check('C09', 'E2', 'model_checking',
      'explicit-state BFS over Context.label/ref histories against a label-table model, plus exhaustive label/reference placements in documents',
      '(a) Breadth-first search (depth 4 quick / 6 thorough) over histories of ref(object, key, label), label(label, node), '
      'label(label) with and without a current labelled object, with blank and padded labels, on a real Context with real Macro '
      'nodes; after every event the label table, every idref entry (resolved node or placeholder carrying the label as id), the '
      'pending list, node identifiers and persistentLabels are compared with the model. (b) Every document with <= 2 (thorough 3) '
      'labelled objects of 10 kinds and <= 2 references (\\ref/\\pageref, to any label or a missing one) in every slot before, '
      'between, inside and after the objects: each reference must resolve to the object located structurally in the tree, carry '
      'its number, dangling ones must resolve to no document node, and nothing may stay pending.',
      'Trusted: the label-table model and the structural locator in vp/checks/c09.py; expected numbers assume article class '
      'without counter manipulation. Normal form: a label is defined once, a node carries one label.',
      'DESIGN.md 2/C09')

check('C14', 'E1', 'exploration',
      'bounded exhaustive enumeration of cross-referenced documents x split/toc/base-url/theme configurations; href/id inventory oracle',
      'Every heading sequence of <= 2 (quick) / 3 (thorough) units in which every unit is labelled and refers to every other one, '
      'in a plain variant and a full variant (labelled equation and enumerate item, footnote, index entries + \\printindex, '
      'bibliography + \\cite), is rendered for split levels -10,0,1,2,3 x toc-depth/toc-non-files x base-url empty/absolute x '
      'HTML5 default/minimal and XHTML; on the produced files every internal href must name a produced file and an existing '
      'id/name, ids must be unique per file, every \\ref must show its target number and every file must be reachable from '
      'index.html (themes with a contents navigation).',
      'Trusted: html.parser inventory of href/id/name; internal = path empty or *.html after stripping base-url. One open '
      'finding (navigation link to an index that has no file of its own).',
      'DESIGN.md 2/C14')

check('C12', 'E1', 'exploration',
      'bounded exhaustive enumeration of (position, payload, configuration); differential html.parser event-stream oracle',
      'For each of 14 text-bearing positions and 15 adversarial payloads (tags, end tags, script, entity-like strings including '
      'the image-size pattern, attribute breakout, CDATA end, comment start, non-ASCII, U+2028) the document is rendered with '
      'HTML5 default, HTML5 minimal and XHTML, with escape-high-chars off and on, and compared with the rendering of the same '
      'document carrying a benign marker word: identical element sequence and attribute names, every text node and attribute '
      'value equal after substituting marker -> displayed payload, pure ASCII bytes when escaping is on. Thorough adds every '
      'ordered pair of positions with two payloads.',
      'Trusted: html.parser; the displayed form of a payload is the typed characters after LaTeX dash substitution; attribute '
      'values compared modulo white-space runs.',
      'DESIGN.md 2/C12')

check('C20', 'E3', 'fault_enumeration',
      'exhaustive fault enumeration (every byte prefix, every 1-bit flip, windowed 2-bit flips, foreign files) + BFS over save/corrupt/restore histories',
      'Label sets of seven really rendered documents (HTML5 and XHTML) are saved through the real call sites; round trips and '
      'cross-document references are checked; then for every saved file EVERY byte prefix, EVERY single-bit flip, all 2-bit flips '
      'in stated windows and 25 foreign files are restored and re-saved in forked workers under an address-space limit and '
      'alarm: restore and persist must not raise, must leave later restores intact, and the re-saved file must load to the '
      'complete current label set; a BFS (depth 5 / 7) over persist/restore/truncate/flip/replace/delete histories on one file '
      'with two renderer keys runs in lock-step with a model.',
      'Trusted: vp/refs/c20_model.py (abstract file content ABSENT/GARBAGE/DATA, no plasTeX import) and the reference unpickler.',
      'DESIGN.md 2/C20')

check('C17', 'E2', 'model_checking',
      'explicit-state search over histories of documents, one freshly forked interpreter per history; snapshot invariant + differential oracle',
      'Events are 27 documents that touch interpreter-wide state (register assignments, \\setlength, article/report/book, ifthen, '
      '\\newcolumntype, input ending inside math / \\mbox{$ / lists / verbatim / a group, \\openout, \\newif, \\appendix, index, '
      'bibliography, babel, redefinitions, catcodes) and all carry an observer block. Every ordered pair A;B (including B;B) is '
      'run exhaustively, then histories are extended from every distinct leaked state to depth 3 (quick) / 4 (thorough; thorough also runs every ordered triple). After '
      'every completed document a generic snapshot of all class attributes of all Macro subclasses (and of Context, TeX, TeXDocument), of the module-level containers of the plasTeX modules and of the TEX* environment variables must equal the pristine one, '
      'and the canonical tree (for three documents also the rendered HTML5 files) of the last document must equal that of the '
      'same document processed alone in a fresh interpreter.',
      'Trusted: vp/state.py snapshot (module-level Macro subclasses); differences are attributed to the one open finding '
      '(register values live on classes) only when every leaked attribute is a register value and the difference disappears '
      'when the snapshot is restored before the last document.',
      'DESIGN.md 2/C17')

check('C18', 'E1', 'exploration',
      'bounded exhaustive enumeration of index entry sequences against a reference index builder',
      'Every sequence with repetition of <= 2 (all splits) / 3 (quick), up to 5 (thorough, reduced menu) entries from a menu of '
      '20 entry ASTs (levels, sort@display keys on either level, |see, |seealso, |format, quoted specials, accents, digits, '
      'symbols, ligatures) is printed into a two-section article with \\printindex or a theindex environment and parsed; the '
      'entry count, the section of every \\index node, the complete index tree (sort key, display, markup, per page: node rank, '
      'see/seealso/normal, format, ordinal) and the letter groups with their column split for index-columns 1..4 are compared '
      'with an independent reference builder using UCA collation (pyuca).',
      'Trusted: vp/refs/index_model.py and pyuca\'s UCA keys; the relative order of adjacent siblings with equal collation keys '
      'is not judged.',
      'DESIGN.md 2/C18')

check('C06', 'E2', 'model_checking',
      'explicit-state BFS over DOM edit histories on small node pools in lock-step with a list-of-lists model',
      'Level-synchronous breadth-first search over histories of append / insert (0, mid, len, len+1, -1) / insertBefore / '
      'insertAfter / replaceChild / removeChild / pop / item and slice assignment / extend / += / fragment insertion / '
      'normalize / cloneNode(shallow, deep) / setAttribute with a fragment, in six scenarios (plain lists depth 4/6, fragments '
      '4/5, clone pools 3-4/4-5, an element whose child list is its "self" attribute 3/4, the full design pool 2/3); every '
      'transition rebuilds fresh plasTeX.DOM objects; judged per transition: result or exception, child lists, attribute maps, '
      'parentNode of every listed node, ownerDocument; per distinct state: first/lastChild, sibling navigation, textContent, '
      'getElementsByTagName, allChildNodes, compareDocumentPosition on all ordered pairs, normalize idempotence, deep clones '
      'equal and disjoint. Dedup key = model dump + implementation pointer dump including stale parents.',
      'Trusted: vp/refs/dom_tree_c06.py (plain lists/dicts). Four open findings are modelled as named deviation switches '
      '(shallow clone sharing, stale parentNode of detached nodes, fragment re-parenting, self-fragment parent links).',
      'DESIGN.md 2/C06')

check('C15', 'E2', 'model_checking',
      'explicit-state BFS over request histories per template configuration against a model written from the statement',
      'For 42 template ASTs (0-3 static names, 0-4 wildcard alternatives over $id, $title, $title(2), sect$num, sect$num(3), '
      '$id-$num, ${jobname}_$id, explicit extensions) x 3 forbidden-character sets x 2 reserved-name sets, breadth-first search '
      'over all histories (depth 6 quick / 12 thorough) of requests binding id in {unbound,a,b,"a b:c","a.b"} and title in '
      '{unbound,T,"T U V",a,""}; every history is replayed on a fresh Filenames object in lock-step with the model (static '
      'names first and in order, first fully bound fresh alternative, $num advancing only on issued/skipped numbered '
      'candidates, padding, word limit, character replacement, extension rule, error instead of duplicate or endless loop); '
      'plus all templates in two alternative spellings and 120-request histories for the give-up bound.',
      'Trusted: vp/refs/c15_filenames_model.py (about 150 lines, no plasTeX import). One open finding (generator dead after '
      'its first error).',
      'DESIGN.md 2/C15')

check('C13', 'E1', 'exploration',
      'bounded exhaustive enumeration of sectioning forests x split levels x filename templates x themes; file-ownership partition oracle',
      'Every sequence of <= 3 headings (thorough: every template/theme/variant for <= 3, plus every 4-heading sequence in the plain default configuration) over the class levels (arbitrary level jumps; also the three levels below subsubsection), each unit with a '
      'unique body marker, in a plain variant and a variant with a footnote, a label and colliding titles full of forbidden '
      'characters, is rendered for EVERY split level -10..6 x six filename templates (default, id/title alternatives, numbered, '
      'two single-file forms, a static list that runs out) x forbidden-character sets and substitutes x HTML5 default/minimal, XHTML and the Text renderer (also after toXML(), as second document of one renderer / configuration object); the '
      'body markers must be partitioned over the files exactly as the ownership model predicts (a unit owns a file iff its '
      'level <= split level), each exactly once, in document order, footnote text after the body text of its file; file names '
      'must be free of forbidden characters and identical when the same input is rendered again in a fresh process.',
      'Trusted: the ownership model (nearest heading at or above with level <= split level) and unique marker words.',
      'DESIGN.md 2/C13')

check('C11', 'E1', 'exploration',
      'bounded exhaustive enumeration of verbatim bodies x delimiters and of formula trees x math contexts; identity / token-stream oracle',
      '(a) Every verbatim body of length <= 4 (quick; 5 thorough) over the 16+4 symbol alphabet of the design (specials, blanks, '
      'newline, ligature triggers, partial end markers, ^^M), plus length 5 (6) over a reduced alphabet, for verbatim, verbatim*, '
      '\\verb|..| and \\verb*|..|, and every other printable non-letter delimiter with short bodies: textContent must equal the '
      'body exactly, the text after the construct must be processed normally (ligatures, comments, context depth), \\verb source '
      'must reproduce the input. (b) Every formula tree of depth <= 3 (quick; 4 thorough) over 9 leaves, 9 unary and 6 binary '
      'operators in $ $, \\( \\), \\[ \\], equation, $$ $$ and inside \\textbf{..}: node.source and mathjax_source, re-tokenized with '
      'the reference lexer and blanks dropped, must equal the printed formula with user macros expanded.',
      'Trusted: vp/refs/tex_lexer.py for re-tokenizing; the printer of the formula grammar. Two open findings (character '
      'substitutions inside math groups/cells; trailing array rule lost from the source).',
      'DESIGN.md 2/C11')

check('C19', 'E1', 'exploration',
      'bounded exhaustive enumeration of boolean expression trees and loops; AST fold as oracle',
      'Every atom alone and under \\not (1705 atoms: integer comparisons over 12 operands, \\lengthtest over 20 operands in mixed '
      'units, \\equal, \\isodd, \\isundefined, \\boolean); every expression tree of depth <= 3 (quick; <= 4 thorough) over '
      '\\and/\\or/\\not/\\( \\) with every \\not placement and redundant parentheses, upper/lower-case operator spellings and blank '
      'styles, nested \\ifthenelse in both branches, and \\whiledo with bounds 0..6 over compound tests; observed: the branch '
      'marker text and a \\def side effect per branch; expected: fold of the tree with \\not tightest and \\and/\\or of equal '
      'precedence, left to right.',
      'Trusted: vp/refs/c19_model.py (enumerator, printer, fold, TeX scaled-point arithmetic for lengths); length pairs on which '
      'integer and exact arithmetic disagree are outside the alphabet.',
      'DESIGN.md 2/C19')

check('C10', 'E1', 'exploration',
      'bounded exhaustive enumeration of list trees and tabulars (column specs, spans, rules, cell contents); AST-shape oracle',
      'Lists: all labelled trees over itemize/enumerate/description of depth <= 3 (quick; 4 thorough) with <= 3 items per list and '
      'six item-content forms, plus all unlabelled shapes under 18 labellings. Tables: every preamble of 1-3 (5) columns x every '
      'bar subset x every spelling (@{} at every gap, *{k}{..} foldings); every span layout of n x r grids with <= 2 '
      '\\multicolumn x every \\hline subset x one or two aligned \\cline x preamble/multicolumn-spec pairs; cell-content grids over 13 '
      'kinds (empty, declarations, math, nested tabular/array/list, \\def leak probes); row terminators and wrappers. Observed on '
      'the parsed tree: items per list in order with their content and terms, rows/cells with spans and marker text, declared '
      'column count, horizontal and vertical rules as representation-independent sets, formatting ancestors per marker.',
      'Trusted: vp/refs/c10_shape.py (prints each AST and folds it into the expected shape in the same pass, no plasTeX import); '
      'only full rows with at least one non-empty cell and \\cline ranges made of whole cells are generated.',
      'DESIGN.md 2/C10')

_PENDING = {}
for _p, _why in _PENDING.items():
    NOT_APPLICABLE.append({'property_id': _p, 'reason': _why})
