"""
Shared rendering harness for C12/C13/C14 (and C17/C20): parse a LaTeX source with the real TeX engine and render it
with a real renderer into a scratch directory; return the produced files.
"""
import os, shutil, tempfile, importlib
from vp import core, state

RENDERERS = {'HTML5': ('plasTeX.Renderers.HTML5', '.html'), 'XHTML': ('plasTeX.Renderers.XHTML', '.html'),
             'Text': ('plasTeX.Renderers.Text', '.txt')}


class RenderError(Exception):
    pass


def render(src, renderer='HTML5', config=None, jobname='doc', limit=60.0, keep_doc=False, pre_render=None):
    """-> {'files': {relative name: text}, 'order': [names in creation order as cached by the renderer],
           'error': None | str}
    config: {(section, key): value} overrides."""
    from plasTeX.TeX import TeX
    from plasTeX.DOM import Node
    state.reset()
    cwd = os.getcwd()
    tmp = tempfile.mkdtemp(prefix='vp-render-')
    out = {'files': {}, 'order': [], 'error': None}
    modname, ext = RENDERERS[renderer]
    R = None
    try:
        os.chdir(tmp)
        with core.time_limit(limit):
            tex = TeX()
            doc = tex.ownerDocument
            doc.context.warnOnUnrecognized = False
            cfg = doc.config
            cfg['images']['imager'] = 'none'
            cfg['images']['vector-imager'] = 'none'
            cfg['general']['renderer'] = renderer
            cfg['general']['copy-theme-extras'] = False
            doc.userdata['jobname'] = jobname
            doc.userdata['working-dir'] = tmp
            for (sec, key), val in (config or {}).items():
                cfg[sec][key] = val
            tex.jobname = jobname
            tex.input(src)
            tex.parse()
            if pre_render:
                pre_render(doc)
            R = importlib.import_module(modname).Renderer()
            R.render(doc)
            out['order'] = [os.path.relpath(f, tmp) if os.path.isabs(f) else f for f in R.files.values()]
            enc = cfg['files']['output-encoding']
            for root, dirs, files in os.walk(tmp):
                for f in files:
                    p = os.path.join(root, f)
                    rel = os.path.relpath(p, tmp)
                    if f.endswith(ext):
                        with open(p, 'rb') as fh:
                            raw = fh.read()
                        out['files'][rel] = raw.decode(enc, 'replace')
                        out.setdefault('raw', {})[rel] = raw
                    else:
                        out.setdefault('other', []).append(rel)
            if keep_doc:
                out['doc'] = doc
    except core.Timeout:
        out['error'] = 'timeout'
    except Exception as e:
        import traceback
        out['error'] = 'raises %s: %s' % (type(e).__name__, str(e)[:200])
        out['traceback'] = traceback.format_exc()[-1500:]
    finally:
        # a failed render leaves the Renderable mixin on Node: remove it so the next case starts clean
        try:
            if hasattr(Node, 'renderer'):
                from plasTeX.Renderers import unmix, Renderable
                del Node.renderer
                unmix(Node, Renderable)
        except Exception:
            pass
        os.chdir(cwd)
        shutil.rmtree(tmp, ignore_errors=True)
    return out
