"""
Entry point:  python -m vp.run <ID> [--tier quick|thorough] [--replay FILE]

Each check module vp/checks/cNN.py provides
    ID, LEVEL, RULE, ASSUMPTIONS
    run(tier, seed, rep)      -- fills the Report by exhaustive exploration
    replay(case) -> dict      -- {'verdict': 'ok'|'known'|'violation', 'fid':..., 'expected':..., 'observed':..., 'detail':...}
"""
import os, sys, json, time, argparse, importlib, hashlib, subprocess

from vp import core


def _assert_tree():
    import plasTeX
    repo = os.path.realpath(core.VP_REPO)
    f = os.path.realpath(plasTeX.__file__)
    if not f.startswith(repo + os.sep):
        print('HARNESS ERROR: plasTeX imported from %s, not from VP_REPO=%s' % (f, repo))
        sys.exit(2)
    # keep the library quiet
    from plasTeX.Logging import disableLogging
    disableLogging()


def _head():
    try:
        return subprocess.run(['git', '-C', core.VP_REPO, 'rev-parse', 'HEAD'], capture_output=True,
                              text=True, timeout=10).stdout.strip()
    except Exception:
        return ''


def _replay_worker(arg):
    modname, case = arg
    mod = importlib.import_module(modname)
    # plain JSON types only: DOM Text objects are str subclasses that cannot cross the process boundary
    return core.jsonable(mod.replay(case))


def write_replay(pid, tier, cand):
    d = os.path.join(core.VP_HOME, 'replays')
    os.makedirs(d, exist_ok=True)
    blob = json.dumps(cand['case'], sort_keys=True)
    name = '%s-%s.json' % (pid, hashlib.sha1(blob.encode()).hexdigest()[:12])
    path = os.path.join(d, name)
    with open(path, 'w') as f:
        json.dump({'property': pid, 'tier': tier, 'repo_head': _head(), **cand}, f, indent=1, sort_keys=True)
    return path


def main(argv=None):
    ap = argparse.ArgumentParser()
    ap.add_argument('id')
    ap.add_argument('--tier', default=os.environ.get('VERIF_TIER', 'quick'), choices=['quick', 'thorough'])
    ap.add_argument('--replay')
    ap.add_argument('--no-evidence', action='store_true')
    args = ap.parse_args(argv)
    pid = args.id.upper()
    seed = int(os.environ.get('VERIF_SEED', '0') or 0)
    _assert_tree()
    modname = 'vp.checks.%s' % pid.lower()
    mod = importlib.import_module(modname)
    findings = core.Findings()

    # ---- replay mode ---------------------------------------------------
    if args.replay:
        with open(args.replay) as f:
            rec = json.load(f)
        if rec.get('_task'):
            # history-dependent violation: re-run the task (block of cases) it was observed in, from a cold start
            if rec['_task'].get('earlier_tasks'):
                st, res = core.run_isolated(core.replay_worker_history,
                                            (rec['_task']['earlier_tasks'], rec['_task'], rec['case']), timeout=6000)
            else:
                st, res = core.run_isolated(core.replay_task, (rec['_task'], rec['case']), timeout=3000)
            if st == 'ok':
                res = dict(res, verdict='violation') if res else {'verdict': 'ok', 'detail': 'case not reported by the task'}
        else:
            st, res = core.run_isolated(_replay_worker, (modname, rec['case']), timeout=600)
        if st != 'ok':
            print('REPLAY harness problem: %s %s' % (st, res))
            return 2
        print(json.dumps(core.jsonable(res), indent=1)[:4000])
        if res['verdict'] == 'violation' or (res['verdict'] == 'known' and not findings.is_open(res.get('fid'))):
            print('VIOLATION property=%s replay=%s' % (pid, os.path.abspath(args.replay)))
            return 1
        if res['verdict'] == 'known':
            print('KNOWN-FINDING: property=%s %s' % (pid, findings.summary(res['fid'])))
        return 0

    # ---- exploration ---------------------------------------------------
    t0 = time.time()
    rep = core.Report()
    extra = mod.run(args.tier, seed, rep) or {}
    rep.close_block()
    wall = time.time() - t0

    # known findings: only ids that are listed as open count as known
    cands = list(rep.violations)
    known_lines = []
    for fid, (n, ex) in sorted(rep.known.items()):
        if findings.is_open(fid):
            known_lines.append((fid, n))
        else:
            rep.nviolations += n
            cands.append({'case': ex['case'], 'expected': None, 'observed': None,
                          'detail': 'deviation %s observed but not listed as an open finding: %s' % (fid, ex['detail'])})

    # replay-before-report: confirm candidates in fresh processes, twice
    confirmed = []
    cands.sort(key=lambda v: len(json.dumps(v['case'])))
    for cand in cands[:8]:
        if len(confirmed) >= 3:
            break
        r1 = core.run_isolated(_replay_worker, (modname, cand['case']), timeout=600)
        r2 = core.run_isolated(_replay_worker, (modname, cand['case']), timeout=600)
        if r1[0] != 'ok' or r2[0] != 'ok':
            rep.error('replay of a candidate failed in isolation: %s / %s' % (r1, r2))
            continue
        a, b = r1[1], r2[1]
        if core.jsonable(a) != core.jsonable(b):
            rep.error('non-deterministic replay for case %s' % json.dumps(cand['case'])[:300])
            continue
        bad = a['verdict'] == 'violation' or (a['verdict'] == 'known' and not findings.is_open(a.get('fid')))
        if not bad:
            # The case alone is fine.  If re-running the task it was observed in (same cases in the same order, cold
            # start, fresh process) reports it again -- twice -- the code under test answers this case differently
            # depending on what it processed before: a violation with the task as its replay.  Otherwise the
            # observation came from the harness: error, never an alarm.
            t1 = t2 = None
            if cand.get('_task'):
                t1 = core.run_isolated(core.replay_task, (cand['_task'], cand['case']), timeout=3000)
                if t1[0] == 'ok' and t1[1]:
                    t2 = core.run_isolated(core.replay_task, (cand['_task'], cand['case']), timeout=3000)
            how = 'the earlier cases of its task'
            if not (t2 and t2[0] == 'ok' and t2[1]) and cand.get('_task', {}).get('history'):
                # not even the task alone: replay everything the same worker had run before it, in order
                earlier = core.history_items(cand['_task'])
                arg = (earlier, cand['_task'], cand['case'])
                t1 = core.run_isolated(core.replay_worker_history, arg, timeout=6000)
                t2 = None
                if t1[0] == 'ok' and t1[1]:
                    t2 = core.run_isolated(core.replay_worker_history, arg, timeout=6000)
                if t2 and t2[0] == 'ok' and t2[1]:
                    cand['_task'] = dict(cand['_task'], earlier_tasks=earlier)
                    how = 'the %d earlier tasks of the same worker process and the earlier cases of its task' % len(earlier)
            if t2 and t2[0] == 'ok' and t2[1] and core.jsonable(t1[1]) == core.jsonable(t2[1]):
                cand = dict(t1[1], _task=cand['_task'])
                cand['detail'] = ('HISTORY-DEPENDENT: correct when processed alone in a fresh interpreter, wrong after %s '
                                  '(%s %s) | %s' % (how, cand['_task']['fn'], cand['_task']['arg_repr'][:160],
                                                    cand.get('detail') or ''))
                confirmed.append(cand)
                continue
            rep.error('candidate violation did not reproduce in isolation nor by re-running its task: %s'
                      % json.dumps({k: v for k, v in cand.items() if k != '_task'})[:600])
            continue
        cand.pop('_task', None)
        cand = dict(cand)
        cand['expected'] = core.jsonable(a.get('expected'))
        cand['observed'] = core.jsonable(a.get('observed'))
        cand['detail'] = a.get('detail') or cand.get('detail')
        confirmed.append(cand)

    # ---- evidence --------------------------------------------------------
    level = mod.LEVEL
    cov = {
        'evaluations': rep.evaluations,
        'distinct_nontrivial': rep.distinct_nontrivial,
        'distinct_outcomes': len(rep.outcomes),
        'distinct_outcomes_capped': rep.outcomes_capped,
        'rule': mod.RULE,
        'samples': rep.samples[:8] or ['(none)'],
        'exhaustive': bool(extra.get('exhaustive', True)),
        'bounds': extra.get('bounds', {}),
        'counters': dict(sorted(rep.counters.items())),
        'known_findings_observed': {fid: n for fid, n in known_lines},
        'repo_head': _head(),
        'workers': core.NPROC,
    }
    if level == 'model_checking':
        cov['states'] = rep.states
        cov['transitions'] = rep.transitions
        cov['traces_validated_against_impl'] = rep.traces
    for k, v in extra.items():
        if k not in ('exhaustive', 'bounds', 'floors'):
            cov[k] = v
    ev = {
        'property_id': pid, 'tier': args.tier, 'seed': seed, 'level': level, 'coverage': cov,
        'assumptions': list(getattr(mod, 'ASSUMPTIONS', [])),
        'wall_s': round(wall, 2), 'violations': rep.nviolations,
    }
    if not args.no_evidence:
        d = os.path.join(core.VP_HOME, 'evidence')
        os.makedirs(d, exist_ok=True)
        with open(os.path.join(d, '%s.json' % pid), 'w') as f:
            json.dump(ev, f, indent=1, sort_keys=True)

    # ---- verdict ---------------------------------------------------------
    for fid, n in known_lines:
        print('KNOWN-FINDING: property=%s %s [%s, %d cases]' % (pid, findings.summary(fid), fid, n))
    print('%s %s: evaluations=%d distinct_nontrivial=%d outcomes=%d states=%d transitions=%d wall=%.1fs'
          % (pid, args.tier, rep.evaluations, rep.distinct_nontrivial, len(rep.outcomes), rep.states,
             rep.transitions, wall))
    for c in confirmed:
        path = write_replay(pid, args.tier, c)
        print('  case: %s' % json.dumps(c['case'])[:500])
        print('  expected: %s' % json.dumps(c['expected'])[:400])
        print('  observed: %s' % json.dumps(c['observed'])[:400])
        if c.get('detail'):
            print('  detail: %s' % str(c['detail'])[:400])
        print('VIOLATION property=%s replay=%s' % (pid, path))
    if confirmed:
        return 1
    if rep.errors:
        for e in rep.errors:
            print('HARNESS ERROR: %s' % e)
        return 2
    floors = extra.get('floors', {})
    for name, floor in floors.items():
        have = rep.counters.get(name, 0) if name not in ('evaluations', 'outcomes') else \
            (rep.evaluations if name == 'evaluations' else len(rep.outcomes))
        if have < floor:
            print('HARNESS ERROR: vacuity guard %s=%d below floor %d' % (name, have, floor))
            return 2
    return 0


if __name__ == '__main__':
    sys.exit(main())
