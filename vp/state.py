"""
Interpreter-wide state of plasTeX (DESIGN.md section 1.4).

plasTeX keeps parser state on classes (register values, MathShift.inEnv, List.depth,
ParameterCommand.enabled ...).  snapshot() records every non-callable, non-descriptor
class attribute of every Macro subclass that exists at snapshot time (module-level
classes; classes generated per document live in that document's Context and die with it);
restore() puts them back; diff() reports what changed (used by C17).
"""
import copy, types

_SKIP_NAMES = {'@arguments', '@locals', '__doc__', '__module__', '__dict__', '__weakref__',
               '__slots__', '__qualname__', '__annotations__', '__firstlineno__', '__static_attributes__',
               '__abstractmethods__', '_abc_impl', '__parameters__', '__orig_bases__'}
_SKIP_TYPES = (types.FunctionType, types.BuiltinFunctionType, classmethod, staticmethod, property,
               type, types.MethodDescriptorType, types.WrapperDescriptorType, types.GetSetDescriptorType,
               types.MemberDescriptorType)


def preload():
    """Import everything whose module-level classes carry interpreter-wide state, so that
    the pristine snapshot covers them."""
    import importlib
    import plasTeX, plasTeX.TeX, plasTeX.Context, plasTeX.Base
    for m in ('article', 'book', 'report', 'ifthen', 'makeidx', 'amsmath', 'amsthm', 'graphicx',
              'hyperref', 'color', 'xcolor', 'longtable', 'array', 'url', 'alltt', 'float', 'subfig',
              'textcomp', 'fontenc', 'inputenc', 'babel', 'natbib', 'amssymb', 'amsfonts'):
        try:
            importlib.import_module('plasTeX.Packages.' + m)
        except Exception:
            pass


def _classes():
    import plasTeX
    seen = set()
    out = []
    stack = [plasTeX.Macro]
    while stack:
        c = stack.pop()
        if c in seen:
            continue
        seen.add(c)
        out.append(c)
        stack.extend(c.__subclasses__())
    # per-interpreter holders that are not macros: a class attribute there is shared by all documents as well
    import plasTeX.Context, plasTeX.TeX
    for c in (plasTeX.Context.Context, plasTeX.TeX.TeX, plasTeX.TeXDocument):
        if c not in seen:
            out.append(c)
    return out


def _copyval(v):
    if isinstance(v, (list, dict, set)):
        try:
            return copy.deepcopy(v)
        except Exception:
            return copy.copy(v)
    return v


def _attrs(cls):
    for k, v in list(vars(cls).items()):
        if k in _SKIP_NAMES or (k.startswith('__') and k.endswith('__')):
            continue
        if isinstance(v, _SKIP_TYPES):
            continue
        yield k, v


# module-level containers that legitimately change while documents are processed and cannot influence a later document
_MODULE_GLOBALS_IGNORED = {
    ('plasTeX.Logging', 'loggers'),         # registry of logger objects by name
}


def _module_containers():
    """(module name, global name, object) for every dict / list / set bound at module level in a plasTeX module"""
    import sys
    out = []
    for mname, mod in sorted(sys.modules.items()):
        if mod is None or not (mname == 'plasTeX' or mname.startswith('plasTeX.')):
            continue
        for k, v in list(vars(mod).items()):
            if k.startswith('__') or (mname, k) in _MODULE_GLOBALS_IGNORED:
                continue
            if isinstance(v, (dict, list, set)):
                out.append((mname, k, v))
    return out


def _frozen(v):
    try:
        return repr(sorted(v.items(), key=repr) if isinstance(v, dict) else sorted(v, key=repr) if isinstance(v, set) else v)
    except Exception:
        return '<%s of %d>' % (type(v).__name__, len(v))


class Snapshot(object):
    def __init__(self, module_level_only=True):
        self.items = []     # (cls, name, value, saved_copy_or_None)
        self.names = {}     # cls -> set of attribute names
        self.lens = {}      # cls -> len(vars(cls)) when last found clean (fast path)
        # module-level dictionaries / lists / sets of the plasTeX modules loaded now (compared by C17 only)
        self.modglobals = [(m, k, v, _frozen(v), _copyval(v)) for m, k, v in _module_containers()]
        for cls in _classes():
            if module_level_only:
                import sys
                mod = sys.modules.get(cls.__module__)
                if mod is None or getattr(mod, cls.__name__, None) is not cls:
                    # nested / generated classes: only keep if reachable as a class attribute of a kept class
                    if '.' not in cls.__qualname__:
                        continue
            names = set()
            for k, v in _attrs(cls):
                names.add(k)
                saved = _copyval(v) if isinstance(v, (list, dict, set)) else None
                self.items.append((cls, k, v, saved))
            self.names[cls] = names

    def restore(self):
        """Put every recorded attribute back; drop attributes added since. Returns number of repairs."""
        n = 0
        for cls, k, v, saved in self.items:
            cur = cls.__dict__.get(k, _MISSING)
            if saved is not None:
                if cur is not v or v != saved:
                    if isinstance(v, list):
                        v[:] = copy.deepcopy(saved)
                    elif isinstance(v, dict):
                        v.clear(); v.update(copy.deepcopy(saved))
                    elif isinstance(v, set):
                        v.clear(); v.update(saved)
                    if cur is not v:
                        setattr(cls, k, v)
                    n += 1
            elif cur is not v:
                setattr(cls, k, v)
                n += 1
        lens = self.lens
        for cls, names in self.names.items():
            if len(cls.__dict__) == lens.get(cls):
                continue
            for k, v in list(_attrs(cls)):
                if k not in names:
                    try:
                        delattr(cls, k)
                        n += 1
                    except Exception:
                        pass
            lens[cls] = len(cls.__dict__)
        return n

    def diff_modules(self):
        """(module, global name, pristine repr, current repr) of module-level containers whose content changed"""
        out = []
        for m, k, v, frozen, saved in self.modglobals:
            cur = _frozen(v)
            if cur != frozen:
                out.append((m, k, frozen[:80], cur[:80]))
        return out

    def restore_modules(self):
        for m, k, v, frozen, saved in self.modglobals:
            if _frozen(v) != frozen:
                try:
                    if isinstance(v, list):
                        v[:] = copy.copy(saved)
                    else:
                        v.clear()
                        v.update(copy.copy(saved))
                except Exception:
                    pass

    def diff(self):
        """List of (class qualified name, attribute, pristine repr, current repr) that differ now."""
        out = []
        for cls, k, v, saved in self.items:
            cur = cls.__dict__.get(k, _MISSING)
            if saved is not None:
                if cur is not v and cur != saved or (cur is v and v != saved):
                    out.append(('%s.%s' % (cls.__module__, cls.__qualname__), k, repr(saved)[:80], _r(cur)))
            elif cur is not v and not _same(cur, v):
                out.append(('%s.%s' % (cls.__module__, cls.__qualname__), k, _r(v), _r(cur)))
        for cls, names in self.names.items():
            for k, v in _attrs(cls):
                if k not in names:
                    out.append(('%s.%s' % (cls.__module__, cls.__qualname__), k, '<absent>', _r(v)))
        return sorted(out)


class _Missing(object):
    def __repr__(self):
        return '<absent>'


_MISSING = _Missing()


def _r(v):
    try:
        return repr(v)[:80]
    except Exception:
        return '<%s>' % type(v).__name__


def _same(a, b):
    try:
        return type(a) is type(b) and a == b and repr(a) == repr(b)
    except Exception:
        return False


_PRISTINE = None


def pristine():
    global _PRISTINE
    if _PRISTINE is None:
        preload()
        _PRISTINE = Snapshot()
    return _PRISTINE


_IDGEN_CODE = None


def _fresh_idgen():
    """a new instance of plasTeX's OWN generator of automatic identifiers (the module keeps only the running generator
    object; its code is taken from there), so that a change to that generator is not hidden by the harness"""
    global _IDGEN_CODE
    import plasTeX
    if _IDGEN_CODE is None:
        _IDGEN_CODE = plasTeX.idgen.gi_code
    return types.FunctionType(_IDGEN_CODE, vars(plasTeX))()


_GEN_BASES = None


def release_generated_classes():
    """plasTeX creates classes with type(name, ...) where `name` is a Token (a str subclass that points to its
    document).  CPython keeps that object as the class name without reporting it to the cycle collector, so every
    document that executed \\def/\\newcommand/\\newif/... would stay alive forever and a long-lived worker grows by
    ~100 KB per case.  Give such classes a plain-str name so the previous documents can be collected.  (Harness
    hygiene only: not a property of plasTeX.)"""
    global _GEN_BASES
    import plasTeX
    if _GEN_BASES is None:
        _GEN_BASES = [plasTeX.Definition, plasTeX.NewCommand, plasTeX.NewIf, plasTeX.IfTrue, plasTeX.IfFalse,
                      plasTeX.CountCommand, plasTeX.DimenCommand, plasTeX.GlueCommand, plasTeX.MuGlueCommand,
                      plasTeX.MuDimenCommand, plasTeX.UnrecognizedMacro, plasTeX.TheCounter, plasTeX.Command]
    for base in _GEN_BASES:
        for c in base.__subclasses__():
            if type(c.__name__) is not str:
                q = str(c.__qualname__)
                c.__name__ = str(c.__name__)
                c.__qualname__ = q


def cold():
    """Interpreter state as in a process that has not parsed anything yet: the pristine snapshot plus none of the lazily
    built per-class caches ('@locals': macros local to an environment, '@arguments': compiled argument templates).  Called
    at the start of every task, so that a task's observations are a function of the task."""
    n = reset()
    for cls in _classes():
        d = cls.__dict__
        for k in ('@locals', '@arguments'):
            if k in d:
                try:
                    delattr(cls, k)
                except Exception:
                    pass
    return n


def reset():
    """Restore interpreter-wide state to the pristine snapshot (call between cases); the generator of automatic
    identifiers is restarted too, so that two runs of the same case spell generated ids identically."""
    import plasTeX
    plasTeX.idgen = _fresh_idgen()
    release_generated_classes()
    return pristine().restore()
